"""C20 - numeric helpers of odc.geo.math meet their documented contracts.

E1: complete Cartesian products of small alphabets per helper, executed on the real functions and
judged by exact rational arithmetic (fractions.Fraction of the binary64 inputs) for the arithmetic
contracts, and by first-principles linear algebra (numpy on the raw matrices / exact rational
evaluation of the target polynomial) for decomposition and fitting.

Alphabets (DESIGN 3): D = dyadic, every intermediate of the implementation is exact, comparisons
are ``==``; R = realistic, oracle in exact rationals of the binary64 inputs with slack
``1e-9*(|value|+pixel)`` world / ``1e-6`` pixel.
"""
from __future__ import annotations

import itertools
import math
from fractions import Fraction as Fr

import numpy as np
from affine import Affine

from vf import e1
from vf.core import R

PROPERTY = "C20"
LEVEL = "exploration"

from odc.geo import math as M  # noqa: E402
from odc.geo.types import resxy_, xy_  # noqa: E402

REL = Fr(1, 10**9)  # R-alphabet world slack factor
PIX = Fr(1, 10**6)  # R-alphabet pixel slack


def up(x):
    return math.nextafter(x, math.inf)


def dn(x):
    return math.nextafter(x, -math.inf)


def near_int(x):
    """exact: (nearest integer n (ties to even), distance |x-n|) of a finite float"""
    fx = Fr(x)
    n = round(fx)
    return n, abs(fx - n)


def sgn(v):
    return "neg" if v < 0 else ("zero" if v == 0 else "pos")


# ---------------------------------------------------------------------------------------------
# slice near-int: split_float / maybe_int / is_almost_int / maybe_zero / split_translation
# ---------------------------------------------------------------------------------------------
# dyadic tolerances put points exactly at the tolerance for every k; 0.0 is a tolerance GIVEN as zero (nothing snaps)
TOLS = (1e-3, 1e-6, 1e-8, 2.0**-10, 2.0**-20, 0.0)
KS_Q = (0, 1, -1, 2, -2, 7, -7, 1000, -1000, 2**31, -(2**31), 2**40, 10**15, -(10**15))
KS_T = KS_Q + (3, -3, 255, -256, 65535, 10**6, -(10**7), 2**52, -(2**52), 2**53, 2**60)


def _fracs():
    mags = [1e-15, 1e-9, 1e-7, 1e-3, 0.25, 0.4999999, 0.5, 0.5000001, 0.75, 0.999, 1 - 1e-9]
    for t in TOLS:
        if t > 0:  # both edges of the window, additive; 1 - f*t approaches the next integer from below
            mags += [0.9 * t, 0.999 * t, t, 1.001 * t, 1.1 * t, 1 - t, 1 - 0.999 * t, 1 - 1.001 * t]
    out = [0.0]
    for m in mags:
        out += [m, -m]
    return tuple(dict.fromkeys(out))


FRACS = _fracs()


def gen_nearint(tier):
    ks = KS_T if tier == "thorough" else KS_Q

    def gen():
        for k in ks:
            for f in FRACS:
                for ulp in (-1, 0, 1):
                    for tol in TOLS:
                        yield (k, f, ulp, tol)
        for x in (math.nan, math.inf, -math.inf):
            for tol in TOLS:
                yield ("nonfinite", x, 0, tol)

    return gen


def _mk_x(k, f, ulp):
    x = float(k) + f
    if ulp > 0:
        x = up(x)
    elif ulp < 0:
        x = dn(x)
    return x


def run_nearint(case):
    k, f, ulp, tol = case
    if k == "nonfinite":
        x = f
        r = R(outcome="nonfinite", nontrivial=False)
        w, p = M.split_float(x)
        if not ((w == x or (w != w and x != x)) and p == 0):
            r.fail("split_float:nonfinite", f"split_float({x}) -> {(w, p)}")
        mi = M.maybe_int(x, tol)
        if not (mi == x or (mi != mi and x != x)):
            r.fail("maybe_int:nonfinite", f"maybe_int({x},{tol}) -> {mi}")
        if M.is_almost_int(x, tol) is not False:
            r.fail("is_almost_int:nonfinite", f"is_almost_int({x},{tol}) is not False")
        return r

    x = _mk_x(k, f, ulp)
    fx, ft = Fr(x), Fr(tol)
    n, d = near_int(x)
    tie = d == Fr(1, 2)
    rel = "inside" if d < ft else ("at" if d == ft else "outside")
    cls = f"{sgn(x)}:{'tie' if tie else ('int' if d == 0 else 'frac')}:{rel}-tol"
    r = R(outcome=cls)

    # split_float: whole + part == x exactly, whole integral, |part| <= 1/2
    w, p = M.split_float(x)
    fw, fp = Fr(w), Fr(p)
    if fw + fp != fx or float(w) + float(p) != x:
        r.fail(f"split_float:sum:{cls}", f"split_float({x!r}) -> {(w, p)}: sum differs from input")
    if fw.denominator != 1:
        r.fail(f"split_float:whole-not-integer:{cls}", f"split_float({x!r}) -> {(w, p)}")
    if abs(fp) > Fr(1, 2):
        r.fail(f"split_float:fraction-range:{cls}", f"split_float({x!r}) -> {(w, p)}: |fraction| > 0.5")
    if not tie and fw.denominator == 1 and int(fw) != n:
        r.fail(f"split_float:whole-not-nearest:{cls}", f"split_float({x!r}) -> {(w, p)}, nearest integer {n}")

    # is_almost_int: distance to the nearest integer is below tol
    ai = M.is_almost_int(x, tol)
    if not isinstance(ai, bool) or ai != (d < ft):
        r.fail(f"is_almost_int:{rel}-tol:{sgn(x)}", f"is_almost_int({x!r},{tol}) -> {ai}; distance {float(d)!r}")

    # maybe_int: int(nearest) when within tol, else the value unchanged
    mi = M.maybe_int(x, tol)
    if d < ft:
        if not (isinstance(mi, int) and not isinstance(mi, bool) and mi == n):
            r.fail(f"maybe_int:not-snapped:{sgn(x)}", f"maybe_int({x!r},{tol}) -> {mi!r}, want int {n}")
    else:
        if isinstance(mi, int) or mi != x:
            r.fail(f"maybe_int:changed-{rel}-tol:{sgn(x)}", f"maybe_int({x!r},{tol}) -> {mi!r}, want unchanged")
    # the two agree with each other
    if isinstance(mi, int) != bool(ai):
        r.fail(f"maybe_int-vs-is_almost_int:{rel}-tol:{sgn(x)}",
               f"x={x!r} tol={tol}: maybe_int -> {mi!r} but is_almost_int -> {ai}")

    # maybe_zero
    mz = M.maybe_zero(x, tol)
    if abs(fx) < ft:
        if mz != 0:
            r.fail("maybe_zero:not-zeroed", f"maybe_zero({x!r},{tol}) -> {mz!r}")
    elif mz != x:
        r.fail("maybe_zero:changed", f"maybe_zero({x!r},{tol}) -> {mz!r}")

    # split_translation is split_float per axis
    y = -x + 0.25
    tw, tp = M.split_translation(xy_(x, y))
    for a, v in (("x", x), ("y", y)):
        ww, pp = getattr(tw, a), getattr(tp, a)
        if Fr(ww) + Fr(pp) != Fr(v) or abs(Fr(pp)) > Fr(1, 2) or Fr(ww).denominator != 1:
            r.fail(f"split_translation:{a}", f"split_translation({(x, y)!r}) -> {tw}, {tp}")
    return r


# ---------------------------------------------------------------------------------------------
# slice align: align_down / align_up / align_up_pow2 / align_down_pow2
# ---------------------------------------------------------------------------------------------
def _align_xs():
    xs = list(range(-40, 5001))
    for k in range(13, 33):  # stated range k <= 32
        for d in (-3, -2, -1, 0, 1, 2, 3):
            xs.append(2**k + d)
    return xs


def gen_align():
    for x in _align_xs():
        for a in range(1, 21):
            yield ("mult", x, a)
        yield ("pow2", x, 0)
    for k in range(13, 33):
        for d in (-1, 0, 1):
            yield ("mult", -(2**k) + d, 16)
            yield ("mult", -(2**k) + d, 3)
    # same values as numpy integers / floats (value-level comparison with the Python-int answer)
    xs = list(range(-40, 300)) + [2**k + d for k in (10, 16, 30, 31, 32) for d in (-1, 0, 1)]
    for enc in ("i64", "i32", "float"):
        for x in xs:
            for a in (1, 2, 3, 7, 16):
                yield ("enc-" + enc, x, a)


def run_align(case):
    kind, x, a = case
    if kind.startswith("enc-"):
        enc = kind[4:]
        if enc == "i32" and not -(2**31) <= x < 2**31 - 64:
            return R(outcome="enc-n/a:i32", nontrivial=False)
        cv = {"i64": np.int64, "i32": np.int32, "float": float}[enc]
        r = R(outcome=f"enc:{enc}")
        for fn, args in ((M.align_down, (x, a)), (M.align_up, (x, a)), (M.align_up_pow2, (x,)), (M.align_down_pow2, (x,))):
            if fn is M.align_down_pow2 and x <= 0:
                continue
            want = fn(*args)
            got = fn(cv(args[0]), *[cv(v) if enc != "float" else v for v in args[1:]])
            if got != want or (fn in (M.align_up_pow2, M.align_down_pow2) and not isinstance(got, int)):
                r.fail(f"{fn.__name__}:encoding:{enc}", f"{fn.__name__}({enc}{args!r}) -> {got!r}, Python ints give {want!r}")
        return r
    if kind == "mult":
        r = R(outcome=f"mult:{sgn(x)}:{'aligned' if x % a == 0 else 'between'}")
        y = M.align_down(x, a)
        if not (isinstance(y, int) and y % a == 0 and y <= x and x - y < a):
            r.fail(f"align_down:{sgn(x)}", f"align_down({x},{a}) -> {y}")
        y = M.align_up(x, a)
        if not (isinstance(y, int) and y % a == 0 and y >= x and y - x < a):
            r.fail(f"align_up:{sgn(x)}", f"align_up({x},{a}) -> {y}")
        return r
    # powers of two: x >= 1 by the docstrings; x <= 0 -> 1 for align_up_pow2 (smallest 2**n, n >= 0)
    if x <= 0:
        r = R(outcome="pow2:nonpositive", nontrivial=False)
        y = M.align_up_pow2(x)
        if not (isinstance(y, int) and y == 1):
            r.fail("align_up_pow2:nonpositive", f"align_up_pow2({x}) -> {y!r}")
        return r
    ispow = x & (x - 1) == 0
    big = x > 5000
    r = R(outcome=f"pow2:{'exact' if ispow else 'between'}:{'big' if big else 'small'}")
    want_up = 1 << (x - 1).bit_length()
    want_dn = 1 << (x.bit_length() - 1)
    y = M.align_up_pow2(x)
    if not (isinstance(y, int) and y == want_up):
        r.fail(f"align_up_pow2:{'exact' if ispow else 'between'}", f"align_up_pow2({x}) -> {y!r}, want {want_up}")
    y = M.align_down_pow2(x)
    if not (isinstance(y, int) and y == want_dn):
        r.fail(f"align_down_pow2:{'exact' if ispow else 'between'}", f"align_down_pow2({x}) -> {y!r}, want {want_dn}")
    return r


# ---------------------------------------------------------------------------------------------
# slices snap-grid-D / snap-grid-R
# ---------------------------------------------------------------------------------------------
SG_D_RES = (1.0, -1.0, 0.25, -0.25, 2.0, -2.0)
SG_D_OFF = (0.0, 0.5, 0.25, 0.875, None)
SG_D_TOL = (0.0, 2.0**-20, 2.0**-7, 0.125)
SG_D_K = (0, 3, -7, 1000, -(2**20))
SG_D_SPAN_K = (0, 1, 2, 7, 100)


def _sg_d_f(tol):
    """dyadic pixel fractions at and around the tolerance and the usual landmarks"""
    e = 2.0**-30
    fs = {0.0, e, -e, 0.25, 0.5, 0.75, -0.25, 1 - e, -(1 - e)}
    if tol > 0:
        for t in (tol - e, tol, tol + e):
            fs |= {t, -t}
    return sorted(fs)


def gen_sg_d(tier):
    big = tier == "thorough"
    ress = SG_D_RES + ((0.5, -0.5, 4.0, -4.0) if big else ())
    k0s = SG_D_K + ((1, -1, 2**10) if big else ())
    spans = SG_D_SPAN_K + ((3, 1000) if big else ())

    def gen():
        for res in ress:
            for off in SG_D_OFF:
                for tol in SG_D_TOL:
                    fs = _sg_d_f(tol)
                    for k0 in k0s:
                        for f0 in fs:
                            for ks in spans:
                                for f1 in fs:
                                    yield (k0, f0, ks, f1, res, off, tol)

    return gen


SG_R_LEFT = (0.0, 0.2, -0.2, 3.0, 2.996, 3.004, -7.5, 3.5, -0.5, 1000.3, -(10.0**6) + 0.4, 10.0**7 + 0.3)
SG_R_BASE = (0.0, 5e5, 5e5 + 1e-3)  # absolute origin the lattice position is added to (UTM-sized, and 1 mm off a whole number)
SG_R_SPAN = (0.0, 0.005, 0.1, 0.99, 0.995, 1.0, 1.004, 1.0099, 1.0101, 2.5, 7.0, 100.5, 12345.678, 2e6)
SG_R_RES = (1.0, -1.0, 10.0, -10.0, 0.25, -0.25, 30.0, -30.0, 0.1, -0.1, 1 / 3, -1 / 3, 4.5e-6, -4.5e-6, 1e5, -1e5)
SG_R_OFF = (0.0, 0.5, 0.25, 0.9, 0.1, 0.7, None)
SG_R_TOL = (0.0, 1e-6, 0.01, 0.1)


def gen_sg_r():
    for base in SG_R_BASE:
        for left in SG_R_LEFT:
            for span in SG_R_SPAN:
                for res in SG_R_RES:
                    for off in SG_R_OFF:
                        for tol in SG_R_TOL:
                            yield (base, left, span, res, off, tol)


def _judge_snap_grid(r, x0, x1, res, off, tol, exact):
    """Oracle in exact rationals of the binary64 inputs.

    span covers [x0,x1] up to tol*px; pixel edges == off (mod px); no pixel can be dropped.
    At exact equality with a tolerance boundary either decision is accepted.
    """
    tx, nx = M.snap_grid(x0, x1, res, off, tol)
    a = abs(Fr(res))
    X0, X1, T = Fr(x0), Fr(x1), Fr(tol)
    ta = T * a
    sres = "res-pos" if res > 0 else "res-neg"
    cls = f"{sres}:{'no-snap' if off is None else 'snap'}:{'D' if exact else 'R'}"
    what = f"snap_grid({x0!r},{x1!r},{res!r},{off!r},{tol!r}) -> {(tx, nx)!r}"
    if not (isinstance(nx, int) and nx >= 1):
        r.fail(f"snap_grid:count-not-positive-int:{cls}", what)
        return
    TX = Fr(tx)
    L = TX if res > 0 else TX - nx * a
    Rt = L + nx * a
    # R slack: a few ulps of the largest coordinate involved (the implementation rounds x0-off, the quotient, the
    # product and the sum once each) plus 1e-9 pixel - NOT a fraction of the coordinate, which at 5e5 m would be
    # a hundred 4.5e-6 pixels
    ulps = Fr(8 * math.ulp(float(max(abs(X0), abs(X1), abs(L), abs(Rt)))))
    eps = Fr(0) if exact else ulps + REL * a
    if off is None:
        # floating: origin is the in-point on the side the grid starts from
        anchor = X0 if res > 0 else X1
        if TX != anchor:
            r.fail(f"snap_grid:origin-moved:{cls}", what + f", want origin {float(anchor)!r}")
    else:
        q = (L - Fr(off) * a) / a
        dist = abs(q - round(q))
        if dist > (0 if exact else REL + ulps / a):
            r.fail(f"snap_grid:not-aligned:{cls}", what + f": left edge is {float(dist)!r} px off the requested fraction")
    if L > X0 + ta + eps:
        r.fail(f"snap_grid:left-not-covered:{cls}", what + f": left edge {float(L)!r} > x0 + tol*px")
    if Rt < X1 - ta - eps:
        r.fail(f"snap_grid:right-not-covered:{cls}", what + f": right edge {float(Rt)!r} < x1 - tol*px")
    # minimal pixel count: with more than one pixel neither the first nor the last can be dropped
    # (edges move in whole pixels, so this is equivalent to nx being the smallest covering count)
    if nx > 1 and L + a < X0 + ta - eps:
        r.fail(f"snap_grid:left-pixel-droppable:{cls}", what + f": grid starting at {float(L + a)!r} still covers x0")
    if nx > 1 and Rt - a > X1 - ta + eps:
        r.fail(f"snap_grid:right-pixel-droppable:{cls}", what + f": grid ending at {float(Rt - a)!r} still covers x1")
    r.counts["snap_grid:nx1" if nx == 1 else "snap_grid:nx>1"] = 1


def run_sg_d(case):
    k0, f0, ks, f1, res, off, tol = case
    a = abs(res)
    x0 = (k0 + f0) * a
    x1 = (k0 + ks + f1) * a
    if x1 < x0:
        return R(outcome="precondition-x1<x0", nontrivial=False)
    # exactness of the inputs on D (harness self-check): products above must be exact
    assert Fr(x0) == (Fr(k0) + Fr(f0)) * Fr(a) and Fr(x1) == (Fr(k0 + ks) + Fr(f1)) * Fr(a), case

    def cl(f):
        f = abs(f)
        f = min(f, 1 - f)
        return "0" if f == 0 else ("<tol" if f < tol else ("=tol" if f == tol else ">tol"))

    r = R(outcome=f"D:{'pos' if res > 0 else 'neg'}:{'float' if off is None else 'snap'}:{cl(f0)}:{cl(f1)}:{min(ks, 2)}")
    _judge_snap_grid(r, x0, x1, res, off, tol, exact=True)
    return r


def run_sg_r(case):
    base, left, span, res, off, tol = case
    a = abs(res)
    x0 = base + left * a
    x1 = x0 + span * a
    if x1 < x0:
        return R(outcome="precondition-x1<x0", nontrivial=False)
    r = R(outcome=f"R:{'pos' if res > 0 else 'neg'}:{'float' if off is None else 'snap'}:tol{tol}:{'wide' if span >= 1 else 'sub-pixel'}"
                  f":{'tiny-px' if a < 1e-3 else ('huge-px' if a > 1e3 else 'px')}")
    _judge_snap_grid(r, x0, x1, res, off, tol, exact=False)
    return r


# ---------------------------------------------------------------------------------------------
# slices snap-scale / snap-affine
# ---------------------------------------------------------------------------------------------
SS_N = (1, 2, 3, 4, 5, 7, 10, 30, 100, 1000, 1024)
SS_TOL = (1e-3, 1e-6, 1e-8, 0.0)
SS_FORMS = ("n", "1/n", "1/(n+d)", "n*(1+d)", "1/(n*(1+d))")  # additive and multiplicative readings, both branches


def _ss_deltas(tol):
    # both edges of the window (0.9 / 0.999 / 1.001 / 1.1 x tol) plus far inside / far outside
    return tuple(dict.fromkeys((0.0, 1e-12, 1e-9, 0.5 * tol, 0.9 * tol, 0.999 * tol, 1.001 * tol, 1.1 * tol, 2 * tol,
                                10 * tol, 1e-2, 0.3)))


def gen_ss():
    for tol in SS_TOL:
        for n in SS_N:
            for sg in (1, -1):
                for d in _ss_deltas(tol):
                    for ds in (1, -1):
                        for form in SS_FORMS:
                            yield (form, sg * n, ds * d, tol)
        for s in (0.0, -0.0, 1e-12, -1e-12, 1e-15, -1e-15, 0.5 * tol, -0.9 * tol, 0.999 * tol, -1.001 * tol, 1.1 * tol,
                  0.6, -0.6, 0.75, 3.478, 0.4, 2 / 3, -2 / 7, 1e15, -1e15, 1e15 + 0.125, 2.0**52 + 0.5, 1e300, 1e-300):
            yield ("raw", s, 0.0, tol)


def _mk_scale(form, n, d):
    if form == "n":
        return n + d
    if form == "1/n":
        return 1 / n + d / (n * n)  # ~ d away from n in the inverse
    if form == "1/(n+d)":
        return 1 / (n + d)
    if form == "n*(1+d)":
        return n * (1 + d)
    if form == "1/(n*(1+d))":
        return 1 / (n * (1 + d))
    return n  # raw


def judge_snap_scale(r, s, got, tol, tag):
    """Value-level oracle: got == s, or got is the integer / 1/<integer> that s is within tol of.

    Integer snapping is decided on exact values by the implementation (fmod is exact), so it is
    judged exactly; the reciprocal 1/s is rounded once, which is allowed for (ERR below).
    Returns a class label for the outcome.
    """
    S, G, T = Fr(s), Fr(got), Fr(tol)
    what = f"snap_scale({s!r},{tol!r}) -> {got!r}"
    n, d = near_int(s)
    m = T * (1 - PIX)
    inv = 1 / S if S != 0 else None
    err = abs(inv) * Fr(1, 2**52) if inv is not None else Fr(0)
    if G == S:
        if n != 0 and d < m and d != 0:
            r.fail(f"{tag}:int-not-snapped", what + f": {float(d)!r} from integer {n}")
        elif inv is not None and T * (1 + PIX) <= abs(S) <= 1 - T * (1 + PIX):
            ni = round(inv)
            if abs(inv - ni) + err < m and s != 1.0 / ni:
                r.fail(f"{tag}:fraction-not-snapped", what + f": 1/s is {float(abs(inv - ni))!r} from integer {ni}")
        return "same"
    if G.denominator == 1:
        ok = abs(S - G) < T or (abs(G) == 1 and inv is not None and abs(inv - G) <= T * (1 + REL) + err)
        if not ok:
            r.fail(f"{tag}:int-beyond-tol", what + f": |s-{int(G)}| = {float(abs(S - G))!r} >= tol")
        return "int"
    mi = round(1 / G)
    if inv is None or abs(mi) < 2 or got != 1.0 / mi:
        r.fail(f"{tag}:changed-to-non-target", what + ": result is neither s, an integer nor 1/<int>")
        return "bad"
    if abs(inv - mi) > T * (1 + REL) + err:
        r.fail(f"{tag}:fraction-beyond-tol", what + f": |1/s-{mi}| = {float(abs(inv - mi))!r} > tol")
    return "unit-fraction"


def run_ss(case):
    form, n, d, tol = case
    s = _mk_scale(form, n, d)
    r = R(outcome=f"{form}:")
    try:
        got = M.snap_scale(s, tol)
    except ZeroDivisionError as e:
        r.outcome = "raised:ZeroDivisionError"
        return r.fail("snap_scale:zero-scale-zero-tol" if s == 0 and tol == 0 else f"snap_scale:ZeroDivisionError:{form}",
                      f"snap_scale({s!r},{tol!r}) raises ZeroDivisionError: {e}")
    k = judge_snap_scale(r, s, got, tol, f"snap_scale:{form}")
    r.outcome = f"{form}:{k}:{sgn(s)}"
    again = M.snap_scale(got, tol)
    if again != got:
        r.fail(f"snap_scale:not-idempotent:{form}:{k}", f"snap_scale({s!r},{tol!r}) -> {got!r} -> {again!r}")
    if tol == 1e-6 and M.snap_scale(s) != got:
        r.fail("snap_scale:default-tol", f"snap_scale({s!r}) != snap_scale({s!r}, 1e-6)")
    return r


SA_SC = (1.0, -1.0, 2.0, 0.5, -1 / 3, 30.0, 3.3, 0.6)
SA_T = (0.0, 10.0, -7.0, 5e5, 20.1, -0.5)
SA_W = (0.0, 1e-12, -0.9e-8, 1.1e-8, 1e-3, -0.25)
SA_TOLS = ((1e-3, 1e-6, 1e-8), (0.2, 1e-3, 1e-8), (1e-6, 1e-3, 1e-10))


def _sa_sdel(stol, ttol):
    return (0.0, 0.9 * stol, -1.1 * stol, 0.5 * ttol)


def _sa_tdel(stol, ttol):
    return (0.0, 0.9 * ttol, -0.9 * ttol, 1.1 * ttol, 2 * stol)


def gen_sa():
    for ti, (ttol, stol, tol) in enumerate(SA_TOLS):
        for sx in SA_SC:
            for dsx in _sa_sdel(stol, ttol):
                for sy in (-1.0, 0.25, 4.2):
                    for dsy in _sa_sdel(stol, ttol):
                        for tx in SA_T:
                            for dt in _sa_tdel(stol, ttol):
                                for wx, wy in ((0.0, 0.0), (1e-12, 0.0), (0.0, -0.9e-8), (1.1e-8, 0.0), (0.0, 1.1e-8),
                                               (1e-3, -1e-3), (-0.25, 0.0), (0.0, 0.5)):
                                    yield (ti, sx, dsx, sy, dsy, tx, dt, wx, wy)


def _judge_sa(r, a, ti):
    """a: 6 floats (sx, wx, tx, wy, sy, ty); ti: index into SA_TOLS (0 = call with the defaults)."""
    ttol, stol, tol = SA_TOLS[ti]
    A = Affine(*a)
    use_default = ti == 0
    B = M.snap_affine(A) if use_default else M.snap_affine(A, ttol=ttol, stol=stol, tol=tol)
    a, b = tuple(A)[:6], tuple(B)[:6]
    wx, wy = a[1], a[3]
    rotated = abs(Fr(wx)) > Fr(tol) or abs(Fr(wy)) > Fr(tol)
    what = f"snap_affine({a!r}, ttol={ttol}, stol={stol}, tol={tol}) -> {b!r}"
    if tuple(A)[:6] != a:
        r.fail("snap_affine:input-modified", what)
    if rotated:
        r.outcome = "rotated"
        if a != b:
            r.fail("snap_affine:rotated-changed", what)
        return
    if b[1] != 0 or b[3] != 0:
        r.fail("snap_affine:shear-kept", what)
    kinds = []
    for name, i in (("sx", 0), ("sy", 4)):
        kinds.append(judge_snap_scale(r, a[i], b[i], stol, f"snap_affine:{name}"))
    for name, i in (("tx", 2), ("ty", 5)):
        v, got = a[i], b[i]
        n, d = near_int(v)
        if d < Fr(ttol):
            kinds.append("t-int")
            if Fr(got) != n:
                r.fail(f"snap_affine:{name}:not-snapped", what + f": {name} is {float(d)!r} from {n}")
        else:
            kinds.append("t-same")
            if got != v:
                r.fail(f"snap_affine:{name}:changed-beyond-tol", what + f": {name} is {float(d)!r} from {n}, ttol={ttol}")
    r.outcome = "st:" + ",".join(kinds)
    C = M.snap_affine(B) if use_default else M.snap_affine(B, ttol=ttol, stol=stol, tol=tol)
    if tuple(C)[:6] != b:
        r.fail("snap_affine:not-idempotent", what + f" -> {tuple(C)[:6]!r}")


def run_sa(case):
    ti, sx, dsx, sy, dsy, tx, dt, wx, wy = case
    r = R(outcome="st")
    _judge_sa(r, (sx + dsx, wx, tx + dt, wy, sy + dsy, -tx - 2 * dt + 3), ti)
    return r


# windows: ONE component at a time walked across both edges of its tolerance window, additive and multiplicative
# reading, integer and reciprocal branch, scales just below 1 and near zero, negative, huge and tiny translations
SW_F = (0.9, 0.999, 1.001, 1.1, -0.9, -0.999, -1.001, -1.1)
SW_SC = (1.0, -1.0, 2.0, -3.0, 0.5, -0.25, 1 / 3, 1 / 1024, 1000.0)
SW_T = (0.0, 10.0, -7.0, 0.5, 5e5, -6e6, 1e15)
SW_BASE = ((1.0, 0.0, 0.0, 0.0, 1.0, 0.0), (2.0, 0.0, 10.0, 0.0, -0.5, -7.0), (1 / 3, 0.0, 5e5, 0.0, -30.0, 6e6 + 0.3))
AFFINE_ST_TOL = 1e-10  # default of is_affine_st; relative to the pixel size: |w| <= tol * max(|sx|, |sy|)


def gen_sw():
    for ti in range(len(SA_TOLS)):
        ttol, stol, tol = SA_TOLS[ti]
        for bi in range(len(SW_BASE)):
            for f in SW_F:
                for comp in (0, 4):  # sx, sy
                    for v in SW_SC:
                        for rd in ("add", "mul", "inv"):
                            yield (ti, bi, comp, v, f, stol, rd)
                for comp in (2, 5):  # tx, ty
                    for v in SW_T:
                        for rd in ("add", "mul"):
                            yield (ti, bi, comp, v, f, ttol, rd)
                for comp in (1, 3):  # wx, wy: windows of snap_affine's tol (absolute) and of is_affine_st (relative to pixel size)
                    for wt in (tol, AFFINE_ST_TOL):
                        for other in (0.0, 0.5, 2.0):  # the other off-diagonal entry, in units of the same window
                            for rd in ("add", "rel"):
                                yield (ti, bi, comp, other, f, wt, rd)


def run_sw(case):
    ti, bi, comp, v, f, t, rd = case
    a = list(SW_BASE[bi])
    if comp in (1, 3):
        unit = t * (max(abs(a[0]), abs(a[4])) if rd == "rel" else 1.0)
        a[comp] = f * unit
        a[4 - comp] = v * unit  # the other off-diagonal entry
    elif rd == "add":
        a[comp] = v + f * t
    elif rd == "mul":
        a[comp] = v * (1 + f * t)
    else:  # deviation applied to the reciprocal
        a[comp] = 1 / (1 / v + f * t)
    r = R(outcome="st")
    _judge_sa(r, tuple(a), ti)
    r.outcome = f"{('sx', 'wx', 'tx', 'wy', 'sy', 'ty')[comp]}:{rd}:{'in' if abs(f) < 1 else 'out'}:" + r.outcome
    # is_affine_st: both off-diagonal entries within tol * pixel size (relative tolerance); at the boundary itself
    # (within 1e-9 of it, where the rounding of tol * size decides) either answer is accepted
    A = Affine(*a)
    for tol_ in (None, SA_TOLS[ti][2]):
        got = M.is_affine_st(A) if tol_ is None else M.is_affine_st(A, tol_)
        tt = Fr(AFFINE_ST_TOL if tol_ is None else tol_) * max(abs(Fr(a[0])), abs(Fr(a[4])))
        w = max(abs(Fr(a[1])), abs(Fr(a[3])))
        if w <= tt * (1 - REL):
            want = True
        elif w > tt * (1 + REL):
            want = False
        else:
            continue
        if bool(got) != want:
            which = "wx" if abs(Fr(a[1])) > tt else "wy"
            r.fail(f"is_affine_st:{'false-positive:' + which if got else 'false-negative'}:{rd}",
                   f"is_affine_st({tuple(a)!r}, tol={'default' if tol_ is None else tol_}) -> {got}; "
                   f"largest off-diagonal entry is {float(w / tt) if tt else math.inf!r} x (tol * pixel size)")
    return r


# ---------------------------------------------------------------------------------------------
# slice rws: decompose_rws / resolution_from_affine
# ---------------------------------------------------------------------------------------------
RWS_E = (-2.0, -1.0, -0.5, 0.0, 0.5, 1.0, 2.0, 3.0)
RWS_ROT = (0.0, 30.0, 45.0, 90.0, 133.0, 180.0, -60.0, 270.0, 1e-3, 1e-9)
RWS_W = (0.0, 0.5, -0.5, 2.0, 1e-3)
RWS_SX = (1.0, 2.0, 0.1, 30.0, -1.0, -0.25)
RWS_SY = (1.0, -1.0, 3.0, -30.0, 1 / 3, 1e-3)
RWS_TOL = 1e-9


def gen_rws():
    for a, b, c, d in itertools.product(RWS_E, repeat=4):
        if a * d - b * c != 0:
            for as_affine in (False, True):
                yield ("m", (a, b, c, d), as_affine)
    for rot in RWS_ROT:
        for w in RWS_W:
            for sx in RWS_SX:
                for sy in RWS_SY:
                    for as_affine in (False, True):
                        yield ("rws", (rot, w, sx, sy), as_affine)


def run_rws(case):
    kind, par, as_affine = case
    if kind == "m":
        a, b, c, d = par
    else:
        rot, w, sx, sy = par
        t = math.radians(rot)
        Rm = np.array([[math.cos(t), -math.sin(t)], [math.sin(t), math.cos(t)]])
        (a, b), (c, d) = (Rm @ np.array([[1.0, w], [0.0, 1.0]]) @ np.diag([sx, sy])).tolist()
    A = np.array([[a, b], [c, d]], dtype="float64")
    det = a * d - b * c
    scale = float(np.abs(A).max())
    tol = RWS_TOL * scale
    # is_affine_st decides which path resolution_from_affine takes: |w| <= 1e-10 * pixel size
    st_t = AFFINE_ST_TOL * max(abs(a), abs(d))
    st = max(abs(b), abs(c)) <= st_t
    st_boundary = st_t * 0.999 < max(abs(b), abs(c)) <= st_t * 1.001 and st_t > 0
    cls = f"{kind}:{'affine' if as_affine else 'ndarray'}:det-{sgn(det)}:{'st' if st else 'rot'}"
    r = R(outcome=cls)
    what = f"decompose_rws({'Affine' if as_affine else 'array'}[[{a!r},{b!r}],[{c!r},{d!r}]])"
    if as_affine:
        tx, ty = 5.0, -7.5
        AA = Affine(a, b, tx, c, d, ty)
        Ra, Wa, Sa = M.decompose_rws(AA)
        if not all(isinstance(v, Affine) for v in (Ra, Wa, Sa)):
            return r.fail("decompose_rws:affine:type", what + " does not return Affine objects")
        back = Ra * Wa * Sa
        if max(abs(u - v) for u, v in zip(tuple(back)[:6], tuple(AA)[:6])) > RWS_TOL * max(scale, 7.5):
            r.fail(f"decompose_rws:affine:product:{cls}", what + f": R*W*S = {tuple(back)[:6]!r}")
        if (Ra.c, Ra.f) != (tx, ty) or (Wa.c, Wa.f, Sa.c, Sa.f) != (0, 0, 0, 0):
            r.fail("decompose_rws:affine:translation", what + ": translation not carried by R alone")
        Rm_, Wm_, Sm_ = (np.array([[v.a, v.b], [v.d, v.e]]) for v in (Ra, Wa, Sa))
        # same matrix through the ndarray entry point: identical factors
        for u, v in zip((Rm_, Wm_, Sm_), M.decompose_rws(A.copy())):
            if not np.array_equal(u, v):
                r.fail("decompose_rws:affine-vs-ndarray", what + ": Affine and ndarray entry points give different factors")
                break
        # apply_affine broadcasts A*(x, y) and leaves its inputs alone
        gx, gy = np.meshgrid(np.arange(-2.0, 3.0), np.arange(0.0, 3.0))
        kx, ky = gx.copy(), gy.copy()
        ax_, ay_ = M.apply_affine(AA, gx, gy)
        wx_ = np.array([[float(Fr(a) * Fr(x) + Fr(b) * Fr(y) + Fr(tx)) for x, y in zip(rx_, ry_)] for rx_, ry_ in zip(kx, ky)])
        wy_ = np.array([[float(Fr(c) * Fr(x) + Fr(d) * Fr(y) + Fr(ty)) for x, y in zip(rx_, ry_)] for rx_, ry_ in zip(kx, ky)])
        if ax_.shape != gx.shape or ay_.shape != gx.shape or max(np.abs(ax_ - wx_).max(), np.abs(ay_ - wy_).max()) > 1e-12 * (scale * 4 + 7.5):
            r.fail("apply_affine:values", what.replace("decompose_rws", "apply_affine") + " on a 3x5 grid differs from A*(x,y)")
        if not (np.array_equal(gx, kx) and np.array_equal(gy, ky)):
            r.fail("apply_affine:input-modified", what.replace("decompose_rws", "apply_affine"))
    else:
        Ain = A.copy()
        Rm_, Wm_, Sm_ = M.decompose_rws(Ain)
        if not np.array_equal(Ain, A):
            r.fail("decompose_rws:input-modified", what + ": the caller's matrix was changed in place")
        if kind == "m" and all(float(v).is_integer() for v in (a, b, c, d)):
            # same values as an integer matrix
            for u, v in zip((Rm_, Wm_, Sm_), M.decompose_rws(A.astype("int64"))):
                if not np.allclose(u, v, rtol=0, atol=tol):
                    r.fail("decompose_rws:encoding:int64", what + ": int64 matrix gives different factors")
                    break
    if np.abs(Rm_ @ Wm_ @ Sm_ - A).max() > tol:
        r.fail(f"decompose_rws:product:{cls}", what + f": R@W@S differs from A by {np.abs(Rm_ @ Wm_ @ Sm_ - A).max()!r}")
    if np.abs(Rm_.T @ Rm_ - np.eye(2)).max() > RWS_TOL or abs(np.linalg.det(Rm_) - 1) > RWS_TOL:
        r.fail(f"decompose_rws:R-not-proper-rotation:{cls}", what + f": R={Rm_.tolist()!r}")
    if abs(Wm_[0, 0] - 1) > RWS_TOL or abs(Wm_[1, 1] - 1) > RWS_TOL or abs(Wm_[1, 0]) > RWS_TOL:
        r.fail(f"decompose_rws:W-not-unit-upper:{cls}", what + f": W={Wm_.tolist()!r}")
    if abs(Sm_[0, 1]) > tol or abs(Sm_[1, 0]) > tol:
        r.fail(f"decompose_rws:S-not-diagonal:{cls}", what + f": S={Sm_.tolist()!r}")
    # first principles: |sx| is the length of the first column, sx*sy the determinant
    n0 = math.hypot(a, c)
    if abs(abs(Sm_[0, 0]) - n0) > RWS_TOL * n0 or abs(Sm_[0, 0] * Sm_[1, 1] - det) > RWS_TOL * max(abs(det), scale * scale * 1e-3):
        r.fail(f"decompose_rws:S-values:{cls}", what + f": S={Sm_.tolist()!r}, |col0|={n0!r}, det={det!r}")
    # resolution_from_affine
    res = M.resolution_from_affine(Affine(a, b, 3.0, c, d, 4.0))
    if st_boundary:
        pass  # either path
    elif st:
        if (res.x, res.y) != (a, d):
            r.fail("resolution_from_affine:axis-aligned", f"resolution_from_affine([[{a},{b}],[{c},{d}]]) -> {res}")
    else:
        if abs(abs(res.x) - n0) > RWS_TOL * n0 or abs(res.x * res.y - det) > RWS_TOL * max(abs(det), scale * scale * 1e-3):
            r.fail(f"resolution_from_affine:rotated:det-{sgn(det)}", f"resolution_from_affine([[{a},{b}],[{c},{d}]]) -> {res}")
    return r


# ---------------------------------------------------------------------------------------------
# slice affine-pts: affine_from_pts on exactly representable maps over integer points
# ---------------------------------------------------------------------------------------------
GRID3 = tuple((x, y) for x in range(3) for y in range(3))
AF_MAPS = (
    (1.0, 0.0, 0.0, 0.0, 1.0, 0.0),
    (2.0, 0.5, -7.0, 0.25, -3.0, 100.0),
    (0.0, -1.0, 5.0, 1.0, 0.0, 5.0),
    (30.0, 0.0, 5e5, 0.0, -30.0, 6e6),
    (-0.5, 0.0, 0.25, 0.0, 0.125, -1024.0),
    (1.0, 1.0, 0.0, 0.0, 1.0, 0.0),
    (3.0, -4.0, 1.0, 4.0, 3.0, -1.0),
)
AF_FRAMES = (((0, 0), 1), ((100, -50), 1), ((1000, -2000), 10), ((500000, 6000000), 30), ((-3, 7), 4))


def _collinear(P):
    (x0, y0) = P[0]
    return all((x1 - x0) * (y2 - y0) - (x2 - x0) * (y1 - y0) == 0 for (x1, y1), (x2, y2) in itertools.combinations(P[1:], 2))


def _subsets():
    out = []
    for k in (3, 4, 9):
        for sub in itertools.combinations(range(9), k):
            if not _collinear([GRID3[i] for i in sub]):
                out.append(sub)
    return tuple(out)


AF_SUBSETS = _subsets()


def gen_afp():
    for fi in range(len(AF_FRAMES)):
        for mi in range(len(AF_MAPS)):
            for si in range(len(AF_SUBSETS)):
                yield (fi, mi, si)


def run_afp(case):
    fi, mi, si = case
    (ox, oy), sc = AF_FRAMES[fi]
    A = Affine(*AF_MAPS[mi])
    P = [(float(ox + sc * GRID3[i][0]), float(oy + sc * GRID3[i][1])) for i in AF_SUBSETS[si]]
    Yx = [(Fr(A.a) * Fr(x) + Fr(A.b) * Fr(y) + Fr(A.c), Fr(A.d) * Fr(x) + Fr(A.e) * Fr(y) + Fr(A.f)) for x, y in P]
    Y = [(float(u), float(v)) for u, v in Yx]
    assert all(Fr(u) == U and Fr(v) == V for (u, v), (U, V) in zip(Y, Yx)), case  # exactly representable
    B = M.affine_from_pts([xy_(*p) for p in P], [xy_(*q) for q in Y])
    r = R(outcome=f"n{len(P)}:frame{fi}")
    # stack_xy / unstack_xy round trip and the norm_xy contract (mean 0, mean distance sqrt(2), affine maps input to output)
    arr = M.stack_xy([xy_(*p) for p in P])
    if arr.shape != (len(P), 2) or arr.tolist() != [list(p) for p in P] or [q.xy for q in M.unstack_xy(arr)] != P:
        r.fail("stack_xy:round-trip", f"stack_xy/unstack_xy of {P!r} -> {arr.tolist()!r}")
    if mi == 0:
        src_ = arr.copy()
        nn, NA = M.norm_xy(src_)
        buf = np.zeros_like(arr)
        nn2, NA2 = M.norm_xy(src_, out=buf)
        if not np.array_equal(src_, arr):
            r.fail("norm_xy:input-modified", f"norm_xy({P!r}) changed its input in place")
        if nn2 is not buf or not np.array_equal(nn2, nn) or tuple(NA2) != tuple(NA):
            r.fail("norm_xy:out-param", f"norm_xy({P!r}, out=buf) does not return the same result in buf")
        dist = float(np.sqrt((nn**2).sum(axis=1)).mean())
        if np.abs(nn.mean(axis=0)).max() > 1e-9 or abs(dist - math.sqrt(2)) > 1e-9:
            r.fail(f"norm_xy:not-normalised:n{len(P)}", f"norm_xy({P!r}): mean {nn.mean(axis=0).tolist()!r}, mean distance {dist!r}")
        if max(max(abs(u - v) for u, v in zip(NA * p, row)) for p, row in zip(P, nn.tolist())) > 1e-9:
            r.fail(f"norm_xy:affine-differs:n{len(P)}", f"norm_xy({P!r}): returned affine {tuple(NA)[:6]!r} does not map input to output")
    px = max(abs(A.a), abs(A.b), abs(A.d), abs(A.e)) * sc
    cx = sum(p[0] for p in P) / len(P)
    cy = sum(p[1] for p in P) / len(P)
    for x, y in P + [(cx, cy)]:
        gx, gy = B * (x, y)
        wx = float(Fr(A.a) * Fr(x) + Fr(A.b) * Fr(y) + Fr(A.c))
        wy = float(Fr(A.d) * Fr(x) + Fr(A.e) * Fr(y) + Fr(A.f))
        # least squares on raw coordinates: error ~ eps * value (observed <= 2e-14 relative); 1e-11 of the value + 1e-9 pixel
        if abs(gx - wx) > 1e-11 * abs(wx) + 1e-9 * px or abs(gy - wy) > 1e-11 * abs(wy) + 1e-9 * px:
            r.fail(f"affine_from_pts:n{len(P)}:frame{fi}",
                   f"affine_from_pts(X={P!r}, Y=A*X, A={AF_MAPS[mi]!r}) -> {tuple(B)[:6]!r}: at {(x, y)!r} got {(gx, gy)!r} want {(wx, wy)!r}")
            break
    if all(float(v).is_integer() for q in Y for v in q):
        Bi = M.affine_from_pts([xy_(int(p[0]), int(p[1])) for p in P], [xy_(int(q[0]), int(q[1])) for q in Y])
        if tuple(Bi) != tuple(B):
            r.fail("affine_from_pts:encoding:int", f"X={P!r} as ints -> {tuple(Bi)[:6]!r}, as floats -> {tuple(B)[:6]!r}")
    lin = max(abs(u - v) for u, v in zip((B.a, B.b, B.d, B.e), (A.a, A.b, A.d, A.e)))
    if lin > 1e-9 * (px / sc) * max(1.0, max(abs(ox), abs(oy)) / sc) and not r.fails:
        r.fail(f"affine_from_pts:linear-part:n{len(P)}:frame{fi}", f"X={P!r} A={AF_MAPS[mi]!r} -> {tuple(B)[:6]!r}")
    return r


# ---------------------------------------------------------------------------------------------
# slice poly2d: Poly2d.fit (_fit3/_fit4/_fit9), evaluation forms, grid2d, with_input_transform
# ---------------------------------------------------------------------------------------------
# target maps as coefficient tables c[i][j] of u**i * v**j in grid coordinates (u, v), per output axis
def _tab(**kw):
    t = [[0.0] * 3 for _ in range(3)]
    for k, v in kw.items():
        t[int(k[1])][int(k[2])] = v
    return tuple(tuple(row) for row in t)


P2_MAPS = (
    # (degree class, X table, Y table)
    ("affine", _tab(c10=1.0), _tab(c01=1.0)),
    ("affine", _tab(c00=-7.0, c10=2.0, c01=0.5), _tab(c00=100.0, c10=0.25, c01=-3.0)),
    ("affine", _tab(c00=5.0, c01=-1.0), _tab(c00=5.0, c10=1.0)),
    ("affine", _tab(c00=5e5, c10=30.0), _tab(c00=6e6, c01=-30.0)),
    ("affine", _tab(c00=3.0), _tab(c00=-4.0)),  # constant map: all outputs coincide with their mean
    ("bilinear", _tab(c10=1.0, c11=0.5), _tab(c00=3.0, c01=1.0, c11=-0.25)),
    ("bilinear", _tab(c00=5e5, c10=30.0, c11=0.125), _tab(c00=6e6, c01=-30.0, c11=2.0)),
    ("bilinear", _tab(c11=1.0), _tab(c10=1.0, c01=1.0)),
    ("biquadratic", _tab(c10=1.0, c20=0.125, c11=-0.5, c22=0.25), _tab(c01=1.0, c02=-0.25, c21=0.5, c12=1.0)),
    ("biquadratic", _tab(c00=5e5, c10=30.0, c20=0.5, c02=-0.5), _tab(c00=6e6, c01=-30.0, c22=0.0625, c11=1.0)),
    ("biquadratic", _tab(c22=1.0), _tab(c20=1.0, c02=1.0)),
)
P2_FRAMES = (((0.0, 0.0), 1.0), ((100.0, -50.0), 1.0), ((1000.0, -2000.0), 10.0), ((-3.0, 7.0), 4.0),
             ((0.5, 0.5), 0.25), ((500000.0, 6000000.0), 32.0))
P2_GRIDS4 = ((2, 2), (2, 3), (3, 2), (2, 4), (4, 2))
P2_GRIDS9 = ((3, 3), (3, 4), (4, 3), (4, 4), (5, 5), (3, 5), (7, 7))
P2_TRIPLES = tuple(s for s in AF_SUBSETS if len(s) == 3)
_SHX, _ST, _R133, _TR = Affine(1.0, 0.5, 0.0, 0.0, 1.0, 0.0), Affine(2.0, 0.0, -3.0, 0.0, 0.5, 1.0), Affine.rotation(-133), Affine.translation(3.0, -2.0)
P2_XFORMS = (
    ("scale-translate", tuple(_ST)[:6]),
    ("translate", tuple(_TR)[:6]),
    ("mirror-x", (-1.0, 0.0, 2.0, 0.0, 1.0, 0.0)),
    ("rot180", (-1.0, 0.0, 2.0, 0.0, -1.0, 2.0)),
    ("rot90", (0.0, -1.0, 2.0, 1.0, 0.0, -1.0)),
    ("shear-x", tuple(_SHX)[:6]),
    ("shear-y", (1.0, 0.0, 0.0, -0.25, 1.0, 2.0)),
    ("rot-133", tuple(_R133)[:6]),
    # compositions, both orders
    ("shear-x*scale-translate", tuple(_SHX * _ST)[:6]),
    ("scale-translate*shear-x", tuple(_ST * _SHX)[:6]),
    ("rot-133*translate", tuple(_R133 * _TR)[:6]),
    ("translate*rot-133", tuple(_TR * _R133)[:6]),
)
P2_VARIANTS = ("fortran", "strided", "int", "readonly", "dup")


def gen_p2(tier):
    triples = range(len(P2_TRIPLES)) if tier == "thorough" else range(0, len(P2_TRIPLES), 4)

    def gen():
        for fi in range(len(P2_FRAMES)):
            for mi, (deg, _, _) in enumerate(P2_MAPS):
                if deg == "affine":
                    for ti in triples:
                        yield ("fit3", fi, mi, ti, "plain")
                        yield ("fit3", fi, mi, ti, "readonly")
                if deg in ("affine", "bilinear"):
                    for gi in range(len(P2_GRIDS4)):
                        for var in ("plain",) + P2_VARIANTS:
                            yield ("fit4", fi, mi, gi, var)
                for gi in range(len(P2_GRIDS9)):
                    for var in ("plain",) + P2_VARIANTS:
                        yield ("fit9", fi, mi, gi, var)
        for n in (0, 1, 2):
            yield ("too-few", n, 0, 0, "plain")

    return gen


def _p2_eval(tabs, u, v):
    """exact value of the target at grid coordinates (u, v) given as Fractions"""
    out = []
    for t in tabs:
        out.append(sum(Fr(t[i][j]) * u**i * v**j for i in range(3) for j in range(3) if t[i][j] != 0))
    return out


def _p2_grad(tabs, u, v):
    """bound of |d target / d(u,v)| per output axis (floats): how far an input rounding error is amplified"""
    u, v = abs(float(u)), abs(float(v))
    out = []
    for t in tabs:
        g = 0.0
        for i in range(3):
            for j in range(3):
                c = abs(t[i][j])
                if c and (i or j):
                    g += c * ((i * u ** (i - 1) * v**j if i else 0.0) + (j * u**i * v ** (j - 1) if j else 0.0))
        out.append(g)
    return out


def run_p2(case):
    import pickle  # pylint: disable=import-outside-toplevel

    kind, fi, mi, gi, var = case
    if kind == "too-few":
        r = R(outcome="too-few", nontrivial=False)
        pts = np.array([[0.0, 0.0], [1.0, 2.0]])[:fi]
        try:
            M.Poly2d.fit(pts, pts)
            r.fail("Poly2d.fit:too-few-points-accepted", f"Poly2d.fit with {fi} points did not raise ValueError")
        except ValueError:
            pass
        return r
    (ox, oy), sc = P2_FRAMES[fi]
    deg, tx, ty = P2_MAPS[mi]
    tabs = (tx, ty)
    if kind == "fit3":
        uv = [GRID3[i] for i in P2_TRIPLES[gi]]
        gname = "triple"
    else:
        nu, nv = (P2_GRIDS4 if kind == "fit4" else P2_GRIDS9)[gi]
        uv = [(i, j) for i in range(nu) for j in range(nv)]
        gname = f"{nu}x{nv}"
    if var == "dup":
        uv = uv + [uv[0], uv[-1]]  # repeated control points
    S = sum(abs(c) for t in tabs for row in t for c in row if abs(c) < 1e4) + 1.0  # output units per grid step
    in_ulp = 64 * math.ulp(max(abs(ox), abs(oy), 1.0) + sc * 8) / sc  # input rounding, in grid steps

    def want_at(x, y):
        u = (Fr(x) - Fr(ox)) / Fr(sc)
        v = (Fr(y) - Fr(oy)) / Fr(sc)
        return [float(w) for w in _p2_eval(tabs, u, v)], _p2_grad(tabs, u, v)

    aa = np.array([[ox + sc * u, oy + sc * v] for u, v in uv], dtype="float64")
    bbx = [_p2_eval(tabs, Fr(u), Fr(v)) for u, v in uv]
    bb = np.array([[float(a), float(b)] for a, b in bbx], dtype="float64")
    assert all(Fr(float(a)) == a and Fr(float(b)) == b for a, b in bbx), case  # exactly representable
    cls = f"{kind}:{deg}:{gname}"
    r = R(outcome=f"{kind}:{deg}:{var}")
    what = f"Poly2d.fit({gname} grid at origin {(ox, oy)!r} step {sc!r}, map #{mi} {deg}, arrays {var})"

    def cmp(got, x, y, key, how):
        # slack: 1e-12 of the value (a handful of roundings at its magnitude) + 1e-9 grid step of output
        # + the input-coordinate rounding (ulps of the frame origin) amplified by the target's gradient
        w, gr = want_at(x, y)
        for g, ww, gg in zip(got, w, gr):
            if not abs(float(g) - ww) <= 1e-12 * abs(ww) + 1e-9 * S + gg * in_ulp:
                r.fail(key, what + f": {how} at {(float(x), float(y))!r} gives {[float(t) for t in got]!r}, want {w!r}")
                return False
        return True

    # the caller's arrays in the requested layout
    if var == "fortran":
        a_in, b_in = np.asfortranarray(aa), np.asfortranarray(bb)
    elif var == "strided":
        big = np.full((aa.shape[0] * 2, 5), 1e30)
        big[::2, 1:3] = aa
        a_in = big[::2, 1:3]
        b_in = bb[::-1][::-1]
    elif var == "int":
        a_in, b_in = aa.astype("int64"), bb
        if not np.array_equal(a_in.astype("float64"), aa):
            return R(outcome="enc-n/a:int", nontrivial=False)
    elif var == "readonly":
        a_in, b_in = aa.copy(), bb.copy()
        a_in.setflags(write=False)
        b_in.setflags(write=False)
    else:
        a_in, b_in = aa.copy(), bb.copy()
    try:
        p = M.Poly2d.fit(a_in, b_in)
    except ValueError as e:
        if "read-only" in str(e):
            return r.fail("Poly2d.fit:writes-into-input", what + f": {e}")
        raise
    if not (np.array_equal(np.asarray(a_in, dtype="float64"), aa) and np.array_equal(b_in, bb)):
        r.fail("Poly2d.fit:input-modified", what + ": the caller's control point arrays were changed in place")
    ev_in = aa.copy()
    got = p(ev_in)
    g0 = got.copy()
    got2 = p(ev_in[:, 0], ev_in[:, 1])
    if not np.array_equal(ev_in, aa):
        return r.fail("Poly2d.call:input-modified", what + ": evaluating the polynomial changed the coordinate array passed in")
    if got.shape != aa.shape or got2.shape != (2, aa.shape[0]):
        return r.fail("Poly2d.call:shape", what + f": shapes {got.shape}, {got2.shape}")
    for k in range(aa.shape[0]):
        if not cmp(got[k], aa[k, 0], aa[k, 1], f"Poly2d.fit:at-fit-points:{cls}", "p(pts)"):
            break
        if not cmp(got2[:, k], aa[k, 0], aa[k, 1], f"Poly2d.call:xy-form:{cls}", "p(x, y)"):
            break
    if var != "plain":
        return r  # other layouts: fit, input preservation and reproduction only
    # other points inside and just outside the grid (basis is in general position on the grid)
    mu = max(u for u, _ in uv)
    mv = max(v for _, v in uv)
    extra = [(0.5, 0.5), (mu - 0.5, 0.25), (0.25, mv - 0.5), (-0.5, 0.0), (mu + 0.5, mv + 0.5), (mu / 2, mv / 2)]
    for u, v in extra:
        x, y = ox + sc * u, oy + sc * v
        if not cmp(p(np.array([[x, y]]))[0], x, y, f"Poly2d.fit:off-grid-points:{cls}", "p(pt)"):
            break
    # grid2d on the Cartesian product
    xs = np.array([ox, ox + sc * 0.5, ox + sc * mu])
    ys = np.array([oy + sc * 0.25, oy + sc * mv])
    g = p.grid2d(xs, ys)
    if g.shape != (2, 3, 2):
        r.fail("Poly2d.grid2d:shape", what + f": grid2d shape {g.shape}")
    else:
        for i, j in itertools.product(range(3), range(2)):
            if not cmp(g[:, i, j], xs[i], ys[j], f"Poly2d.grid2d:{kind}", "grid2d"):
                break
    # chaining a linear map on the input side: p2(q) == p(T*q); directly and in two steps
    F = Affine.translation(ox, oy) * Affine.scale(sc)
    for name, t6 in P2_XFORMS:
        T = Affine(*t6)
        Tf = F * T  # maps "cropped" coordinates q to the frame of the fit
        aligned = T.b == 0 and T.d == 0
        for chain, p2 in (("", p.with_input_transform(Tf)), (":two-steps", p.with_input_transform(F).with_input_transform(T))):
            ok = True
            qs = [(~T) * uv_ for uv_ in ((0.0, 0.0), (1.0, 0.5), (mu - 0.5, mv), (0.25, 1.0))]  # any floats will do
            for q in qs:
                fx = Fr(Tf.a) * Fr(q[0]) + Fr(Tf.b) * Fr(q[1]) + Fr(Tf.c)
                fy = Fr(Tf.d) * Fr(q[0]) + Fr(Tf.e) * Fr(q[1]) + Fr(Tf.f)
                key = f"Poly2d.with_input_transform:{name}{chain}:{kind}"
                ok = cmp(p2(np.array([[q[0], q[1]]]))[0], fx, fy, key, f"p.with_input_transform({t6!r})({q!r})")
                ok = ok and cmp(p2(q[0], q[1]), fx, fy, key + ":xy-form", f"p.with_input_transform({t6!r})(x,y)")
                if not ok:
                    break
            # grid2d is only defined for axis-aligned chains: it must refuse (raise) anything else, never answer wrongly
            # (equally long axes: a sheared chain must not be answered point-wise by accident of broadcasting)
            gx, gy = np.array([q[0] for q in qs[:3]]), np.array([q[1] for q in qs[1:4]])
            try:
                gg = p2.grid2d(gx, gy)
            except Exception:  # pylint: disable=broad-except
                gg = None
                if aligned:
                    r.fail(f"Poly2d.grid2d:refused-axis-aligned:{name}{chain}", what + f": grid2d raised for input transform {t6!r}")
            if gg is not None and gg.shape != (2, 3, 3):
                r.fail(f"Poly2d.grid2d:shape:{name}{chain}", what + f": grid2d shape {gg.shape}")
            elif gg is not None and ok:
                for i, j in itertools.product(range(3), range(3)):
                    fx = Fr(Tf.a) * Fr(gx[i]) + Fr(Tf.b) * Fr(gy[j]) + Fr(Tf.c)
                    fy = Fr(Tf.d) * Fr(gx[i]) + Fr(Tf.e) * Fr(gy[j]) + Fr(Tf.f)
                    key = f"Poly2d.grid2d:{'axis-aligned-chain' if aligned else 'not-axis-aligned-accepted'}:{name}{chain}"
                    if not cmp(gg[:, i, j], fx, fy, key, f"with_input_transform({t6!r}).grid2d"):
                        break
    # state: the parent is untouched by derived objects / evaluations, survives pickling, refit gives the same answer
    if not np.array_equal(p(aa), g0):
        r.fail("Poly2d:parent-changed-by-derived", what + ": p(pts) differs after with_input_transform/grid2d calls")
    try:
        pp = pickle.loads(pickle.dumps(p))
        p2p = pickle.loads(pickle.dumps(p.with_input_transform(Affine(*P2_XFORMS[5][1]))))
    except Exception as e:  # pylint: disable=broad-except
        r.fail("Poly2d:not-picklable", what + f": {type(e).__name__}: {e}")
    else:
        if not np.array_equal(pp(aa), g0) or not np.array_equal(p2p(aa), p.with_input_transform(Affine(*P2_XFORMS[5][1]))(aa)):
            r.fail("Poly2d:pickle-differs", what + ": unpickled clone evaluates differently")
    if not np.array_equal(M.Poly2d.fit(aa.copy(), bb.copy())(aa), g0):
        r.fail("Poly2d.fit:second-fit-differs", what)
    return r


# ---------------------------------------------------------------------------------------------
# slice axis: affine_from_axis / data_resolution_and_offset
# ---------------------------------------------------------------------------------------------
AX_N = (1, 2, 3, 5, 16)
AX_RES = (1.0, -1.0, 0.25, 10.0, -30.0, 0.1, -1 / 3)
AX_X0 = (0.0, -7.5, 5e5, 6e6 + 0.3)
AX_DY = {0.1, -1 / 3, 6e6 + 0.3}  # members of the R alphabet; everything else is dyadic
# fallback forms: not given / scalar r (x: +r, y: -r) / per-axis equal to the measured spacing / per-axis DIFFERENT
# from the measured spacing with flipped sign / explicit zero
AX_MODES = ("none", "scalar", "xy", "xy-other", "zero")
AX_ENCS = ("f32", "i64", "xarray", "strided", "readonly", "2000", "noise+", "noise-")
AX_ONE = tuple((n, res, x0) for n in AX_N for res in AX_RES for x0 in AX_X0)
AX_FEW = ((1, 10.0, 5e5), (16, -30.0, 5e5), (2000, 0.25, -7.5), (3, 0.1, 6e6 + 0.3), (2, 1.0, 0.0))


def gen_axis():
    for ax in AX_ONE:
        for ay in AX_ONE:
            for mode in AX_MODES:
                if mode != "none" and ax[0] > 1 and ay[0] > 1 and (ax[0], ay[0]) not in ((2, 3), (16, 2)):
                    continue  # fallback must be ignored for n >= 2; two representatives
                yield (ax, ay, mode, "f64")
    # other encodings of the same labels; a single-label axis next to a long one
    for ax in AX_ONE:
        for ay in AX_FEW:
            for mode in ("none", "xy-other"):
                for enc in AX_ENCS:
                    yield (ax, ay, mode, enc)
                    yield (ay, ax, mode, enc)
    yield ((0, 1.0, 0.0), (3, 1.0, 0.0), "none", "f64")
    yield ((3, 1.0, 0.0), (0, 1.0, 0.0), "xy", "f64")


def _labels(n, res, x0):
    return np.array([x0 + (i + 0.5) * res for i in range(n)], dtype="float64")


def _ax_encode(lab, enc, which):
    """same labels in another container / dtype; None when the encoding cannot hold these values"""
    if enc == "f64":
        return lab
    if enc == "f32":
        out = lab.astype("float32")
        return out if np.array_equal(out.astype("float64"), lab) else None
    if enc == "i64":
        out = lab.astype("int64")
        return out if np.array_equal(out.astype("float64"), lab) else None
    if enc == "xarray":
        import xarray as xr  # pylint: disable=import-outside-toplevel

        return xr.DataArray(lab, dims=(which,))
    if enc == "strided":
        big = np.full(lab.size * 2 + 1, 1e30)
        big[1::2] = lab
        return big[1::2]
    if enc == "readonly":
        out = lab.copy()
        out.setflags(write=False)
        return out
    if enc == "2000":
        return lab
    if enc in ("noise+", "noise-"):
        # +-1 ulp on every other label (incl. the last one): still "regularly spaced" to within rounding
        out = lab.copy()
        for i in range(1, out.size, 2):
            out[i] = math.nextafter(out[i], math.inf if enc == "noise+" else -math.inf)
        if out.size > 1:
            out[-1] = math.nextafter(out[-1], math.inf if enc == "noise+" else -math.inf)
        return out
    raise ValueError(enc)


def run_axis(case):
    (nx, rx, x0), (ny, ry, y0), mode, enc = case
    xx0, yy0 = _labels(nx, rx, x0), _labels(ny, ry, y0)
    xx, yy = _ax_encode(xx0, enc, "x"), _ax_encode(yy0, enc, "y")
    if xx is None or yy is None:
        return R(outcome=f"enc-n/a:{enc}", nontrivial=False)
    noisy = enc.startswith("noise")
    if noisy:
        xx0, yy0 = xx, yy
    if mode == "none":
        fb, fbx, fby = None, None, None
    elif mode == "scalar":
        fb, fbx, fby = abs(rx), abs(rx), -abs(rx)
    elif mode == "xy":
        fb, fbx, fby = resxy_(rx, ry), rx, ry
    elif mode == "xy-other":
        fb, fbx, fby = resxy_(-2 * rx, 3 * ry), -2 * rx, 3 * ry
    else:
        fb, fbx, fby = 0.0, 0.0, 0.0
    must_raise = nx == 0 or ny == 0 or (mode == "none" and (nx == 1 or ny == 1))
    keep = (np.array(xx0, copy=True), np.array(yy0, copy=True))
    if must_raise:
        r = R(outcome="raises", nontrivial=False)
        try:
            A = M.affine_from_axis(xx, yy, fb)
            r.fail("affine_from_axis:no-error:" + ("empty" if 0 in (nx, ny) else "single-no-fallback"),
                   f"affine_from_axis(n={nx},{ny}, fallback={fb}) -> {tuple(A)[:6]!r} instead of ValueError")
        except ValueError:
            pass
        return r
    what = f"affine_from_axis(x: n={nx} res={rx!r} x0={x0!r}; y: n={ny} res={ry!r} y0={y0!r}; labels as {enc}; fallback={fb})"
    try:
        A = M.affine_from_axis(xx, yy, fb)
    except ValueError as e:
        r = R(outcome="raised:ValueError")
        return r.fail(f"affine_from_axis:fallback-rejected:{mode}", what + f" raises ValueError: {e}")
    what += f" -> {tuple(A)[:6]!r}"
    exact = not ({rx, x0, ry, y0} & AX_DY) and not noisy
    r = R(outcome=f"{'D' if exact else 'R'}:{'single' if 1 in (nx, ny) else 'multi'}:{mode}:{enc}:{sgn(rx)}{sgn(ry)}")
    if not (np.array_equal(np.asarray(xx), keep[0]) and np.array_equal(np.asarray(yy), keep[1])):
        r.fail("affine_from_axis:input-modified", what)
    if A.b != 0 or A.d != 0:
        r.fail("affine_from_axis:not-axis-aligned", what)
    # pixel size: measured from the labels for n >= 2 (whatever the fallback says), the fallback for n == 1
    want_rx = rx if nx > 1 else fbx
    want_ry = ry if ny > 1 else fby
    if not exact:  # the spacing of the binary64 labels themselves: (last - first) / (n - 1) in rationals
        if nx > 1:
            want_rx = float((Fr(float(xx0[-1])) - Fr(float(xx0[0]))) / (nx - 1))
        if ny > 1:
            want_ry = float((Fr(float(yy0[-1])) - Fr(float(yy0[0]))) / (ny - 1))
    for name, got, want, n_ in (("x", A.a, want_rx, nx), ("y", A.e, want_ry, ny)):
        if (got != want) if exact else (abs(got - want) > 1e-9 * abs(want)):
            r.fail(f"affine_from_axis:resolution:{name}:{'single' if n_ == 1 else 'multi'}:{mode if n_ == 1 or mode == 'none' else 'fallback-given'}",
                   what + f": {name} pixel size {got!r}, want {want!r}")
    # labels are pixel centres; slack on R: ulps of the label (labels are rounded individually) + 1e-9 pixel
    for name, lab, idx in (("x", xx0, 0), ("y", yy0, 1)):
        lab = lab.tolist()
        px = abs(A.a if idx == 0 else A.e)
        step = max(1, len(lab) // 16)
        for i in list(range(0, len(lab), step)) + [len(lab) - 1]:
            v = lab[i]
            g = (A * (i + 0.5, i + 0.5))[idx]
            slack = (16 if noisy else 8) * math.ulp(max(abs(v), abs(lab[0]), abs(lab[-1]))) + 1e-9 * px
            if (g != v) if exact else (abs(g - v) > slack):
                r.fail(f"affine_from_axis:labels:{name}:{'D' if exact else 'R'}", what + f": centre of pixel {i} is {g!r}, label {v!r}")
                break
    # the 1-d helper is the same computation per axis (differential), also through keyword / positional fallback
    for name, lab, n_, fbv, got in (("x", xx, nx, fbx, (A.a, A.c)), ("y", yy, ny, fby, (A.e, A.f))):
        one = M.data_resolution_and_offset(lab, fbv) if fbv is not None else M.data_resolution_and_offset(lab)
        if tuple(one) != got:
            r.fail(f"data_resolution_and_offset:differs:{name}", what + f" vs data_resolution_and_offset -> {tuple(one)!r}")
    # same request again and on the plain float64 labels: identical answer
    if tuple(M.affine_from_axis(xx, yy, fb))[:6] != tuple(A)[:6]:
        r.fail("affine_from_axis:second-call-differs", what)
    if enc not in ("f64", "noise+", "noise-") and tuple(M.affine_from_axis(xx0, yy0, fb))[:6] != tuple(A)[:6]:
        r.fail(f"affine_from_axis:encoding:{enc}", what + f" but float64 labels give {tuple(M.affine_from_axis(xx0, yy0, fb))[:6]!r}")
    return r


# ---------------------------------------------------------------------------------------------
# slices bin1d-D / bin1d-R
# ---------------------------------------------------------------------------------------------
B_IDX = tuple(range(-5, 6))
BD_SZ = (1.0, 0.25, 10.0, 13.5, 2.0**-10, 3.0, 2.0**20)
BD_ORG = (0.0, 20.0, -7.5, 2.0**20 + 0.5, -1000.25, 2.0**50, -(2.0**50) + 0.25, 0.375)
BD_E = 2.0**-20
BD_F = (0.0, BD_E, 0.25, 0.5, 0.75, 1 - BD_E, "edge+ulp", "edge-ulp")
BR_SZ = (0.1, 1 / 3, 13.3, 30.0, 0.5, 4.5e-6, 1e5)
BR_ORG = (0.0, 0.3, 23.5, -1e6 + 0.4, 5e5, 6e6 + 0.3, -0.7, 1e15)
BR_F = (1e-9, 1e-6, 1e-3, 0.25, 0.5, 0.75, 0.999, 1 - 1e-6, 1 - 1e-9)
B_ENCS = ("float", "np", "int")
# integer sizes (every intermediate of the documented floor((x - origin) / sz) is exact, so edges are judged exactly):
# all sizes 1..128, sizes whose reciprocal is inexact in both directions, and large ones; more bins per size
BI_SZ = tuple(float(n) for n in range(1, 129)) + (1000.0, 1e5, 3.0 * 2**20 + 1, 7.0e9 + 3)
BI_ORG = (0.0, 20.0, -7.0, 1000003.0)
BI_IDX = tuple(range(-5, 6)) + (17, -17, 100, -100, 1001, -1001)
BI_F = (0.0, 0.5, 1 - BD_E, "edge+ulp", "edge-ulp")


def gen_bin(szs, orgs, fs, idxs=B_IDX):
    def gen():
        for sz in szs:
            for org in orgs:
                for d in (1, -1):
                    for idx in idxs:
                        for f in fs:
                            yield (sz, org, d, idx, f)
    return gen


def run_bin_d(case):
    sz, org, d, idx, f = case
    b = M.Bin1D(sz, org, d)
    LO = Fr(org) + idx * d * Fr(sz)
    lo, hi = float(LO), float(LO + Fr(sz))
    if Fr(lo) != LO or Fr(hi) != LO + Fr(sz):
        return R(outcome="D:not-representable", nontrivial=False)
    dname = "fwd" if d > 0 else "rev"
    what = f"Bin1D({sz!r},{org!r},{d})"
    if isinstance(f, str):
        # one ulp either side of a shared edge: x - origin may round onto the edge, so either adjacent bin is right
        x = math.nextafter(lo, math.inf if f == "edge+ulp" else -math.inf)
        r = R(outcome=f"D:{dname}:{f}")
        k = b.bin(x)
        q = (Fr(x) - Fr(org)) / Fr(sz)
        j = math.floor(q)  # exact: x lies in [j, j+1) bin widths from the origin, i.e. in bin d*j
        near = 4 * Fr(math.ulp(max(abs(x), abs(org))))
        ok = isinstance(k, int) and (d * k == j or (d * k == j - 1 and (q - j) * Fr(sz) <= near)
                                     or (d * k == j + 1 and (j + 1 - q) * Fr(sz) <= near))
        if not ok:
            r.fail(f"Bin1D.bin:edge-ulp:{dname}", what + f".bin({x!r}) -> {k!r}, x is one ulp from the left edge of bin {idx}; exact bin {d * j}")
        return r
    X = LO + Fr(f) * Fr(sz)
    x = float(X)
    if Fr(x) != X:
        return R(outcome="D:not-representable", nontrivial=False)
    r = R(outcome=f"D:{dname}:{'edge' if f == 0 else 'inside'}")
    if tuple(b[idx]) != (lo, hi):
        r.fail(f"Bin1D.getitem:{dname}", what + f"[{idx}] -> {b[idx]!r}, want {(lo, hi)!r}")
    k = b.bin(x)
    if not isinstance(k, int):
        r.fail("Bin1D.bin:type", what + f".bin({x!r}) -> {k!r}")
    elif f != 0:
        if k != idx:
            r.fail(f"Bin1D.bin:inside:{dname}", what + f".bin({x!r}) -> {k}, but x is strictly inside bin {idx} = {(lo, hi)!r}")
    else:
        # bins are half-open: `origin` is documented as "the left edge of bin 0", every point belongs to exactly one
        # bin ("the bin whose interval contains it") and GridSpec relies on tiles not overlapping, so the left edge of
        # bin idx belongs to bin idx. Every intermediate is exact here, so this is not a rounding question.
        if k != idx:
            r.fail(f"Bin1D.bin:edge:{dname}", what + f".bin({x!r}) -> {k}, x is exactly the left edge of bin {idx} = {(lo, hi)!r}")
        r.outcome += ":own"
    b2 = M.Bin1D.from_sample_bin(idx, (lo, hi), d)
    if not (b2 == b) or (b2.sz, b2.origin, b2.direction) != (sz, org, d):
        r.fail(f"Bin1D.from_sample_bin:{dname}", f"from_sample_bin({idx},{(lo, hi)!r},{d}) -> ({b2.sz!r},{b2.origin!r},{b2.direction}) != {what}")
    if b == M.Bin1D(sz, org, -d) or b == M.Bin1D(sz * 2, org, d) or b == M.Bin1D(sz, org + sz, d) or b == (sz, org, d):
        r.fail("Bin1D.eq:too-weak", what + " equals a different binning")
    # same values in other encodings (numpy scalars, Python ints where integral) and asked twice
    for enc in ("np", "int"):
        if enc == "int" and not (float(sz).is_integer() and float(org).is_integer() and x.is_integer()):
            continue
        cv = (lambda v: np.float64(v)) if enc == "np" else int
        be = M.Bin1D(cv(sz), cv(org), d)
        ke = be.bin(cv(x))
        ie = np.int64(idx) if enc == "np" else idx
        if ke != k or not isinstance(ke, int) or tuple(be[ie]) != (lo, hi) or not (be == b):
            r.fail(f"Bin1D:encoding:{enc}", what + f" built from {enc} values: bin({x!r}) -> {ke!r} (float: {k}), [{idx}] -> {be[ie]!r}")
    if b.bin(x) != k or (b.sz, b.origin, b.direction) != (sz, org, d):
        r.fail("Bin1D:second-call-differs", what + f".bin({x!r})")
    return r


def run_bin_r(case):
    sz, org, d, idx, f = case
    b = M.Bin1D(sz, org, d)
    S, O = Fr(sz), Fr(org)
    dname = "fwd" if d > 0 else "rev"
    what = f"Bin1D({sz!r},{org!r},{d})"
    x = org + (idx * d + f) * sz
    q = (Fr(x) - O) / S
    j = math.floor(q)
    margin = min(q - j, j + 1 - q) * S
    lo, hi = b[idx]
    wlo = O + idx * d * S
    # slack: ulps of the largest coordinate involved (x - origin is rounded once) + 1e-9 of a bin
    ulps = Fr(4 * math.ulp(max(abs(x), abs(org), abs(float(wlo)), abs(float(wlo + S)))))
    slack = ulps + REL * S
    inside = margin >= slack
    want = d * j
    szc = "tiny-sz" if sz < 1e-3 else ("huge-sz" if sz > 1e3 else "sz")
    r = R(outcome=f"R:{dname}:{szc}:{'inside' if inside else 'too-close-to-edge'}", nontrivial=inside)
    if abs(Fr(lo) - wlo) > slack or abs(Fr(hi) - wlo - S) > slack:
        r.fail(f"Bin1D.getitem:{dname}:R", what + f"[{idx}] -> {(lo, hi)!r}, want {(float(wlo), float(wlo + S))!r}")
    k = b.bin(x)
    if inside:
        if k != want:
            r.fail(f"Bin1D.bin:inside:{dname}:R", what + f".bin({x!r}) -> {k!r}, x lies {float(margin)!r} inside bin {want}")
    elif k not in (want, want - d, want + d):
        r.fail(f"Bin1D.bin:near-edge:{dname}:R", what + f".bin({x!r}) -> {k!r}, want {want} or a neighbour")
    if not lo < hi:  # bins narrower than one ulp of the origin: the sample bin is not representable
        r.outcome += ":bin<ulp"
        return r
    b2 = M.Bin1D.from_sample_bin(idx, (lo, hi), d)
    if abs(Fr(b2.sz) - S) > slack or abs(Fr(b2.origin) - O) > slack * (1 + abs(idx)) or b2.direction != d:
        r.fail(f"Bin1D.from_sample_bin:{dname}:R", f"from_sample_bin({idx},{(lo, hi)!r},{d}) -> ({b2.sz!r},{b2.origin!r}) vs {what}")
    elif inside and margin >= slack * (2 + abs(idx) + abs(j)) and b2.bin(x) != want:
        r.fail(f"Bin1D.from_sample_bin:bin-differs:{dname}:R", f"rebuilt binning puts {x!r} into {b2.bin(x)}, original bin {want}")
    return r


# ---------------------------------------------------------------------------------------------
# slice encodings: the same value as int / numpy scalar / float32 / Fraction / -0.0 gives the same answer, and the
# answer does not depend on what was asked before (the float answers themselves are judged by the slices above)
# ---------------------------------------------------------------------------------------------
ENC_V = (0.0, -0.0, 1.0, -1.0, 37.0, 2.5, -2.5, 2.75, 37 + 2.0**-10, -129 + 2.0**-20, 0.5, 0.25, -0.125, 3.0, 1024.0,
         2.0**-10, 0.75, 2.0**31, 1e15, 1.0 - 2.0**-12, 0.1, -1 / 3)
ENC_X = ("int", "i64", "f64", "f32", "Fraction")
ENC_T = ("float", "f64", "Fraction")
ENC_TOL = (1e-3, 1e-6, 2.0**-10)
ENC_FN = ("split_float", "maybe_int", "is_almost_int", "maybe_zero", "snap_scale")
ENC_SG = ((20, 30, 10), (20, 31, 10), (-7, 8, 3), (0, 0, 1), (5, 5, -2), (-40, 100, -10), (19, 30, -10), (3, 4, 1))
ENC_SG_OFF = ("0.0", "int0", "np0", "False", "0.5", "0.3", "None")


def gen_enc():
    for fn in ENC_FN:
        for vi in range(len(ENC_V)):
            for ex in ENC_X:
                for et in ENC_T:
                    for tol in ENC_TOL:
                        yield (fn, vi, ex, et, tol)
    for gi in range(len(ENC_SG)):
        for off in ENC_SG_OFF:
            for ex in ("int", "i64", "f64", "mixed"):
                for tol in (1e-6, 0.0, 0.1):
                    yield ("snap_grid", gi, ex, off, tol)


def _enc(v, e):
    """encode float v; None when the encoding cannot hold the value exactly"""
    if e in ("float",):
        return v
    if e == "int":
        return int(v) if float(v).is_integer() and (v != 0 or math.copysign(1, v) > 0) else None
    if e == "i64":
        return np.int64(v) if float(v).is_integer() and abs(v) < 2**62 and (v != 0 or math.copysign(1, v) > 0) else None
    if e == "f64":
        return np.float64(v)
    if e == "f32":
        return np.float32(v) if float(np.float32(v)) == v else None
    if e == "Fraction":
        return Fr(v)
    raise ValueError(e)


def _same(a, b):
    if isinstance(a, tuple):
        return isinstance(b, tuple) and len(a) == len(b) and all(_same(u, v) for u, v in zip(a, b))
    return bool(a == b)


def run_enc(case):
    fn, vi, ex, et, tol = case
    if fn == "snap_grid":
        x0, x1, res = ENC_SG[vi]
        off_s = et
        off = {"0.0": 0.0, "int0": 0, "np0": np.float64(0.0), "False": False, "0.5": 0.5, "0.3": 0.3, "None": None}[off_s]
        ref_off = None if off is None else float(off)
        want = M.snap_grid(float(x0), float(x1), float(res), ref_off, tol)
        if ex == "int":
            args = (x0, x1, res)
        elif ex == "i64":
            args = (np.int64(x0), np.int64(x1), np.int64(res))
        elif ex == "f64":
            args = (np.float64(x0), np.float64(x1), np.float64(res))
        else:
            args = (x0, np.float64(x1), float(res))
        got = M.snap_grid(*args, off, tol)
        r = R(outcome=f"snap_grid:{ex}:off-{off_s}")
        if not (got[0] == want[0] and got[1] == want[1] and isinstance(got[1], int)):
            r.fail(f"snap_grid:encoding:{ex}:off-{off_s}", f"snap_grid{args + (off, tol)!r} -> {got!r}, floats give {want!r}")
        # a zero offset, however spelled, means edge-aligned snapping - not "no snapping"
        if off is not None and ref_off == 0.0 and res > 0 and float(got[0]) / res != round(float(got[0]) / res):
            r.fail(f"snap_grid:zero-offset-not-snapped:off-{off_s}", f"snap_grid{args + (off, tol)!r} -> {got!r}")
        return r
    f = getattr(M, fn)
    v = ENC_V[vi]
    x, t = _enc(v, ex), _enc(tol, et)
    if x is None:
        return R(outcome=f"enc-n/a:{ex}", nontrivial=False)
    r = R(outcome=f"{fn}:{ex}:{et}")
    one = fn == "split_float"
    want = f(v) if one else f(v, tol)
    got = f(x) if one else f(x, t)
    if not _same(got, want):
        r.fail(f"{fn}:encoding:{ex}:tol-{et}", f"{fn}({x!r}{'' if one else ', ' + repr(t)}) -> {got!r}, floats give {want!r}")
    # call history must not matter
    for u in (math.nan, math.inf, -1e300, -0.0, 5e-324):
        f(u) if one else f(u, tol)
    again = f(x) if one else f(x, t)
    if not _same(again, got):
        r.fail(f"{fn}:history", f"{fn}({x!r}) -> {got!r}, after other calls -> {again!r}")
    return r


# ---------------------------------------------------------------------------------------------
# slice quasi-random: quasi_random_r2 is a pure function of (n, shape, offset)
# ---------------------------------------------------------------------------------------------
QR_N = (1, 2, 3, 10, 100, 1000)
QR_OFF = (0, 1, 7, 103)
QR_SHAPE = (None, (30, 20), (101, 104), (1, 1), (20, 30))


def gen_qr():
    for n in QR_N:
        for off in QR_OFF:
            for shape in QR_SHAPE:
                yield (n, off, shape)


def run_qr(case):
    n, off, shape = case
    r = R(outcome=f"{'unit' if shape is None else 'scaled'}:{'offset' if off else 'start'}")
    what = f"quasi_random_r2({n}, shape={shape}, offset={off})"
    a = M.quasi_random_r2(n, shape, off)
    M.quasi_random_r2(5, (3, 4), 11)  # unrelated request in between
    b = M.quasi_random_r2(n, shape=shape, offset=off)
    if a.shape != (n, 2) or not np.array_equal(a, b):
        r.fail("quasi_random_r2:not-deterministic", what + " gives different answers on two calls")
        return r
    ny, nx = shape if shape is not None else (1, 1)
    if a.min() < 0 or not (a[:, 0] < nx).all() or not (a[:, 1] < ny).all():
        r.fail("quasi_random_r2:range", what + f": values outside [0,{nx}) x [0,{ny})")
    # offset means "from that position of the same sequence"
    full = M.quasi_random_r2(n + off, shape)
    if not np.array_equal(full[off:], a):
        r.fail("quasi_random_r2:offset", what + " is not the tail of the sequence generated from 0")
    if shape is not None:
        unit = M.quasi_random_r2(n, None, off)
        if not np.allclose(a, unit * np.array([nx, ny]), rtol=1e-15, atol=0):
            r.fail("quasi_random_r2:scaling", what + " is not the unit sequence scaled to the shape")
    return r


# ---------------------------------------------------------------------------------------------
def slices(tier):
    return [
        e1.Slice("near-int", gen_nearint(tier), run_nearint,
                 "x = k+f (+-1 ulp) x tol in {1e-3,1e-6,1e-8}: split_float, maybe_int, is_almost_int, maybe_zero, split_translation"),
        e1.Slice("align", gen_align, run_align, "x in [-40,5000] + {2^k+d, k in 13..32, |d|<=3} x align 1..20; pow2 variants"),
        e1.Slice("snap-grid-D", gen_sg_d(tier), run_sg_d, "dyadic lattice incl. points exactly at the tolerance; exact =="),
        e1.Slice("snap-grid-R", gen_sg_r, run_sg_r, "C08 realistic alphabet; exact rational oracle with 1e-9 slack"),
        e1.Slice("snap-scale", gen_ss, run_ss, "s in {n, 1/n, 1/(n+d)} +- deltas around each tolerance"),
        e1.Slice("snap-affine", gen_sa, run_sa, "scales x translations x shear entries around the three tolerances"),
        e1.Slice("snap-affine-window", gen_sw, run_sw,
                 "one component at a time at 0.9/0.999/1.001/1.1 x its tolerance, additive/multiplicative/reciprocal; is_affine_st"),
        e1.Slice("rws", gen_rws, run_rws, "all 2x2 over 8 values with det != 0, rot x shear x scale; ndarray and Affine"),
        e1.Slice("affine-pts", gen_afp, run_afp, "non-collinear 3/4/9-subsets of a 3x3 integer grid x frames x dyadic maps"),
        e1.Slice("poly2d", gen_p2(tier), run_p2, "triples, 2xk and kxm (k,m>=3) full grids x frames x affine/bilinear/biquadratic maps"),
        e1.Slice("axis", gen_axis, run_axis, "regular labels n in {1,2,3,5,16} per axis, fallback forms, error cases"),
        e1.Slice("bin1d-D", gen_bin(BD_SZ, BD_ORG, BD_F), run_bin_d, "dyadic sizes/origins, idx -5..5, points at edges and inside; exact"),
        e1.Slice("encodings", gen_enc, run_enc,
                 "scalar helpers and snap_grid: value x {int, int64, float64, float32, Fraction} x tol encoding; call history"),
        e1.Slice("quasi-random", gen_qr, run_qr, "n x offset x shape: determinism, range, offset = tail of the sequence"),
        e1.Slice("bin1d-R", gen_bin(BR_SZ, BR_ORG, BR_F), run_bin_r, "realistic sizes/origins, points strictly inside bins"),
        e1.Slice("bin1d-int", gen_bin(BI_SZ, BI_ORG, BI_F, BI_IDX), run_bin_d,
                 "integer sizes 1..128 and large, integer origins, bins up to +-1001: exact edges, midpoints, one ulp either side"),
    ]


def main(ctx):
    ctx.rule = (
        "complete Cartesian products of per-helper alphabets; a case is non-trivial when it exercises the contract "
        "on its stated domain (finite input, precondition x0<=x1 met, value representable in the requested encoding, "
        "point further than a few ulps + 1e-9 bin from a bin edge on R); distinct by (slice, case) hash"
    )
    ctx.bounds = {
        "near_int": {"k": list(KS_T if ctx.tier == "thorough" else KS_Q), "fractions": len(FRACS), "ulp": [-1, 0, 1], "tol": list(TOLS)},
        "align": "x in [-40,5000] + {2^k+d: 13<=k<=32, |d|<=3}; align 1..20; numpy int64/int32/float encodings on a sub-range",
        "snap_grid_D": {"res": list(SG_D_RES), "off_pix": [repr(o) for o in SG_D_OFF], "tol": list(SG_D_TOL), "k0": list(SG_D_K), "span": list(SG_D_SPAN_K)},
        "snap_grid_R": {"base": list(SG_R_BASE), "left": list(SG_R_LEFT), "span": list(SG_R_SPAN), "res": list(SG_R_RES),
                        "off_pix": [repr(o) for o in SG_R_OFF], "tol": list(SG_R_TOL)},
        "snap_scale": {"n": list(SS_N), "tol": list(SS_TOL), "forms": list(SS_FORMS)},
        "snap_affine_window": {"factors": list(SW_F), "scales": list(SW_SC), "translations": list(SW_T), "tolerances": [list(t) for t in SA_TOLS]},
        "rws": {"entries": list(RWS_E), "rot": list(RWS_ROT), "shear": list(RWS_W), "sx": list(RWS_SX), "sy": list(RWS_SY)},
        "poly2d": {"grids": [list(g) for g in P2_GRIDS4 + P2_GRIDS9], "frames": len(P2_FRAMES), "maps": len(P2_MAPS),
                   "input_transforms": [n for n, _ in P2_XFORMS], "array_variants": list(P2_VARIANTS),
                   "triples": "all 76 (thorough) / every 4th (quick)"},
        "axis": {"n": list(AX_N) + [2000], "res": list(AX_RES), "x0": list(AX_X0), "fallback": list(AX_MODES), "label_encodings": list(AX_ENCS)},
        "bin1d": {"idx": "-5..5", "sz_D": list(BD_SZ), "origin_D": list(BD_ORG), "sz_R": list(BR_SZ), "origin_R": list(BR_ORG),
                  "sz_int": "1..128, 1000, 1e5, 3*2^20+1, 7e9+3", "origin_int": list(BI_ORG), "idx_int": "-5..5, +-17, +-100, +-1001"},
        "encodings": {"values": list(ENC_V), "x": list(ENC_X), "tol": list(ENC_T)},
    }
    ctx.assumptions = [
        "inputs are finite binary64 values; every arithmetic contract is judged in exact rationals of those values",
        "at exact equality with a tolerance boundary either decision is accepted (snap_grid minimality/cover, snap_scale, is_affine_st within 1e-9 of tol*pixel)",
        "is_affine_st: tolerance relative to the pixel size, |w| <= tol*max(|sx|,|sy|) (repaired behaviour); snap_affine's rotation tolerance is absolute as documented",
        "align_up_pow2/align_down_pow2 are checked for 1 <= x <= 2^32+3 (stated range); align_up_pow2(x<=0) == 1; align_down_pow2 not checked for x <= 0",
        "split_float ties (fraction exactly +-0.5) may go to either neighbour",
        "Bin1D: bins are half-open [left, left+sz): a point exactly on a shared edge (exactly representable alphabets only) belongs to the bin whose left edge it is; a point one ulp from a shared edge may be assigned to either adjacent bin; on the realistic alphabet points closer than 4 ulps of the coordinate + 1e-9 bin to an edge are not judged",
        "R-alphabet slack is ulps of the coordinate + 1e-9 pixel (snap_grid 8 ulp, axis labels 8/16 ulp, Bin1D 4 ulp); Poly2d: 1e-12 of the value + 1e-9 grid step + input rounding (64 ulp of the frame origin) times the gradient of the target",
        "polynomial fits are judged on full product grids (general position for the fitted basis, optionally with repeated control points) and exactly representable targets",
        "Poly2d.grid2d on a chain that is not axis-aligned must raise; answering correctly would also be accepted, answering wrongly is a violation",
        "decompose_rws is judged with tolerance 1e-9 relative to the matrix (DESIGN 3) instead of 1e-12",
        "affine_from_pts is judged at the fit points and their centroid (not extrapolated), 1e-11 of the value + 1e-9 pixel",
        "encodings: int / numpy scalar / float32 / Fraction arguments are compared by value with the float answer, only where the encoding holds the value exactly; lists are not accepted by affine_from_axis (no .size) and are not enumerated",
        "float32 control points / snap_grid arguments are not enumerated: arithmetic then happens in float32 and the result is legitimately only float32-accurate",
    ]
    sl = slices(ctx.tier)
    if ctx.only:
        sl = [s for s in sl if any(s.name.startswith(o) for o in ctx.only)]
    e1.run_slices(ctx, sl)


def replay(slice_name, case, tier):
    return e1.replay(slices(tier), slice_name, case).fails
