"""C03 - reprojection planning never drops a needed pixel.

E1: complete enumeration of finite placement lattices, executed on the real
``compute_axis_overlap`` / ``compute_reproject_roi`` and judged by brute force over ALL destination
pixels: every destination pixel centre is mapped to the source pixel plane by the harness' own
composition of the two affines (and, across CRSs, a pyproj.Transformer built from EPSG codes inside
the harness, never taken from odc-geo's caches); a centre that lands inside the source image must be
inside ``roi_dst`` and its source location inside ``roi_src`` (slices B-sliver / B-ratio, rasters of several
thousand pixels: all destination pixels inside the bounding box of the source image's boundary, which contains every
pixel that can need data).  The structural clauses (regions inside
their images, emptiness when separated by more than the padding, scale / scale2 / read_shrink) are
judged from the construction parameters.
"""
from __future__ import annotations

import functools
import itertools
import math
import numbers
from fractions import Fraction

import numpy as np
import pyproj
from affine import Affine

from vf import e1
from vf.core import R

PROPERTY = "C03"
LEVEL = "exploration"

from odc.geo import overlap as OV  # noqa: E402
from odc.geo.geobox import GeoBox  # noqa: E402
from odc.geo.types import xy_  # noqa: E402

EPS = 1e-6  # pixel units: centres this close to the image boundary are neither required nor forbidden
RS_TOL = 1e-3  # tolerance stated in overlap._pick_read_scale


# =================================================================================================
# shared oracle pieces
# =================================================================================================
def _aup(x: int, a: int) -> int:
    return -((-x) // a) * a


def _is_int(v) -> bool:
    return isinstance(v, numbers.Integral) and not isinstance(v, bool)


def _roi_ok(roi) -> bool:
    return (
        isinstance(roi, tuple)
        and len(roi) == 2
        and all(isinstance(s, slice) and _is_int(s.start) and _is_int(s.stop) and s.step in (None, 1) for s in roi)
    )


def _area0(roi) -> bool:
    return any(s.stop - s.start <= 0 for s in roi)


def affine6(A):
    return tuple(float(v) for v in tuple(A)[:6])


def pix_to_world(A6, x, y):
    a, b, c, d, e, f = A6
    return a * x + b * y + c, d * x + e * y + f


def world_to_pix(A6, X, Y):
    a, b, c, d, e, f = A6
    det = a * e - b * d
    u, v = X - c, Y - f
    return (e * u - b * v) / det, (a * v - d * u) / det


def centres(shape):
    ny, nx = shape
    yy, xx = np.meshgrid(np.arange(ny) + 0.5, np.arange(nx) + 0.5, indexing="ij")
    return xx, yy


def judge(r, tag, what, info, src_shape, dst_shape, SX, SY, must_empty, exp_scale2, rel):
    """All clauses of the property for one ReprojectInfo.

    SX, SY: source-plane location of every destination pixel centre (harness' own mapping).
    must_empty: the construction separates the rasters by more than the padding margin.
    exp_scale2: expected (sx, sy) or None (nothing to compare, e.g. no overlap on a non-linear pair).
    Returns the number of destination pixels that need data.
    """
    desc = judge_struct(r, tag, what, info, src_shape, dst_shape, must_empty, exp_scale2, rel)
    if desc is None:
        return 0
    return judge_need(r, tag, desc, info, src_shape, SX, SY)


def judge_struct(r, tag, what, info, src_shape, dst_shape, must_empty, exp_scale2, rel):
    """The clauses that do not look at pixels; returns the description of the plan, None when the regions are malformed."""
    nsy, nsx = src_shape
    ndy, ndx = dst_shape
    rs_, rd_ = info.roi_src, info.roi_dst
    desc = f"{what} -> roi_src={rs_} roi_dst={rd_} paste_ok={info.paste_ok} read_shrink={info.read_shrink!r} scale={info.scale!r} scale2={info.scale2!r}"

    # -- read_shrink / scale --------------------------------------------------------------------
    rsk = info.read_shrink
    rs_good = _is_int(rsk) and rsk >= 1
    if not rs_good:
        r.fail(f"reproject_roi:read_shrink-not-positive-int:{tag}", desc)
    sc = info.scale
    s2 = tuple(info.scale2.xy)
    if not (sc == min(s2)):
        r.fail(f"reproject_roi:scale-not-min-of-scale2:{tag}", desc)
    if rs_good and not (rsk == 1 or rsk <= sc + RS_TOL * (1 + 1e-9)):
        r.fail(f"reproject_roi:read_shrink-exceeds-scale:{tag}", desc)
    if exp_scale2 is not None:
        for ax, got, want in zip("xy", s2, exp_scale2):
            if not (math.isfinite(got) and abs(got - want) <= rel * abs(want)):
                r.fail(f"reproject_roi:scale2.{ax}:{tag}", f"expected scale2.{ax}={want!r} (rel {rel}); {desc}")

    # -- regions are well formed and inside their images --------------------------------------
    if not (_roi_ok(rs_) and _roi_ok(rd_)):
        r.fail(f"reproject_roi:roi-malformed:{tag}", desc)
        return None
    lim = rsk if rs_good else 1
    for ax, s, n in (("y", rs_[0], nsy), ("x", rs_[1], nsx)):
        if not (0 <= s.start <= s.stop <= _aup(n, lim)):
            r.fail(f"reproject_roi:roi_src-outside-image:{ax}:{tag}", f"source size {n}, allowed stop {_aup(n, lim)}; {desc}")
    for ax, s, n in (("y", rd_[0], ndy), ("x", rd_[1], ndx)):
        if not (0 <= s.start <= s.stop <= n):
            r.fail(f"reproject_roi:roi_dst-outside-image:{ax}:{tag}", f"destination size {n}; {desc}")

    # -- separated by more than the padding margin => zero area --------------------------------
    if must_empty and not (_area0(rs_) and _area0(rd_)):
        r.fail(f"reproject_roi:separated-but-nonempty:{tag}", desc)
    return desc


def judge_need(r, tag, desc, info, src_shape, SX, SY, origin=(0, 0)):
    """Completeness: brute force over the destination pixels whose centres map to (SX, SY); the arrays cover the
    destination window that starts at pixel `origin` = (row, col).  Returns the number of pixels that need data."""
    nsy, nsx = src_shape
    rs_, rd_ = info.roi_src, info.roi_dst
    fin = np.isfinite(SX) & np.isfinite(SY)
    with np.errstate(invalid="ignore"):
        need = fin & (SX > EPS) & (SX < nsx - EPS) & (SY > EPS) & (SY < nsy - EPS)
    n_need = int(need.sum())
    if n_need:
        iy, ix = np.nonzero(need)
        iy, ix = iy + origin[0], ix + origin[1]
        sx, sy = SX[need], SY[need]
        for ax, idx, s in (("y", iy, rd_[0]), ("x", ix, rd_[1])):
            for side, bad in (("lo", idx < s.start), ("hi", idx >= s.stop)):
                if bad.any():
                    j = int(np.nonzero(bad)[0][0])
                    r.fail(
                        f"reproject_roi:dst-pixel-dropped:{ax}-{side}:{tag}",
                        f"destination pixel (row {int(iy[j])}, col {int(ix[j])}) maps to source ({sx[j]:.9g}, {sy[j]:.9g}) "
                        f"inside the {nsx}x{nsy} source image but is outside roi_dst ({int(bad.sum())} such pixels); {desc}",
                    )
        for ax, loc, s in (("y", sy, rs_[0]), ("x", sx, rs_[1])):
            for side, bad in (("lo", loc < s.start - EPS), ("hi", loc > s.stop + EPS)):
                if bad.any():
                    j = int(np.nonzero(bad)[0][0])
                    r.fail(
                        f"reproject_roi:src-location-dropped:{ax}-{side}:{tag}",
                        f"destination pixel (row {int(iy[j])}, col {int(ix[j])}) needs source location ({sx[j]:.9g}, {sy[j]:.9g}) "
                        f"which is outside roi_src ({int(bad.sum())} such pixels); {desc}",
                    )
    return n_need


def check_transform(r, tag, what, info, dst_shape, SX, SY, corners_only=False):
    """info.transform.back on destination pixel centres == the harness' own mapping (1e-6 px).

    Every pixel centre, or (same CRS, where the map is affine and three points determine it) the four
    corner pixels and the central one."""
    xx, yy = centres(dst_shape)
    if corners_only:
        ny, nx = dst_shape
        sel = (np.asarray([0, 0, ny - 1, ny - 1, ny // 2]), np.asarray([0, nx - 1, 0, nx - 1, nx // 2]))
        xx, yy, SX, SY = xx[sel], yy[sel], SX[sel], SY[sel]
    pts = [xy_(float(x), float(y)) for x, y in zip(xx.ravel(), yy.ravel())]
    got = info.transform.back(pts)
    gx = np.asarray([p.x for p in got], dtype="float64").reshape(SX.shape)
    gy = np.asarray([p.y for p in got], dtype="float64").reshape(SX.shape)
    fin = np.isfinite(SX) & np.isfinite(SY)
    if (np.isfinite(gx) & np.isfinite(gy))[fin].all():
        err = max(float(np.abs(gx - SX)[fin].max(initial=0)), float(np.abs(gy - SY)[fin].max(initial=0)))
    else:
        err = math.inf
    if not err <= EPS:
        r.fail(f"reproject_roi:transform-back-disagrees:{tag}", f"{what}: transform.back differs from affine/pyproj composition by {err:.3g} px")


def _cover(info, dst_shape, n_need):
    if _area0(info.roi_dst):
        c = "empty"
    elif (info.roi_dst[0].stop - info.roi_dst[0].start, info.roi_dst[1].stop - info.roi_dst[1].start) == tuple(dst_shape):
        c = "dst-full"
    else:
        c = "dst-part"
    return f"{c}:{'need' if n_need else 'need0'}"


# =================================================================================================
# slice "axis": compute_axis_overlap alone
# =================================================================================================
AX_S = [1.0, -1.0, 2.0, -2.0, 0.5, -0.5, 3.0, -3.0, 1 / 3, -1 / 3, 1.5]


def _ax_T():
    t = [k / 4 for k in range(-40, 41)]
    for k in range(-7, 8):
        t += [k - 0.01, k + 0.01, k - 1e-9, k + 1e-9]
    return t


AX_T = _ax_T()


def gen_axis():
    for Ns in range(1, 7):
        for Nd in range(1, 7):
            for s in AX_S:
                for t in AX_T:
                    yield (Ns, Nd, s, t)


def run_axis(case):
    Ns, Nd, s, t = case
    src, dst = OV.compute_axis_overlap(Ns, Nd, s, t)
    Fs, Ft = Fraction(s), Fraction(t)
    e0, e1_ = Ft, Fs * Nd + Ft
    lo, hi = min(e0, e1_), max(e0, e1_)
    gap = max(lo - Ns, -hi)
    scl = ("neg" if s < 0 else "pos") + ("-shrink" if abs(s) > 1 else "-grow" if abs(s) < 1 else "-unit")
    need = []
    for k in range(Nd):
        x = Fs * (k + Fraction(1, 2)) + Ft
        if EPS < x < Ns - EPS:
            need.append((k, x))
    place = "disjoint" if gap > 0 else ("touch" if gap == 0 else ("inside" if lo >= 0 and hi <= Ns else "partial"))
    r = R(outcome=f"{scl}:{place}:{'need' if need else 'need0'}", nontrivial=bool(need) or gap > EPS)
    what = f"compute_axis_overlap(Ns={Ns}, Nd={Nd}, s={s!r}, t={t!r}) -> src={src} dst={dst}"
    ok = all(isinstance(v, slice) and _is_int(v.start) and _is_int(v.stop) for v in (src, dst))
    if not ok:
        return r.fail(f"axis_overlap:malformed:{scl}", what)
    if not (0 <= src.start <= src.stop <= Ns):
        r.fail(f"axis_overlap:src-outside-image:{scl}:{place}", what)
    if not (0 <= dst.start <= dst.stop <= Nd):
        r.fail(f"axis_overlap:dst-outside-image:{scl}:{place}", what)
    if gap > EPS and not (src.start == src.stop and dst.start == dst.stop):
        r.fail(f"axis_overlap:separated-but-nonempty:{scl}", what)
    for k, x in need:
        if not dst.start <= k < dst.stop:
            side = "lo" if k < dst.start else "hi"
            r.fail(f"axis_overlap:dst-pixel-dropped:{side}:{scl}", f"{what}: destination pixel {k} maps to {float(x)!r} inside (0,{Ns})")
        if not src.start - EPS <= x <= src.stop + EPS:
            side = "lo" if x < src.start else "hi"
            r.fail(f"axis_overlap:src-location-dropped:{side}:{scl}", f"{what}: destination pixel {k} needs source {float(x)!r}")
    return r


# =================================================================================================
# space A: same CRS
# =================================================================================================
# (shape, affine, crs): dyadic lattice / UTM-sized offsets with 30 m pixels / 0.1 degree non-square
SRC_A = [
    ((6, 7), (0.25, 0.0, 16.0, 0.0, -0.5, 32.0), "EPSG:3857"),
    ((1, 5), (30.0, 0.0, 499980.0, 0.0, -30.0, 6000015.0), "EPSG:32633"),
    ((9, 4), (0.1, 0.0, 147.3, 0.0, -0.05, -35.2), "EPSG:4326"),
    # 3: tiny pixels (4.5e-6 deg), origin not a whole number of pixels from 0
    ((6, 7), (4.5e-6, 0.0, 147.3000371, 0.0, -4.5e-6, -35.2000113), "EPSG:4326"),
    # 4: huge non-square pixels, portrait, origin within 1e-3 of a whole number / half a pixel off
    ((9, 4), (1e5, 0.0, -2000000.0004, 0.0, -2.5e5, 6125000.0), "EPSG:3857"),
    # 5: larger source for the read_shrink windows (sizes that are not multiples of 2, 3, 4, 8)
    ((23, 37), (0.25, 0.0, 16.0, 0.0, -0.5, 32.0), "EPSG:3857"),
]
DST_A = [(5, 6), (2, 3), (1, 1)]

# (sx, sy): destination pixel size in source pixels
SC_INT = [(1.0, 1.0), (2.0, 2.0), (3.0, 3.0), (2 - 1e-4, 2 - 1e-4), (2 + 1e-4, 2 + 1e-4)]
SC_ANISO = [(1.0, 2.0), (2.0, 1.0), (2.0, 3.0)]
SC_FRAC = [(0.5, 0.5), (1 / 3, 1 / 3), (1.5, 1.5), (2.5, 2.5), (0.5, 1.0)]
SUB_FULL = [0.0, 0.01, -0.01, 0.04, -0.04, 0.06, -0.06, 0.12, -0.12, 0.3, -0.3, 0.5]
SUB_MID = [0.0, 0.01, -0.01, 0.3, -0.3, 0.5]
SUB_FEW = [0.0, -0.04, 0.3, 0.5]
SC_PADDED = [(1.0, 1.0), (2.0, 2.0), (1.0, 2.0), (0.5, 0.5), (1 / 3, 1 / 3), (1.5, 1.5), (0.5, 1.0)]
SC_ROT = [(1.0, 1.0), (2.0, 2.0), (0.5, 0.5), (1.5, 1.5), (1.0, 2.0)]
TIGHT = [(None, None), (0, None)]
PADDED = [(p, a) for p in (None, 0, 1, 3) for a in (None, 2, 4) if (p, a) not in TIGHT]
PADAL_ROT = [(None, None), (0, None), (3, None), (None, 2), (0, 4), (1, 2)]
ALIGN0 = [(None, 0), (0, 0), (1, 0)]


@functools.lru_cache(maxsize=None)
def _base(dshape, sc, mir, rot):
    """Destination->source pixel map without the shift, moved so that the envelope of the
    destination footprint in the source plane has its lower corner at (0, 0)."""
    ndy, ndx = dshape
    sx, sy = sc
    B0 = Affine.rotation(rot) * Affine.scale(-sx if mir & 1 else sx, -sy if mir & 2 else sy)
    cs = [B0 * p for p in ((0, 0), (ndx, 0), (0, ndy), (ndx, ndy))]
    x0, y0 = min(c[0] for c in cs), min(c[1] for c in cs)
    ew, eh = max(c[0] for c in cs) - x0, max(c[1] for c in cs) - y0
    return Affine.translation(-x0, -y0) * B0, ew, eh


def _peff(pad):
    return 1 if pad is None else pad


def _gen_A(srcs, dsts, scales, mirrors, rots, subs, padal, ymode):
    for si in srcs:
        (nsy, nsx) = SRC_A[si][0]
        for dshape in dsts:
            for sc in scales:
                for rot in rots:
                    _, ew, eh = _base(dshape, sc, 0, rot)
                    for pad, al in padal:
                        m = _peff(pad) + 1
                        kxs = range(-math.ceil(ew - 1e-9) - m, nsx + m + 1)
                        if ymode == "full":
                            kys = list(range(-math.ceil(eh - 1e-9) - m, nsy + m + 1))
                        else:  # classes: "A" = apart above by padding+1, "N" = touching below, ints = literal shifts
                            kys = sorted({-math.ceil(eh - 1e-9) - m if c == "A" else nsy if c == "N" else c for c in ymode})
                        for mir in mirrors:
                            for sub in subs:
                                for ky in kys:
                                    for kx in kxs:
                                        yield (si, dshape, sc, mir, rot, kx, ky, sub, pad, al)


# every padding x align combination, incl. explicit zeros, on relations that reach the paste and the sampled path;
# plus explicit (zero / wide) ttol and stol and numpy-integer options on the two all-default / all-zero pairs
REL_O = [((1.0, 1.0), 0, 0.0), ((1.0, 1.0), 0, -0.04), ((2.0, 2.0), 0, 0.0), ((3.0, 3.0), 0, 0.12), ((1.0, 1.0), 0, 0.3),
         ((1.5, 1.5), 0, 0.0), ((0.5, 0.5), 0, 0.01), ((1.0, 1.0), 15, 0.0), ((2.0, 2.0), 90, 0.0)]
PADAL_O = [(p, a) for p in (None, 0, 1, 3) for a in (None, 0, 1, 2, 4)]
EXTRA_O = [(("ttol", 0),), (("stol", 0),), (("ttol", 0.2),), (("stol", 0.01),), (("ttol", 0.0), ("stol", 0.0)), (("np", True),)]


def gen_O(thorough):
    for si in ((0, 1, 2) if thorough else (0, 2)):
        nsy, nsx = SRC_A[si][0]
        for sc, rot, sub in REL_O:
            _, ew, eh = _base(DST_A[0], sc, 0, rot)
            for mir in ((0, 1, 2, 3) if thorough else (0, 3)):
                for ky in (-2, 0):
                    combos = [(p, a, ()) for p, a in PADAL_O]
                    combos += [(p, a, e) for p, a in ((None, None), (0, 0), (0, None), (None, 0)) for e in EXTRA_O]
                    for pad, al, e in combos:
                        m = _peff(pad) + 1
                        for kx in range(-math.ceil(ew - 1e-9) - m, nsx + m + 1):
                            yield (si, DST_A[0], sc, mir, rot, kx, ky, sub, pad, al, e)


# read_shrink / paste windows: n*(1 +- tol*f) and n +- tol*f around the integers, (1/n)*(1 +- tol*f), just below 1, near 0
def _windows():
    tol, out = 1e-3, []
    for n in (1, 2, 3, 4, 8):
        for f in (0.9, 0.999, 1.001, 1.1):
            for sg in (1, -1):
                out += [n * (1 + sg * tol * f), n + sg * tol * f]
    for n in (2, 3, 4):
        for f in (0.9, 1.1):
            for sg in (1, -1):
                out.append((1 / n) * (1 + sg * tol * f))
    out += [1 - 1e-6, 1 - 1e-9, 0.999999 / 1, 1 / 1024, (1 / 1024) * (1 + 1e-3), 4.5e-6]
    return sorted(set(out))


WINDOWS = _windows()
PADAL_W = [(None, None), (0, None), (0, 0), (1, 2)]


def gen_W(thorough):
    si = 5
    nsy, nsx = SRC_A[si][0]
    scs = [(s, s) for s in WINDOWS] + [(2 * (1 + 1.1e-3), 2.0), (3.0, 3 * (1 - 0.9e-3)), (1 - 1.1e-3, 1.0)]
    for sc in scs:
        nr = max(1, round(min(sc)))
        for mir in ((0, 3) if thorough else (0,)):
            for sub in ((0.0, -0.04, 0.3) if thorough else (0.0, -0.04)):
                for pad, al in (PADAL_W if thorough else PADAL_W[:2]):
                    for ky in (-nr, 0):
                        for j in range(-7, -(-nsx // nr) + 2):
                            yield (si, DST_A[0], sc, mir, 0, nr * j, ky, sub, pad, al, ())


def gen_P(thorough):
    """tiny and huge pixels, origins off whole numbers; includes the 180 degree turn"""
    scs = SC_INT[:3] + SC_FRAC[:3] if thorough else [(1.0, 1.0), (2.0, 2.0), (0.5, 0.5), (1.5, 1.5)]
    return _gen_A((3, 4), DST_A[:1], scs, (0, 1, 2, 3) if thorough else (0, 3), (0, 15, 180),
                  SUB_MID if thorough else (0.0, -0.04, 0.3), TIGHT + [(1, 2)] if thorough else TIGHT, ("A", -2, 0, "N") if thorough else (-2, 0))


def _kind(sc, rot):
    if rot:
        return f"rot{rot}"
    if sc[0] != sc[1]:
        return "st-aniso"
    s = sc[0]
    if s >= 0.9 and 1e-6 < abs(s - round(s)) < 0.05:
        return "st-near-int"
    return "st-int" if abs(s - round(s)) < 1e-3 and s >= 1 else "st-frac"


def run_A(case):
    si, dshape, sc, mir, rot, kx, ky, sub, pad, al, *rest = case
    extra = dict(rest[0]) if rest else {}
    as_np = extra.pop("np", False)  # options given as numpy integers (np.int64(0) is as falsy as 0)
    sshape, sA, crs = SRC_A[si]
    nsy, nsx = sshape
    B, ew, eh = _base(dshape, sc, mir, rot)
    lx, ly = kx + sub, ky + sub
    A = Affine.translation(lx, ly) * B
    S = Affine(*sA)
    src = GeoBox(sshape, S, crs)
    dst = GeoBox(dshape, S * A, crs)
    kw = dict(extra)
    if pad is not None:
        kw["padding"] = np.int64(pad) if as_np else pad
    if al is not None:
        kw["align"] = np.int64(al) if as_np else al
    info = OV.compute_reproject_roi(src, dst, **kw)

    # harness' own mapping dst pixel centre -> world -> src pixel (from the GeoBoxes' affines)
    xx, yy = centres(dshape)
    SX, SY = world_to_pix(affine6(src.transform), *pix_to_world(affine6(dst.transform), xx, yy))

    # separation from the construction parameters: envelope [lx, lx+ew] x [ly, ly+eh] vs the image
    pe = _peff(pad)
    ax_ = (_aup(nsx, al) - nsx) if al else 0
    ay_ = (_aup(nsy, al) - nsy) if al else 0
    gaps = (-(lx + ew), lx - nsx - ax_, -(ly + eh), ly - nsy - ay_)
    must_empty = max(gaps) > pe + EPS
    gx, gy = max(-(lx + ew), lx - nsx), max(-(ly + eh), ly - nsy)
    g = max(gx, gy)
    place = "apart" if g > pe else ("near" if g >= 0 else ("inside" if lx >= 0 and ly >= 0 and lx + ew <= nsx and ly + eh <= nsy else "partial"))

    tag = f"same-crs:{_kind(sc, rot)}:pad={pad}:align={al}"
    if rest:
        tag += ":" + (",".join(f"{k}={v}" for k, v in rest[0]) or "defaults")
    if si >= 3:
        tag += ":" + ("tiny-px", "huge-px", "larger-src")[si - 3]
    what = (f"src=GeoBox({sshape}, Affine{sA}, {crs}); dst=GeoBox({dshape}, src.affine*A, crs) with A(dst->src px)="
            f"translation({lx!r},{ly!r})*{tuple(B)[:6]} [scale={sc} mirror={mir} rot={rot}]; compute_reproject_roi(src, dst, {kw})")
    r = R()
    n_need = judge(r, tag, what, info, sshape, dshape, SX, SY, must_empty, sc, 1e-9)
    check_transform(r, tag, what, info, dshape, SX, SY, corners_only=True)
    if info.transform.linear is None:
        r.fail(f"reproject_roi:same-crs-not-linear:{tag}", what)
    r.outcome = f"{'paste' if info.paste_ok else 'sampled'}:rs{min(int(info.read_shrink), 4)}:{place}:{_cover(info, dshape, n_need)}"
    r.nontrivial = n_need > 0 or must_empty
    return r


# =================================================================================================
# space B: different CRSs
# =================================================================================================
REGIONS = {
    # name: five (lon, lat) locations inside the valid areas of every CRS used with the region
    "world": [(10.0, 50.0), (-70.0, -30.0), (140.0, -35.0), (0.3, 0.2), (20.0, 70.0)],
    "au": [(133.0, -25.0), (115.5, -33.0), (150.0, -35.0), (146.0, -42.0), (130.0, -12.5)],
    "utm33": [(15.0, 45.0), (13.0, 60.0), (17.0, 5.0), (15.2, 70.0), (12.5, 30.0)],
    "utm55": [(147.0, -35.0), (145.0, -20.0), (149.0, -42.0), (146.0, -28.0), (148.0, -15.0)],
    "uk": [(-2.0, 54.0), (-5.0, 50.5), (0.5, 52.0), (-3.5, 57.5), (-1.0, 60.0)],
    "nz": [(174.0, -41.0), (170.0, -45.0), (176.0, -38.0), (168.0, -46.0), (175.5, -37.0)],
}
PAIRS = [
    (4326, 3857, "world"), (3857, 4326, "world"),
    (4326, 3577, "au"), (3577, 4326, "au"),
    (3857, 3577, "au"), (3577, 3857, "au"),
    (4326, 32633, "utm33"), (32633, 4326, "utm33"),
    (32755, 3577, "utm55"), (3577, 32755, "utm55"),
    (4326, 27700, "uk"), (27700, 4326, "uk"),
    (4326, 2193, "nz"), (2193, 4326, "nz"),
]
# one large-extent configuration per region: (lon, lat, ground pixel in metres)
CONTINENTAL = {
    # sized so that every placement stays inside lon (-180,180), lat (-85,85)
    "world": (10.0, 15.0, 140e3), "au": (132.0, -27.0, 80e3), "utm33": (15.0, 45.0, 15e3),
    "utm55": (147.0, -30.0, 15e3), "uk": (-3.5, 55.0, 15e3), "nz": (172.0, -41.0, 10e3),
}
SRC_B = (32, 40)
K_B = {"third": (1 / 3, (48, 48)), "one": (1.0, (24, 30)), "three": (3.0, (10, 8)),
       # large destination rasters for the continental slice
       "C-third": (1 / 3, (48, 48)), "C-one": (1.0, (44, 48)), "C-three": (3.0, (14, 16))}
# destination centre = source centre + d * (half source + half destination extent), in source pixels
PLACE_B = {
    "contained": (0.0, 0.0), "right": (0.5, 0.0), "left": (-0.5, 0.0), "down": (0.0, 0.5), "up": (0.0, -0.5),
    "corner": (0.6, 0.6), "touch-right": (1.0, 0.0), "touch-up": (0.0, -1.0), "apart-right": (1.4, 0.0),
    "apart-corner": (-1.3, -1.3),
}
PADAL_B = [(None, None), (0, None), (2, None), (None, 4)]

_TR = {}


def _pcrs(c):
    return pyproj.CRS.from_epsg(c) if isinstance(c, int) else pyproj.CRS.from_user_input(c)


def fresh_tr(e_from, e_to):
    """pyproj transformer built by the harness from EPSG codes (independent of odc.geo.crs caches)."""
    k = (e_from, e_to)
    if k not in _TR:
        _TR[k] = pyproj.Transformer.from_crs(_pcrs(e_from), _pcrs(e_to), always_xy=True)
    return _TR[k]


def _unit(epsg, lat, g):
    """size in CRS units of a pixel that is about g metres on the ground"""
    if epsg == 4326:
        return g / 111320.0
    if epsg == 3857:
        return g / math.cos(math.radians(lat))
    return g


def _north_up(cx, cy, shape, u, rot=0.0):
    ny, nx = shape
    return Affine.translation(cx, cy) * Affine.rotation(rot) * Affine.scale(u, -u) * Affine.translation(-nx / 2, -ny / 2)


def build_B(es, ed, lon, lat, g, kname, pname, variant):
    k, dshape = K_B[kname]
    us = _unit(es, lat, g)
    cx, cy = fresh_tr(4326, es).transform(lon, lat)
    sA = _north_up(cx, cy, SRC_B, us)
    if variant == "src-yup":
        sA = sA * Affine(1, 0, 0, 0, -1, SRC_B[0])
    nsy, nsx = SRC_B
    d = PLACE_B[pname]
    tx = nsx / 2 + d[0] * (nsx / 2 + dshape[1] * k / 2)
    ty = nsy / 2 + d[1] * (nsy / 2 + dshape[0] * k / 2)
    wx, wy = pix_to_world(affine6(sA), tx, ty)
    dx, dy = fresh_tr(es, ed).transform(wx, wy)
    ud = _unit(ed, lat, g * k)
    dA = _north_up(dx, dy, dshape, ud, 20.0 if variant == "dst-rot" else 0.0)
    return sA, dA, dshape


def dst_to_src(sA6, dA6, es, ed, x, y):
    wx, wy = pix_to_world(dA6, np.asarray(x, dtype="float64"), np.asarray(y, dtype="float64"))
    ux, uy = fresh_tr(ed, es).transform(wx, wy)
    return world_to_pix(sA6, np.asarray(ux), np.asarray(uy))


def _boundary(shape, per_px=4):
    ny, nx = shape
    tx = np.linspace(0, nx, nx * per_px + 1)
    ty = np.linspace(0, ny, ny * per_px + 1)
    bx = np.concatenate([tx, tx, np.zeros_like(ty), np.full_like(ty, nx)])
    by = np.concatenate([np.zeros_like(tx), np.full_like(tx, ny), ty, ty])
    return bx, by


def run_B(case):
    slice_kind, es, ed, region, loc, kname, pname, pad, al, variant = case
    if slice_kind == "C":
        lon, lat, g = CONTINENTAL[region]
    else:
        (lon, lat), g = REGIONS[region][loc], 1000.0
    sA, dA, dshape = build_B(es, ed, lon, lat, g, kname, pname, variant)
    src = GeoBox(SRC_B, sA, f"EPSG:{es}")
    dst = GeoBox(dshape, dA, f"EPSG:{ed}")
    kw = {}
    if pad is not None:
        kw["padding"] = pad
    if al is not None:
        kw["align"] = al
    info = OV.compute_reproject_roi(src, dst, **kw)
    sA6, dA6 = affine6(src.transform), affine6(dst.transform)
    nsy, nsx = SRC_B

    xx, yy = centres(dshape)
    SX, SY = dst_to_src(sA6, dA6, es, ed, xx, yy)

    # separation: envelope in the source plane of the densely sampled destination boundary
    bx, by = dst_to_src(sA6, dA6, es, ed, *_boundary(dshape))
    okb = np.isfinite(bx) & np.isfinite(by)
    pe = _peff(pad)
    must_empty = False
    g_sep = -math.inf
    if okb.all():
        lx, hx, ly, hy = float(bx.min()), float(bx.max()), float(by.min()), float(by.max())
        ax_ = (_aup(nsx, al) - nsx) if al else 0
        ay_ = (_aup(nsy, al) - nsy) if al else 0
        must_empty = max(-hx, lx - nsx - ax_, -hy, ly - nsy - ay_) > pe + 0.01
        g_sep = max(-hx, lx - nsx, -hy, ly - nsy)

    # scale at the centre of the reported overlap: central differences of the harness' own mapping
    exp = None
    shear = False
    if _roi_ok(info.roi_dst) and not _area0(info.roi_dst):
        cy_ = (info.roi_dst[0].start + info.roi_dst[0].stop) / 2
        cx_ = (info.roi_dst[1].start + info.roi_dst[1].stop) / 2
        h = 1.0  # radius documented by overlap.get_scale_at_point (its 5-point least squares fit == central differences)
        px, py = dst_to_src(sA6, dA6, es, ed, [cx_ + h, cx_ - h, cx_, cx_], [cy_, cy_, cy_ + h, cy_ - h])
        c0 = ((px[0] - px[1]) / (2 * h), (py[0] - py[1]) / (2 * h))
        c1 = ((px[2] - px[3]) / (2 * h), (py[2] - py[3]) / (2 * h))
        n0 = math.hypot(*c0)
        det = abs(c0[0] * c1[1] - c0[1] * c1[0])
        # overlap.get_scale_from_linear_transform: A = R*W*S (rotation, shear, scale):
        # sx = |first column|, sy = |det| / |first column| (equals |second column| when there is no shear)
        exp = (n0, det / n0)
        shear = abs(math.hypot(*c1) - exp[1]) > 1e-3 * exp[1]

    tag = f"cross-crs:{'continental' if slice_kind == 'C' else 'local'}:pad={pad}:align={al}"
    what = (f"src=GeoBox({SRC_B}, Affine{tuple(sA6)}, EPSG:{es}); dst=GeoBox({dshape}, Affine{tuple(dA6)}, EPSG:{ed}); "
            f"compute_reproject_roi(src, dst, {kw}) [{region} {lon},{lat} g={g} k={kname} place={pname} {variant}]")
    r = R()
    n_need = judge(r, tag, what, info, SRC_B, dshape, SX, SY, must_empty, exp, 1e-3)
    check_transform(r, tag, what, info, dshape, SX, SY)
    if info.paste_ok or info.transform.linear is not None:
        r.fail(f"reproject_roi:cross-crs-treated-as-linear:{tag}", what)
    place = "apart" if g_sep > pe else ("near" if g_sep >= 0 else "overlap")
    r.outcome = f"{es}>{ed}:{kname}:rs{min(int(info.read_shrink), 4)}:{place}:{_cover(info, dshape, n_need)}"
    r.nontrivial = n_need > 0 or must_empty
    if shear:
        r.counts = {"obs:shear-makes-column-norm-differ-from-scale2.y-by>1e-3": 1}
    return r


def _gen_B(kind, locs, places, padal, variants):
    for es, ed, region in PAIRS:
        for loc in locs:
            for kname in (k for k in K_B if k.startswith("C-") == (kind == "C")):
                for pname in places:
                    for pad, al in padal:
                        for v in variants:
                            yield (kind, es, ed, region, loc, kname, pname, pad, al, v)


# =================================================================================================
# space G: geographic rasters that overhang the valid lon/lat range (the documented clamp)
# =================================================================================================
# overlap.GbxPointTransform.__call__: "for global datasets in 4326 pixel edges sometimes reach just outside of the valid
# region ... those coordinates can then not be converted properly to destination crs" -> coordinates of the geographic
# raster are clamped to lon [-180,180], lat [-90,90] before they are projected.  What is claimed: the planning still works
# for such rasters.  Judged here: every destination pixel centre that is itself a place on earth (lon/lat inside the valid
# range; for a projected destination: the inverse projection of the centre is finite and inside the range).  A centre
# outside the range (rows beyond a pole, columns beyond +-180) is neither required nor forbidden: the clamp exists so that
# the raster's edges can be converted, nothing says such pixels receive data.  The projected raster lies inside the
# projection's own valid area (no clamp is documented for projected coordinates; PROJ answers off-earth points of
# Mollweide / Equal Earth with inf or with a wrapped longitude): cylindrical projections: the world rectangle inset by
# 0.1%; Equal Earth: |x| <= 0.99 * half length of the pole line, all latitudes; Mollweide: a rectangle inscribed in the
# ellipse (0.99 * (0.6, 0.8) of the half axes, up to ~60 deg latitude).  A projected destination centre is additionally required
# to survive the round trip projected -> lon/lat -> projected (1e-6 of a pixel), else it is not a place on earth.
MOLL = "+proj=moll +lon_0=0 +datum=WGS84 +units=m +no_defs"
PROJ_G = {"4087": 4087, "6933": 6933, "8857": 8857, "moll": MOLL, "3857": 3857}
RES_G = (2.5, 5.0, 10.0)
LAT_G = ("none", "N-half", "N-3px", "S-half", "S-3px", "both-half")
LON_G = ("none", "W-half", "W-2px", "E-half", "E-2px", "both-half")
PDEG_G = (5.0, 10.0)  # projected pixel: world rectangle divided into 360/pdeg columns (and 180/pdeg rows)
PADAL_G = [(None, None), (0, None)]
MAX_G = (48, 96)


def geo_raster(res, latc, lonc):
    """(shape, affine6) of a lon/lat raster with the requested overhang, at most 48x96 pixels (anchored at the
    overhanging side when the whole globe does not fit)."""
    ovn = {"N-half": res / 2, "N-3px": 3 * res, "both-half": res / 2}.get(latc, 0.0)
    ovs = {"S-half": res / 2, "S-3px": 3 * res, "both-half": res / 2}.get(latc, 0.0)
    ovw = {"W-half": res / 2, "W-2px": 2 * res, "both-half": res / 2}.get(lonc, 0.0)
    ove = {"E-half": res / 2, "E-2px": 2 * res, "both-half": res / 2}.get(lonc, 0.0)
    ny = min(MAX_G[0], int(round(180 / res)) + {"N-3px": 3, "S-3px": 3, "both-half": 1}.get(latc, 0))
    nx = min(MAX_G[1], int(round(360 / res)) + {"W-2px": 2, "E-2px": 2, "both-half": 1}.get(lonc, 0))
    top = (-90.0 - ovs) + ny * res if latc.startswith("S-") else 90.0 + ovn
    left = (180.0 + ove) - nx * res if lonc.startswith("E-") else -180.0 - ovw
    return (ny, nx), (res, 0.0, left, 0.0, -res, top)


@functools.lru_cache(maxsize=None)
def proj_raster(pname, pdeg):
    """On-earth rectangle of the projection (see above) divided into pixels of about pdeg degrees at the equator."""
    t = fresh_tr(4326, PROJ_G[pname])
    x0, y0 = t.transform(180.0, 0.0)[0], t.transform(0.0, 90.0)[1]
    if pname == "3857":
        fx, fy, y0 = 0.999, 0.999, x0
    elif pname == "8857":
        fx, fy = 0.99 * t.transform(180.0, 90.0)[0] / x0, 0.999
    elif pname == "moll":
        fx, fy = 0.6 * 0.99, 0.8 * 0.99  # corners strictly inside the ellipse
    else:
        fx, fy = 0.999, 0.999
    xmax, ymax = fx * x0, fy * y0
    nx = max(2, int(round(360 / pdeg * fx)))
    ny = max(2, int(round((360 if pname == "3857" else 180) / pdeg * fy)))
    return (ny, nx), (2 * xmax / nx, 0.0, -xmax, 0.0, -2 * ymax / ny, ymax)


def _in_range(lon, lat):
    with np.errstate(invalid="ignore"):
        return np.isfinite(lon) & np.isfinite(lat) & (np.abs(lon) <= 180 + 1e-9) & (np.abs(lat) <= 90 + 1e-9)


def gen_G():
    for direction in ("geo-src", "geo-dst"):
        for pname in PROJ_G:
            for res in RES_G:
                for latc in LAT_G:
                    for lonc in LON_G:
                        for pdeg in PDEG_G:
                            for pad, al in PADAL_G:
                                yield (direction, pname, res, latc, lonc, pdeg, pad, al)


def run_G(case):
    direction, pname, res, latc, lonc, pdeg, pad, al = case
    gshape, gA = geo_raster(res, latc, lonc)
    pshape, pA = proj_raster(pname, pdeg)
    pc = PROJ_G[pname]
    pcs = f"EPSG:{pc}" if isinstance(pc, int) else pc
    geo = GeoBox(gshape, Affine(*gA), "EPSG:4326")
    prj = GeoBox(pshape, Affine(*pA), pcs)
    src, dst = (geo, prj) if direction == "geo-src" else (prj, geo)
    kw = {}
    if pad is not None:
        kw["padding"] = pad
    if al is not None:
        kw["align"] = al
    info = OV.compute_reproject_roi(src, dst, **kw)
    sA6, dA6 = affine6(src.transform), affine6(dst.transform)

    def to_src(x, y):
        """harness mapping dst pixel -> src pixel with the documented clamp; also says which points are on earth"""
        wx, wy = pix_to_world(dA6, np.asarray(x, dtype="float64"), np.asarray(y, dtype="float64"))
        if direction == "geo-dst":
            ok = _in_range(wx, wy)
            ux, uy = fresh_tr(4326, pc).transform(np.clip(wx, -180, 180), np.clip(wy, -90, 90))
        else:
            ux, uy = fresh_tr(pc, 4326).transform(wx, wy)
            ux, uy = np.asarray(ux), np.asarray(uy)
            ok = _in_range(ux, uy)
            bx, by = fresh_tr(4326, pc).transform(np.where(ok, ux, 0.0), np.where(ok, uy, 0.0))
            with np.errstate(invalid="ignore"):
                ok &= (np.abs(bx - wx) <= 1e-6 * abs(dA6[0])) & (np.abs(by - wy) <= 1e-6 * abs(dA6[4]))
        px, py = world_to_pix(sA6, np.asarray(ux, dtype="float64"), np.asarray(uy, dtype="float64"))
        return px, py, ok

    xx, yy = centres(dst.shape)
    TX, TY, ok = to_src(xx, yy)
    SX, SY = np.where(ok, TX, np.nan), np.where(ok, TY, np.nan)

    exp = None
    if _roi_ok(info.roi_dst) and not _area0(info.roi_dst):
        cy_ = (info.roi_dst[0].start + info.roi_dst[0].stop) / 2
        cx_ = (info.roi_dst[1].start + info.roi_dst[1].stop) / 2
        px, py, okc = to_src([cx_ + 1, cx_ - 1, cx_, cx_], [cy_, cy_, cy_ + 1, cy_ - 1])
        if okc.all() and np.isfinite(px).all() and np.isfinite(py).all():
            c0 = ((px[0] - px[1]) / 2, (py[0] - py[1]) / 2)
            c1 = ((px[2] - px[3]) / 2, (py[2] - py[3]) / 2)
            n0 = math.hypot(*c0)
            if n0 > 0:
                exp = (n0, abs(c0[0] * c1[1] - c0[1] * c1[0]) / n0)

    tag = f"overhang:{direction}:{pname}:lat={latc}:lon={lonc}:pad={pad}:align={al}"
    what = (f"src=GeoBox({tuple(src.shape)}, Affine{tuple(sA6)}, {src.crs}); dst=GeoBox({tuple(dst.shape)}, Affine{tuple(dA6)}, {dst.crs}); "
            f"compute_reproject_roi(src, dst, {kw}) [geographic raster: {res} deg pixels, lat overhang {latc}, lon overhang {lonc}]")
    r = R()
    n_need = judge(r, tag, what, info, tuple(src.shape), tuple(dst.shape), SX, SY, False, exp, 1e-3)
    # transform.back against the harness mapping (with the documented clamp) wherever that is finite
    check_transform(r, tag, what, info, tuple(dst.shape), TX, TY)
    n_out = int((~ok).sum())
    r.outcome = f"{direction}:{pname}:{latc}:{lonc}:{_cover(info, tuple(dst.shape), n_need)}:{'off-earth' if n_out else 'all-on-earth'}"
    r.nontrivial = n_need > 0
    return r


# =================================================================================================
# space H: call histories - the plan must not depend on what was called before it in the same process
# =================================================================================================
# Target plans: cross-CRS pairs whose local scale varies across the raster (10 km ground pixels) + two same-CRS controls.
# (src epsg, dst epsg, lon, lat, ground pixel m, scale class, placement) in the vocabulary of space B
PAIRS_H = {
    "hl-geo>merc": (4326, 3857, 20.0, 72.0, 10e3, "three", "contained"),
    "hl-merc>geo": (3857, 4326, 20.0, 72.0, 10e3, "one", "corner"),
    "geo>polar": (4326, 3413, -40.0, 72.0, 10e3, "three", "contained"),
    "laea>geo": (3035, 4326, 35.0, 66.0, 10e3, "one", "right"),
    "geo>utm-far": (4326, 32633, 25.0, 62.0, 10e3, "three", "contained"),
    "utm-far>merc": (32633, 3857, 24.0, 60.0, 10e3, "third", "contained"),
    # same CRS: (index into SRC_A, dst shape, (sx, sy), rot, shift)
    "same-paste": (0, (5, 6), (2.0, 2.0), 0, (2.0, -2.0)),
    "same-rot": (1, (5, 6), (1.5, 1.5), 15, (-1.7, -2.3)),
}
OTHER_H = (4326, 3577, 133.0, -25.0, 1000.0, "one", "corner")  # the "other" cross-CRS pair of the interfering calls
OTHER_SAME_H = (2, (5, 6), (0.5, 0.5), 0, (1.3, 2.3))
R_H = (None, 0, 0.5, 16, 1e3)
# interfering public calls: name -> call class used in finding keys
CALLS_H = {}
for _w in ("same", "other"):
    for _r in R_H:
        CALLS_H[f"scale-at-point:{_w}:r={_r}"] = "scale-at-point-default-r" if _r is None else "scale-at-point-explicit-r"
CALLS_H.update({
    "plan:other": "plan-other-pair", "plan:other:pad2-align4": "plan-other-pair", "plan:other-same-crs": "plan-other-pair",
    "pix-transform:other": "native-pix-transform",
    "gbx:fwd-out-of-range": "gbx-out-of-range", "gbx:back-out-of-range": "gbx-out-of-range",
    # on the SAME GeoBox instances that are planned again afterwards
    "lazy:properties": "lazy-properties-read", "view:crop-and-zoom": "derived-views-planned",
    "plan:same-pair-reversed": "plan-same-instances", "plan:same-pair:pad3-align4": "plan-same-instances",
})
CHURN_H = "crs-churn:140-live-crs-and-transformers"  # only as a sequence of its own (and followed by one other plan)
_KEEP_H = []


def _pair_H(spec):
    """-> (src GeoBox, dst GeoBox, es, ed) ; es/ed None for same-CRS pairs"""
    if len(spec) == 7:
        es, ed, lon, lat, g, kname, pname = spec
        sA, dA, dshape = build_B(es, ed, lon, lat, g, kname, pname, "north-up")
        return GeoBox(SRC_B, sA, f"EPSG:{es}"), GeoBox(dshape, dA, f"EPSG:{ed}"), es, ed
    si, dshape, sc, rot, (lx, ly) = spec
    sshape, sA, crs = SRC_A[si]
    B, _, _ = _base(dshape, sc, 0, rot)
    S = Affine(*sA)
    return GeoBox(sshape, S, crs), GeoBox(dshape, S * Affine.translation(lx, ly) * B, crs), None, None


def _interfere(name, src, dst):
    """One interfering public call; whatever it returns or raises is not the subject here."""
    try:
        kind = name.split(":")
        if name == "lazy:properties":
            for g in (src, dst):
                for prop in ("extent", "boundingbox", "geographic_extent", "resolution", "coordinates", "alignment", "center_pixel"):
                    try:
                        getattr(g, prop)
                    except Exception:  # pylint: disable=broad-except
                        pass
                _ = (g.crs.epsg, g.crs.geographic, g.crs.units, g.footprint("EPSG:4326").boundingbox)
        elif name == "view:crop-and-zoom":
            OV.compute_reproject_roi(src, dst[1:-1, 2:-2])
            OV.compute_reproject_roi(src[2:, :-3], dst)
            if isinstance(src, GeoBox):
                OV.compute_reproject_roi(src.zoom_out(2), dst.zoom_out(0.5))
        elif name == "plan:same-pair-reversed":
            OV.compute_reproject_roi(dst, src)
        elif name == "plan:same-pair:pad3-align4":
            OV.compute_reproject_roi(src, dst, padding=3, align=4)
        elif name == CHURN_H:
            from odc.geo.crs import CRS  # pylint: disable=import-outside-toplevel
            for z in range(1, 61):  # 120 UTM zones + 20 shifted Lambert cones, all kept alive, each used in a transformer
                for e in (32600 + z, 32700 + z):
                    c = CRS(f"EPSG:{e}")
                    c.transformer_to_crs(src.crs)(500000.0, 1e6 if e < 32700 else 9e6)
                    _KEEP_H.append(c)
            for k in range(20):
                c = CRS(f"+proj=lcc +lat_1={30 + k} +lat_2={50 + k} +lon_0={k} +datum=WGS84 +units=m +no_defs")
                dst.crs.transformer_to_crs(c)(10.0 + k, 40.0)
                _KEEP_H.append(c)
        elif kind[0] == "scale-at-point":
            a, b = (src, dst) if kind[1] == "same" else _pair_H(OTHER_H)[:2]
            r = {str(v): v for v in R_H}[kind[2][2:]]
            tr = OV.native_pix_transform(a, b)
            pt = xy_(b.shape[1] / 2, b.shape[0] / 2)
            if r is None:
                OV.get_scale_at_point(pt, tr.back)
            else:
                OV.get_scale_at_point(pt, tr.back, r)
        elif name == "plan:other":
            a, b = _pair_H(OTHER_H)[:2]
            OV.compute_reproject_roi(a, b)
        elif name == "plan:other:pad2-align4":
            a, b = _pair_H(OTHER_H)[:2]
            OV.compute_reproject_roi(b, a, padding=2, align=4)
        elif name == "plan:other-same-crs":
            a, b = _pair_H(OTHER_SAME_H)[:2]
            OV.compute_reproject_roi(a, b)
        elif name == "pix-transform:other":
            a, b = _pair_H(OTHER_H)[:2]
            tr = OV.native_pix_transform(a, b)
            tr.back([xy_(0.5, 0.5), xy_(3.0, 7.0)])
            tr([xy_(0.5, 0.5)])
            _ = tr.linear
        else:
            geo = GeoBox((18, 36), Affine(10.0, 0, -180.0, 0, -10.0, 90.0), "EPSG:4326")
            mer = GeoBox((36, 36), Affine(1.1e6, 0, -1.98e7, 0, -1.1e6, 1.98e7), "EPSG:3857")
            tr = OV.GbxPointTransform(geo, mer)
            if name == "gbx:fwd-out-of-range":
                tr([xy_(-1.0, -0.5), xy_(37.0, 18.5), xy_(1e6, -1e6), xy_(18.0, 9.0)])  # lon/lat beyond +-180 / +-90
            else:
                tr.back([xy_(-5.0, -400.0), xy_(1e5, 1e5), xy_(18.0, 18.0)])
        return "ok"
    except Exception as e:  # pylint: disable=broad-except
        return type(e).__name__


def _snapshot(info, src, dst):
    """Everything observable of a plan, as plain comparable values (nan-safe through repr)."""
    ny, nx = dst.shape
    my, mx = src.shape
    fwd = info.transform([xy_(0.5, 0.5), xy_(mx / 2, my / 2), xy_(mx - 0.5, my - 0.5)])
    back = info.transform.back([xy_(0.5, 0.5), xy_(nx / 2, ny / 2), xy_(nx - 0.5, ny - 0.5), xy_(0.5, ny - 0.5)])
    return {
        "roi_src": repr(info.roi_src), "roi_dst": repr(info.roi_dst), "scale": repr(float(info.scale)),
        "scale2": repr(tuple(float(v) for v in info.scale2.xy)), "read_shrink": repr(info.read_shrink),
        "paste_ok": repr(info.paste_ok), "transform": repr([tuple(float(v) for v in p.xy) for p in fwd]),
        "transform.back": repr([tuple(float(v) for v in p.xy) for p in back]),
        "transform.linear": repr(None if info.transform.linear is None else tuple(info.transform.linear)[:6]),
    }


def gen_H(maxlen):
    for pair in PAIRS_H:
        for n in range(maxlen + 1):
            for seq in itertools.product(CALLS_H, repeat=n):
                yield (pair, seq)
        if maxlen >= 2:
            yield (pair, (CHURN_H,))
            yield (pair, (CHURN_H, "plan:other"))


def run_H(case):
    pair, seq = case
    src, dst, es, ed = _pair_H(PAIRS_H[pair])
    ref_info = OV.compute_reproject_roi(src, dst)  # (1) reference: first thing the case does
    ref = _snapshot(ref_info, src, dst)
    res = [_interfere(name, src, dst) for name in seq]
    info = OV.compute_reproject_roi(src, dst)  # the same instances again
    got = _snapshot(info, src, dst)
    src2, dst2, _, _ = _pair_H(PAIRS_H[pair])  # identical inputs, fresh objects
    got2 = _snapshot(OV.compute_reproject_roi(src2, dst2), src2, dst2)
    after = "+".join(sorted({CALLS_H.get(n, "crs-churn") for n in seq})) or "nothing"
    what = f"pair {pair} {PAIRS_H[pair]}: plan, then {list(seq)} (-> {res}), then the same plan again"
    r = R()
    for field in ref:
        if ref[field] != got[field]:
            r.fail(f"reproject_roi:history-dependent:{pair}:after-{after}:{field}",
                   f"{what}: {field} was {ref[field]} and is now {got[field]} (same GeoBox instances)")
        elif ref[field] != got2[field]:
            r.fail(f"reproject_roi:history-dependent:{pair}:after-{after}:{field}:fresh-instances",
                   f"{what}: {field} was {ref[field]} and is {got2[field]} on freshly built identical GeoBoxes")
    # (2) state-independent clauses on BOTH plans: a worker that was poisoned before this case started gives the
    # same wrong answer twice, but not the answer of the harness' own mapping
    sshape, dshape = tuple(src.shape), tuple(dst.shape)
    sA6, dA6 = affine6(src.transform), affine6(dst.transform)
    xx, yy = centres(dshape)
    for label, inf in (("first", ref_info), ("after", info)):
        if es is None:
            SX, SY = world_to_pix(sA6, *pix_to_world(dA6, xx, yy))
            exp, rel = PAIRS_H[pair][2], 1e-9
        else:
            SX, SY = dst_to_src(sA6, dA6, es, ed, xx, yy)
            exp, rel = None, 1e-6
            if _roi_ok(inf.roi_dst) and not _area0(inf.roi_dst):
                cy_ = (inf.roi_dst[0].start + inf.roi_dst[0].stop) / 2
                cx_ = (inf.roi_dst[1].start + inf.roi_dst[1].stop) / 2
                # documented radius 1: the 5-point least squares fit equals central differences with h = 1 exactly
                px, py = dst_to_src(sA6, dA6, es, ed, [cx_ + 1, cx_ - 1, cx_, cx_], [cy_, cy_, cy_ + 1, cy_ - 1])
                c0 = ((px[0] - px[1]) / 2, (py[0] - py[1]) / 2)
                c1 = ((px[2] - px[3]) / 2, (py[2] - py[3]) / 2)
                n0 = math.hypot(*c0)
                exp = (n0, abs(c0[0] * c1[1] - c0[1] * c1[0]) / n0)
        n_need = judge(r, f"history:{pair}:{label}-plan", what, inf, sshape, dshape, SX, SY, False, exp, rel)
        check_transform(r, f"history:{pair}:{label}-plan", what, inf, dshape, SX, SY, corners_only=True)
    raised = sorted({x for x in res if x != "ok"})
    r.outcome = f"{pair}:len{len(seq)}:rs{min(int(info.read_shrink), 4)}:{_cover(info, dshape, n_need)}:{'calls-ok' if not raised else 'call-raised:' + ','.join(raised)}"
    r.nontrivial = n_need > 0
    return r


# =================================================================================================
# space L: long rasters - deviations below a per-pixel tolerance add up to whole pixels over 2000 pixels
# =================================================================================================
SHAPES_L = [(16, 2000), (2000, 16), (2000, 2000)]
# relation name -> (class, builder of the destination->source pixel map M for a destination of shape (ny, nx))
REL_L = {}
for _a in (0.05, -0.05, 0.03, -0.03, 0.01):
    REL_L[f"rot{_a:+}deg@corner"] = ("rot-corner", lambda ny, nx, a=_a: Affine.rotation(a))
    REL_L[f"rot{_a:+}deg@centre"] = ("rot-centre", lambda ny, nx, a=_a: Affine.rotation(a, (nx / 2, ny / 2)))
REL_L["shear-x9e-4"] = ("shear-x", lambda ny, nx: Affine(1.0, 9e-4, 0.0, 0.0, 1.0, 0.0))
REL_L["shear-y9e-4"] = ("shear-y", lambda ny, nx: Affine(1.0, 0.0, 0.0, 9e-4, 1.0, 0.0))
for _s in (1 + 9e-4, 1 - 9e-4):
    REL_L[f"scale{_s!r}"] = ("scale1", lambda ny, nx, s_=_s: Affine.scale(s_))
for _s in (2 + 9e-4, 2 - 9e-4):
    REL_L[f"scale{_s!r}"] = ("scale2", lambda ny, nx, s_=_s: Affine.scale(s_))
REL_L_QUICK_SQUARE = ("rot+0.05deg@corner", "rot-0.03deg@centre", "shear-x9e-4", "scale1.0009")
SUB_L = (0.0, 4e-4, -4e-4)
# placement -> (shift of the destination in source pixels, growth of the destination shape)
PLACE_L = {"same-extent": ((0, 0), 0), "over-left": ((-50, 0), 0), "over-right": ((50, 0), 0), "over-top": ((0, -50), 0),
           "over-bottom": ((0, 50), 0), "over-all-sides": ((-50, -50), 100)}
OPTS_L = {"default": {}, "pad0-align0": {"padding": 0, "align": 0}}
SRC_L = ((0.25, 0.0, 16.0, 0.0, -0.5, 32.0), "EPSG:3857")  # dyadic, non-square pixels


def gen_L(thorough):
    for sshape in SHAPES_L:
        square = sshape == (2000, 2000)
        for rel in REL_L:
            if square and not thorough and rel not in REL_L_QUICK_SQUARE:
                continue
            for sub in (SUB_L if thorough or not square else SUB_L[:1]):
                for place in (PLACE_L if thorough or not square else ("over-right", "over-top", "over-all-sides")):
                    for opt in OPTS_L:
                        yield (sshape, rel, sub, place, opt)


def run_L(case):
    sshape, rel, sub, place, opt = case
    (px_, py_), grow = PLACE_L[place]
    dshape = (sshape[0] + grow, sshape[1] + grow)
    relc, mk = REL_L[rel]
    M = mk(*dshape)
    scale_rel = relc.startswith("scale")
    k = round(M.a) if scale_rel else 1  # a scale-2 destination covers the same extent with half the pixels
    if k == 2:
        dshape = (max(1, dshape[0] // 2), max(1, dshape[1] // 2))
    A = Affine.translation(px_ + sub, py_ + sub) * M
    S = Affine(*SRC_L[0])
    src = GeoBox(sshape, S, SRC_L[1])
    dst = GeoBox(dshape, S * A, SRC_L[1])
    kw = OPTS_L[opt]
    info = OV.compute_reproject_roi(src, dst, **kw)

    # numpy float64 brute force over every destination pixel centre, through the GeoBoxes' own affines
    xx, yy = centres(dshape)
    SX, SY = world_to_pix(affine6(src.transform), *pix_to_world(affine6(dst.transform), xx, yy))
    del xx, yy
    # per-axis scale as the code defines it (R*W*S): |first column|, |det| / |first column|
    n0 = math.hypot(M.a, M.d)
    exp = (n0, abs(M.a * M.e - M.b * M.d) / n0)
    subc = "whole-px" if sub == 0 else "sub-tolerance-shift"
    tag = f"long:{relc}:{place}:{opt}"
    what = (f"src=GeoBox({sshape}, Affine{SRC_L[0]}, {SRC_L[1]}); dst=GeoBox({dshape}, src.affine*A, crs) with A(dst->src px)="
            f"translation({px_ + sub!r},{py_ + sub!r})*Affine{tuple(M)[:6]} [{rel}, {subc}]; compute_reproject_roi(src, dst, {kw})")
    r = R()
    n_need = judge(r, tag, what, info, sshape, dshape, SX, SY, False, exp, 1e-9)
    check_transform(r, tag, what, info, dshape, SX, SY, corners_only=True)
    r.outcome = f"long:{relc}:{'paste' if info.paste_ok else 'sampled'}:rs{min(int(info.read_shrink), 4)}:{_cover(info, dshape, n_need)}"
    r.nontrivial = n_need > 0
    return r


# =================================================================================================
# spaces "canvas" and "curvature": windows given in lon/lat, rasterised in two CRSs
# =================================================================================================
def judge_cross(r, tag, what, info, sshape, sA6, dshape, dA6, es, ed, pad, al=None, rel=1e-3):
    """All clauses for a cross-CRS plan from the harness' own mapping (fresh pyproj + the two affines)."""
    xx, yy = centres(dshape)
    SX, SY = dst_to_src(sA6, dA6, es, ed, xx, yy)
    del xx, yy
    exp = None
    if _roi_ok(info.roi_dst) and not _area0(info.roi_dst):
        cy_ = (info.roi_dst[0].start + info.roi_dst[0].stop) / 2
        cx_ = (info.roi_dst[1].start + info.roi_dst[1].stop) / 2
        px, py = dst_to_src(sA6, dA6, es, ed, [cx_ + 1, cx_ - 1, cx_, cx_], [cy_, cy_, cy_ + 1, cy_ - 1])
        if np.isfinite(px).all() and np.isfinite(py).all():
            c0 = ((px[0] - px[1]) / 2, (py[0] - py[1]) / 2)
            c1 = ((px[2] - px[3]) / 2, (py[2] - py[3]) / 2)
            n0 = math.hypot(*c0)
            exp = (n0, abs(c0[0] * c1[1] - c0[1] * c1[0]) / n0)
    n_need = judge(r, tag, what, info, sshape, dshape, SX, SY, False, exp, rel)
    check_transform(r, tag, what, info, dshape, SX, SY, corners_only=SX.size > 10000)
    return n_need, SX, SY


def window_raster(epsg, win, shape):
    """Axis-aligned raster in `epsg` covering the lon/lat window (lon0, lon1, lat0, lat1) with shape (ny, nx)."""
    lon0, lon1, lat0, lat1 = win
    lons, lats = np.meshgrid(np.linspace(lon0, lon1, 9), np.linspace(lat0, lat1, 9))
    if epsg == 4326:
        xs, ys = lons.ravel(), lats.ravel()
    else:
        xs, ys = fresh_tr(4326, epsg).transform(lons.ravel(), lats.ravel())
    ny, nx = shape
    x0, x1, y0, y1 = float(np.min(xs)), float(np.max(xs)), float(np.min(ys)), float(np.max(ys))
    return (ny, nx), ((x1 - x0) / nx, 0.0, x0, 0.0, -(y1 - y0) / ny, y1)


def _sub_window(win, fx0, fx1, fy0, fy1):
    lon0, lon1, lat0, lat1 = win
    return (lon0 + fx0 * (lon1 - lon0), lon0 + fx1 * (lon1 - lon0), lat1 - fy1 * (lat1 - lat0), lat1 - fy0 * (lat1 - lat0))


# a large canvas and a smaller raster that covers only part of it: the overlap does not start at destination pixel (0, 0)
# and the local scale varies strongly over the canvas; "scale measured at the centre of the OVERLAP"
CANVAS = {  # name: (canvas epsg, region epsg, canvas window)
    "geo-canvas/merc": (4326, 3857, (-120.0, 120.0, -45.0, 75.0)),
    "merc-canvas/geo": (3857, 4326, (-120.0, 120.0, -45.0, 75.0)),
    "geo-canvas/laea": (4326, 3035, (-25.0, 50.0, 30.0, 72.0)),
    "laea-canvas/geo": (3035, 4326, (-25.0, 50.0, 30.0, 72.0)),
}
REGION_POS = {  # fractions of the canvas window: x0, x1, y0 (top), y1
    "middle": (0.4, 0.6, 0.35, 0.65), "bottom": (0.3, 0.7, 0.75, 0.98), "right": (0.78, 0.99, 0.2, 0.8),
    "top-left": (0.02, 0.2, 0.03, 0.3), "beyond-right": (0.85, 1.15, 0.4, 0.9), "whole": (-0.05, 1.05, -0.05, 1.05),
}


def gen_canvas():
    for name in CANVAS:
        for pos in REGION_POS:
            for direction in ("region->canvas", "canvas->region"):
                for pad in (None, 0):
                    yield (name, pos, direction, pad)


def run_canvas(case):
    name, pos, direction, pad = case
    ce, re_, win = CANVAS[name]
    cshape, cA6 = window_raster(ce, win, (48, 96))
    rshape, rA6 = window_raster(re_, _sub_window(win, *REGION_POS[pos]), (32, 40))
    if direction == "region->canvas":
        (sshape, sA6, es), (dshape, dA6, ed) = (rshape, rA6, re_), (cshape, cA6, ce)
    else:
        (sshape, sA6, es), (dshape, dA6, ed) = (cshape, cA6, ce), (rshape, rA6, re_)
    src, dst = GeoBox(sshape, Affine(*sA6), f"EPSG:{es}"), GeoBox(dshape, Affine(*dA6), f"EPSG:{ed}")
    kw = {} if pad is None else {"padding": pad}
    info = OV.compute_reproject_roi(src, dst, **kw)
    tag = f"canvas:{name}:{pos}:{direction}:pad={pad}"
    what = f"src=GeoBox({sshape}, Affine{sA6}, EPSG:{es}); dst=GeoBox({dshape}, Affine{dA6}, EPSG:{ed}); compute_reproject_roi(src, dst, {kw})"
    r = R()
    n_need, _, _ = judge_cross(r, tag, what, info, sshape, sA6, dshape, dA6, es, ed, pad)
    off = _roi_ok(info.roi_dst) and (info.roi_dst[0].start > 0 or info.roi_dst[1].start > 0)
    r.outcome = f"canvas:{name}:{direction}:{'overlap-off-origin' if off else 'overlap-at-origin'}:rs{min(int(info.read_shrink), 4)}:{_cover(info, dshape, n_need)}"
    r.nontrivial = n_need > 0
    return r


# edge curvature: 600-1000 pixel rasters over windows where the edges of one raster bulge by several pixels in the other;
# five boundary points per side have to bound that bulge
CURV = {  # name: (projected epsg, window)
    "laea-europe": (3035, (-10.0, 40.0, 35.0, 70.0)),
    "albers-australia": (3577, (112.0, 154.0, -44.0, -10.0)),
    "utm33-wide": (32633, (3.0, 27.0, 40.0, 65.0)),
    "merc-north": (3857, (-10.0, 40.0, 35.0, 70.0)),
}


def gen_curv(thorough):
    for name in CURV:
        for direction in ("proj->geo", "geo->proj"):
            for n in ((600, 1000) if thorough else (800,)):
                for pad in ((None, 0, 1, 3) if thorough else (None,)):
                    for inner in ("same-window", "dst-inner"):
                        yield (name, direction, n, pad, inner)


def run_curv(case):
    name, direction, n, pad, inner = case
    pe, win = CURV[name]
    # "dst-inner": the destination covers the inner 70% of the window, so its (curved) edges lie well inside the source
    wp = win if inner == "same-window" or direction == "proj->geo" else _sub_window(win, 0.15, 0.85, 0.15, 0.85)
    wg = win if inner == "same-window" or direction == "geo->proj" else _sub_window(win, 0.15, 0.85, 0.15, 0.85)
    pshape, pA6 = window_raster(pe, wp, (n, n))
    gshape, gA6 = window_raster(4326, wg, (n - 40, n + 60))
    if direction == "proj->geo":
        (sshape, sA6, es), (dshape, dA6, ed) = (pshape, pA6, pe), (gshape, gA6, 4326)
    else:
        (sshape, sA6, es), (dshape, dA6, ed) = (gshape, gA6, 4326), (pshape, pA6, pe)
    src, dst = GeoBox(sshape, Affine(*sA6), f"EPSG:{es}"), GeoBox(dshape, Affine(*dA6), f"EPSG:{ed}")
    kw = {} if pad is None else {"padding": pad}
    info = OV.compute_reproject_roi(src, dst, **kw)
    tag = f"curvature:{name}:{direction}:{inner}:pad={pad}"
    what = f"src=GeoBox({sshape}, Affine{sA6}, EPSG:{es}); dst=GeoBox({dshape}, Affine{dA6}, EPSG:{ed}); compute_reproject_roi(src, dst, {kw})"
    r = R()
    n_need, SX, SY = judge_cross(r, tag, what, info, sshape, sA6, dshape, dA6, es, ed, pad)
    # how far the destination boundary bulges beyond the envelope of five points per side (source pixels), as an observation
    bx, by = dst_to_src(sA6, dA6, es, ed, *_boundary(dshape, 1))
    ny, nx = dshape
    cx5, cy5 = np.meshgrid(np.linspace(0, nx, 5), np.linspace(0, ny, 5))
    edge = (cx5 == 0) | (cx5 == nx) | (cy5 == 0) | (cy5 == ny)
    ex, ey = dst_to_src(sA6, dA6, es, ed, cx5[edge], cy5[edge])
    bulge = max(float(ex.min() - bx.min()), float(bx.max() - ex.max()), float(ey.min() - by.min()), float(by.max() - ey.max()))
    r.outcome = f"curvature:{name}:{direction}:{inner}:bulge-{'>3px' if bulge > 3 else '1-3px' if bulge > 1 else '<1px'}:{_cover(info, dshape, n_need)}"
    r.counts = {f"obs:curvature:{name}:{direction}:{inner}:n={n}:pad={pad}:dst-boundary-beyond-5pt-envelope-in-0.1-src-px": int(round(bulge * 10))}
    r.nontrivial = n_need > 0
    return r


# =================================================================================================
# spaces "sliver" and "ratio": large rasters whose edge is CURVED in the other raster's pixel plane
# =================================================================================================
# The planner bounds a curved edge by sampling it.  Whatever the number of samples is derived from, the class where too few
# samples lose pixels is: the extreme point (apex) of a curved edge lies BETWEEN two samples and the other raster's image
# ends inside the lens between the curve and the chord through the samples ("sliver"), or the curve is long when measured
# in the pixels of the FINER raster ("ratio").  Both spaces enumerate the position of the apex along the edge in 32nds of
# the edge (the k/4, k/8, k/16 sample positions of 5, 9, 17 points per side and the midpoints between them).
#
# Oracle: brute force over the destination pixel centres through the harness' own transformer, restricted to the window
# of the destination that can need data at all: the bounding box (+2 px) in the destination pixel plane of the source
# image's boundary sampled once per source pixel (the image of the source rectangle under the continuous, one-to-one map
# is bounded by the image of its boundary).  Restricting the set of judged pixels can never create a violation.
def judge_curved(r, tag, what, info, sshape, sA6, dshape, dA6, es, ed, pad, al, rel=1e-3, block=1 << 20):
    """-> (pixels needing data, pixels judged, emptiness clause applies)"""
    nsy, nsx = sshape
    ndy, ndx = dshape
    # separation: envelope in the source plane of the destination boundary, one sample per destination pixel
    bx, by = dst_to_src(sA6, dA6, es, ed, *_boundary(dshape, 1))
    must_empty = False
    if np.isfinite(bx).all() and np.isfinite(by).all():
        ax_ = (_aup(nsx, al) - nsx) if al else 0
        ay_ = (_aup(nsy, al) - nsy) if al else 0
        must_empty = max(-float(bx.max()), float(bx.min()) - nsx - ax_, -float(by.max()), float(by.min()) - nsy - ay_) > _peff(pad) + 0.01
    exp = None
    if _roi_ok(info.roi_dst) and not _area0(info.roi_dst):
        cy_ = (info.roi_dst[0].start + info.roi_dst[0].stop) / 2
        cx_ = (info.roi_dst[1].start + info.roi_dst[1].stop) / 2
        px, py = dst_to_src(sA6, dA6, es, ed, [cx_ + 1, cx_ - 1, cx_, cx_], [cy_, cy_, cy_ + 1, cy_ - 1])
        if np.isfinite(px).all() and np.isfinite(py).all():
            c0 = ((px[0] - px[1]) / 2, (py[0] - py[1]) / 2)
            c1 = ((px[2] - px[3]) / 2, (py[2] - py[3]) / 2)
            n0 = math.hypot(*c0)
            if n0 > 0:
                exp = (n0, abs(c0[0] * c1[1] - c0[1] * c1[0]) / n0)
    desc = judge_struct(r, tag, what, info, sshape, dshape, must_empty, exp, rel)
    if desc is None:
        return 0, 0, must_empty
    # window of the destination that can need data
    qx, qy = dst_to_src(dA6, sA6, ed, es, *_boundary(sshape, 1))
    if np.isfinite(qx).all() and np.isfinite(qy).all():
        c0_, c1_ = max(0, math.floor(float(qx.min())) - 2), min(ndx, math.ceil(float(qx.max())) + 2)
        r0_, r1_ = max(0, math.floor(float(qy.min())) - 2), min(ndy, math.ceil(float(qy.max())) + 2)
    else:
        c0_, c1_, r0_, r1_ = 0, ndx, 0, ndy
    n_need = n_judged = 0
    if c1_ > c0_ and r1_ > r0_:
        xs = np.arange(c0_, c1_) + 0.5
        step = max(1, block // (c1_ - c0_))
        for ra in range(r0_, r1_, step):
            rb = min(r1_, ra + step)
            yy, xx = np.meshgrid(np.arange(ra, rb) + 0.5, xs, indexing="ij")
            SX, SY = dst_to_src(sA6, dA6, es, ed, xx, yy)
            n_need += judge_need(r, tag, desc, info, sshape, SX, SY, origin=(ra, c0_))
            n_judged += SX.size
    return n_need, n_judged, must_empty


def _edge_px(shape, edge, per_px=1):
    """pixel coordinates along one edge of a raster, in the order of growing x (top, bottom) / growing y (left, right)"""
    ny, nx = shape
    if edge in ("top", "bottom"):
        t = np.linspace(0, nx, nx * per_px + 1)
        return t, np.full_like(t, 0.0 if edge == "top" else ny)
    t = np.linspace(0, ny, ny * per_px + 1)
    return np.full_like(t, 0.0 if edge == "left" else nx), t


def _to_crs(e_from, e_to, x, y):
    if e_from == e_to:
        return np.asarray(x, dtype="float64"), np.asarray(y, dtype="float64")
    ux, uy = fresh_tr(e_from, e_to).transform(x, y)
    return np.asarray(ux, dtype="float64"), np.asarray(uy, dtype="float64")


def _local_px(A6, e_from, e_to, shape):
    """size (geometric mean of the two axes) of one pixel of the raster, measured at its centre in units of CRS e_to"""
    ny, nx = shape
    wx, wy = pix_to_world(A6, np.asarray([nx / 2, nx / 2 + 1, nx / 2]), np.asarray([ny / 2, ny / 2, ny / 2 + 1]))
    ux, uy = _to_crs(e_from, e_to, wx, wy)
    v1, v2 = (ux[1] - ux[0], uy[1] - uy[0]), (ux[2] - ux[0], uy[2] - uy[0])
    return math.sqrt(abs(v1[0] * v2[1] - v1[1] * v2[0]))


EDGES = ("top", "bottom", "left", "right")

# -------------------------------------------------------------------------------------------------
# sliver: curved raster C (2000 x 3000) and a probe raster P placed so that it reaches `depth` of its own pixels beyond the
# apex of one edge of C, i.e. the two overlap in a thin lens along that edge (depth < 0: a gap of that many pixels)
# -------------------------------------------------------------------------------------------------
# National grids are not among the configurations: sliding a 2000 x 3000 raster and a second raster beyond its edge leaves
# their valid areas (British grid: pyproj switches to another datum operation east of ~1.9 E, a 130 m step in the harness'
# own mapping; NZTM: the rasters cross the antimeridian, where the documented lon/lat clamp applies - slice G).
CFG_S = {  # name: (epsg a, epsg b, lon/lat window when the anchor meridian is in the middle, anchor meridian)
    "geo|albers-au": (4326, 3577, (117.0, 147.0, -40.0, -20.0), 132.0),
    "geo|laea-eu": (4326, 3035, (-5.0, 25.0, 42.0, 64.0), 10.0),
    "geo|utm33": (4326, 32633, (9.0, 21.0, 48.0, 66.0), 15.0),
    "merc|albers-au": (3857, 3577, (117.0, 147.0, -40.0, -20.0), 132.0),
    "utm55|albers-au": (32755, 3577, (141.0, 153.0, -40.0, -22.0), 147.0),
}
C_SHAPE = (2000, 3000)
P_SHAPES = {"small": (48, 256), "large": (1000, 2000)}  # (across the shared edge, along it)
DEPTHS_S = (-3.0, -0.4, 0.6, 1.1, 1.6, 2.3, 3.8, 6.2, 10.4)
T32_ALL = tuple(range(1, 32))
T32_ODD = tuple(range(1, 32, 2))
# 16 positions, none on a sample of a 5-point ring (k/4): the midpoints between the samples of 5, 9 and (four of) 17 points per side
T32_QUICK = (4, 12, 20, 28, 2, 6, 10, 14, 18, 22, 26, 30, 3, 13, 21, 27)


@functools.lru_cache(maxsize=8)
def _curved_C(cfg, cside, t32):
    """C: north-up raster in CRS c over the window slid so that the anchor meridian is at t32/32 of its width;
    -> (ec, ep, shape, affine6, {edge: boundary of C along that edge in CRS p, one point per pixel})"""
    ea, eb, win, anchor = CFG_S[cfg]
    ec, ep = (ea, eb) if cside == "a" else (eb, ea)
    lon0, lon1, lat0, lat1 = win
    w = lon1 - lon0
    cwin = (anchor - t32 / 32 * w, anchor + (1 - t32 / 32) * w, lat0, lat1)
    cshape, cA6 = window_raster(ec, cwin, C_SHAPE)
    edges = {}
    for e in EDGES:
        edges[e] = _to_crs(ec, ep, *pix_to_world(cA6, *_edge_px(cshape, e)))
    return ec, ep, cshape, cA6, edges


def build_sliver(cfg, cside, edge, t32, mode, kpx, psize, depth):
    """-> (ec, C shape, C affine6, ep, P shape, P affine6, apex class, shortfall of a 5-point ring at the apex in P pixels)"""
    ec, ep, cshape, cA6, edges = _curved_C(cfg, cside, t32 if mode == "north-up" else 16)
    u = kpx * _local_px(cA6, ec, ep, cshape)
    ex_, ey_ = edges[edge]
    n = len(ex_) - 1
    if mode == "north-up":
        th = 0.0
    else:  # P is turned so that its facing edge is parallel to C's edge at t32/32 of that edge
        i = min(max(round(t32 / 32 * n), 1), n - 1)
        dx, dy = float(ex_[i + 1] - ex_[i - 1]), float(ey_[i + 1] - ey_[i - 1])
        th = math.atan2(dy, dx) if edge in ("top", "bottom") else math.atan2(dx, -dy)
    ct, st = math.cos(th), math.sin(th)
    # P's frame: a along its pixel x axis (ct, st), b along its pixel y axis (st, -ct), world units of CRS p
    allx = np.concatenate([edges[e][0] for e in EDGES])
    ally = np.concatenate([edges[e][1] for e in EDGES])
    eid = np.concatenate([np.full(len(edges[e][0]), k) for k, e in enumerate(EDGES)])
    frac = np.concatenate([np.linspace(0, 1, len(edges[e][0])) for e in EDGES])
    a, b = allx * ct + ally * st, allx * st - ally * ct
    # the same points as a ring of 5 per side would see them (every quarter of each edge)
    q = np.concatenate([np.round(np.linspace(0, len(edges[e][0]) - 1, 5)).astype(int) + off
                        for e, off in zip(EDGES, np.cumsum([0] + [len(edges[e][0]) for e in EDGES[:-1]]))])
    ph, pw = P_SHAPES[psize]
    if edge in ("left", "right"):
        ph, pw = pw, ph
    if edge == "top":
        j = int(np.argmin(b))
        oa, ob = a[j] - pw / 2 * u, b[j] + depth * u - ph * u
        short = (float(b[q].min()) - b[j]) / u
    elif edge == "bottom":
        j = int(np.argmax(b))
        oa, ob = a[j] - pw / 2 * u, b[j] - depth * u
        short = (b[j] - float(b[q].max())) / u
    elif edge == "left":
        j = int(np.argmin(a))
        oa, ob = a[j] + depth * u - pw * u, b[j] - ph / 2 * u
        short = (float(a[q].min()) - a[j]) / u
    else:
        j = int(np.argmax(a))
        oa, ob = a[j] - depth * u, b[j] - ph / 2 * u
        short = (a[j] - float(a[q].max())) / u
    ox, oy = oa * ct + ob * st, oa * st - ob * ct
    pA6 = tuple(float(v) for v in (u * ct, u * st, ox, u * st, -u * ct, oy))
    f = float(frac[j])
    if EDGES[int(eid[j])] != edge or min(f, 1 - f) < 1 / 128:
        apex = "apex-at-corner"
    elif abs(f * 4 - round(f * 4)) < 1 / 32:
        apex = "apex-at-quarter-point"
    else:
        apex = "apex-between-quarter-points"
    return ec, cshape, cA6, ep, (ph, pw), pA6, apex, short


def gen_sliver(thorough):
    if thorough:
        full = (("small", 0.5, ((None, None), (0, None), (2, None), (None, 16))), ("large", 0.5, ((None, None), (0, None))), ("small", 2.0, ((None, None),)))
        for cfg in CFG_S:
            for cside in ("a", "b"):
                for mode, edges, ts, combos in (("north-up", ("top", "bottom"), T32_ALL, full),
                                                ("turned", EDGES, T32_ODD, (("small", 0.5, ((None, None), (0, None))), ("large", 0.5, ((None, None),))))):
                    for edge in edges:
                        for t32 in ts:
                            for depth in DEPTHS_S:
                                for direction in ("C-dst", "C-src"):
                                    for psize, kpx, padal in combos:
                                        for pad, al in padal:
                                            yield (cfg, cside, edge, t32, mode, kpx, psize, depth, direction, pad, al)
    else:
        for cfg in ("geo|albers-au", "geo|laea-eu", "merc|albers-au"):
            for cside in ("a", "b"):
                for mode, edges, ts in (("north-up", ("top", "bottom"), T32_QUICK), ("turned", ("top", "left"), T32_QUICK[:8:2])):
                    for edge in edges:
                        for t32 in ts:
                            for depth in (-3.0, 1.1, 2.3, 3.8, 6.2):
                                for direction, psize, kpx, pad, al in (("C-dst", "large", 0.5, None, None), ("C-dst", "small", 0.5, 0, None),
                                                                       ("C-src", "small", 0.5, None, None)):
                                    yield (cfg, cside, edge, t32, mode, kpx, psize, depth, direction, pad, al)


def run_sliver(case):
    cfg, cside, edge, t32, mode, kpx, psize, depth, direction, pad, al = case
    ec, cshape, cA6, ep, pshape, pA6, apex, short = build_sliver(cfg, cside, edge, t32, mode, kpx, psize, depth)
    if direction == "C-dst":
        (sshape, sA6, es), (dshape, dA6, ed) = (pshape, pA6, ep), (cshape, cA6, ec)
    else:
        (sshape, sA6, es), (dshape, dA6, ed) = (cshape, cA6, ec), (pshape, pA6, ep)
    src, dst = GeoBox(sshape, Affine(*sA6), f"EPSG:{es}"), GeoBox(dshape, Affine(*dA6), f"EPSG:{ed}")
    kw = {}
    if pad is not None:
        kw["padding"] = pad
    if al is not None:
        kw["align"] = al
    info = OV.compute_reproject_roi(src, dst, **kw)
    lens = "gap" if depth < 0 else ("inside-5pt-lens" if depth < short else "beyond-5pt-chord")
    tag = f"sliver:{cfg}:{'ab'[cside == 'b']}-large:{direction}:{mode}:{apex}:{lens}:pad={pad}:align={al}"
    what = (f"src=GeoBox({sshape}, Affine{sA6}, EPSG:{es}); dst=GeoBox({dshape}, Affine{dA6}, EPSG:{ed}); compute_reproject_roi(src, dst, {kw}) "
            f"[{cfg}: the {'source' if direction == 'C-src' else 'destination'} is the large raster; the other one reaches {depth} of its pixels beyond "
            f"the outermost point of the large raster's {edge} edge, which a ring of 5 points per side underestimates by {short:.2f} px]")
    r = R()
    n_need, _, must_empty = judge_curved(r, tag, what, info, sshape, sA6, dshape, dA6, es, ed, pad, al)
    r.outcome = f"sliver:{cfg}:{cside}:{direction}:{mode}:{edge}:{apex}:{lens}:{_cover(info, dshape, n_need)}"
    r.nontrivial = n_need > 0 or must_empty
    return r


# -------------------------------------------------------------------------------------------------
# ratio: a coarse raster K (400 x 400) whose top / bottom edge is curved in the pixel plane of a raster F that contains
# that edge and whose pixels are 1/3, 1/10, 1/17 of K's; both directions (up-sampling K -> F, down-sampling F -> K)
# -------------------------------------------------------------------------------------------------
CFG_R = {  # name: (K epsg, F epsg, K pixel, K's x coordinate of the axis of symmetry, y of K's top edge)
    "laea-eu>geo": (3035, 4326, 5000.0, 4321000.0, 4210000.0),
    "albers-au>geo": (3577, 4326, 8000.0, 0.0, -1200000.0),
    "utm33>geo": (32633, 4326, 1500.0, 500000.0, 7000000.0),
    "geo>albers-au": (4326, 3577, 0.08, 132.0, -12.0),
    "geo>laea-eu": (4326, 3035, 0.06, 10.0, 66.0),
    "merc>albers-au": (3857, 3577, 9000.0, 14694272.8, -1360000.0),
}
K_SHAPE = (400, 400)
RATIOS = {"1/3": 1 / 3, "1/10": 1 / 10, "1/17": 1 / 17}
F_MARGIN = 40  # F reaches this many of its pixels beyond the outermost / innermost point of K's edge
F_MAX_ROWS = 1500


def build_ratio(cfg, edge, t32, ratio):
    ek, ef, px, axis, top = CFG_R[cfg]
    ny, nx = K_SHAPE
    kA6 = (px, 0.0, axis - t32 / 32 * nx * px, 0.0, -px, top)
    u = RATIOS[ratio] * _local_px(kA6, ek, ef, K_SHAPE)
    wx, wy = _to_crs(ek, ef, *pix_to_world(kA6, *_edge_px(K_SHAPE, edge, 4)))
    x0, x1 = float(wx.min()), float(wx.max())
    x0, x1 = x0 - 0.03 * (x1 - x0), x1 + 0.03 * (x1 - x0)
    y0, y1 = float(wy.min()) - F_MARGIN * u, float(wy.max()) + F_MARGIN * u
    fnx = math.ceil((x1 - x0) / u)
    fny = min(F_MAX_ROWS, math.ceil((y1 - y0) / u))
    if edge == "bottom":  # keep the outer side when the band is cut
        y1 = y0 + fny * u
    fA6 = (u, 0.0, x0, 0.0, -u, y1)
    # where along K's edge its outermost point (seen from F) lies, and how far the edge bulges in F pixels
    j = int(np.argmax(wy) if edge == "top" else np.argmin(wy))
    f = j / (len(wy) - 1)
    bulge = (float(wy.max()) - float(wy.min())) / u
    apex = "apex-at-corner" if min(f, 1 - f) < 1 / 128 else ("apex-at-eighth-point" if abs(f * 8 - round(f * 8)) < 1 / 32 else "apex-between-eighth-points")
    return ek, K_SHAPE, kA6, ef, (fny, fnx), fA6, apex, bulge


def gen_ratio(thorough):
    if thorough:
        for cfg in CFG_R:
            for edge in ("top", "bottom"):
                for ratio in RATIOS:
                    for t32 in (T32_ALL if ratio != "1/17" else T32_ALL[1::2]):
                        for direction in ("K->F", "F->K"):
                            for pad, al in ((None, None), (0, None)):
                                yield (cfg, edge, t32, ratio, direction, pad, al)
    else:
        for cfg, edge in (("laea-eu>geo", "top"), ("albers-au>geo", "bottom"), ("geo>albers-au", "top")):
            for ratio, ts in (("1/3", T32_QUICK), ("1/10", T32_QUICK[:12]), ("1/17", (6, 14, 18))):
                for t32 in ts:
                    for direction in ("K->F", "F->K"):
                        yield (cfg, edge, t32, ratio, direction, None, None)


def run_ratio(case):
    cfg, edge, t32, ratio, direction, pad, al = case
    ek, kshape, kA6, ef, fshape, fA6, apex, bulge = build_ratio(cfg, edge, t32, ratio)
    if direction == "K->F":
        (sshape, sA6, es), (dshape, dA6, ed) = (kshape, kA6, ek), (fshape, fA6, ef)
    else:
        (sshape, sA6, es), (dshape, dA6, ed) = (fshape, fA6, ef), (kshape, kA6, ek)
    src, dst = GeoBox(sshape, Affine(*sA6), f"EPSG:{es}"), GeoBox(dshape, Affine(*dA6), f"EPSG:{ed}")
    kw = {}
    if pad is not None:
        kw["padding"] = pad
    if al is not None:
        kw["align"] = al
    info = OV.compute_reproject_roi(src, dst, **kw)
    bc = "bulge>100px" if bulge > 100 else "bulge-20-100px" if bulge > 20 else "bulge<20px"
    tag = f"ratio:{cfg}:{edge}:{direction}:{ratio}:{apex}:pad={pad}:align={al}"
    what = (f"src=GeoBox({sshape}, Affine{sA6}, EPSG:{es}); dst=GeoBox({dshape}, Affine{dA6}, EPSG:{ed}); compute_reproject_roi(src, dst, {kw}) "
            f"[{cfg}: the {'destination' if direction == 'K->F' else 'source'} has pixels {ratio} of the other raster's and contains its {edge} edge, "
            f"which bulges by {bulge:.1f} of the finer pixels]")
    r = R()
    n_need, _, must_empty = judge_curved(r, tag, what, info, sshape, sA6, dshape, dA6, es, ed, pad, al)
    r.outcome = f"ratio:{cfg}:{edge}:{direction}:{ratio}:{apex}:{bc}:rs{min(int(info.read_shrink), 4)}:{_cover(info, dshape, n_need)}"
    r.nontrivial = n_need > 0 or must_empty
    return r


# =================================================================================================
# space E: the same rasters given in other encodings (CRS spellings, numpy shapes, int / -0.0 affines)
# =================================================================================================
UTM33_PROJ4 = "+proj=utm +zone=33 +datum=WGS84 +units=m +no_defs"
CUSTOM_TM17 = "+proj=tmerc +lat_0=0 +lon_0=17 +k=0.9996 +x_0=500000 +y_0=0 +datum=WGS84 +units=m +no_defs"


@functools.lru_cache(maxsize=None)
def _utm33_texts():
    c = pyproj.CRS.from_epsg(32633)
    wkt = c.to_wkt()
    stale = wkt.replace('"Longitude of natural origin",15', '"Longitude of natural origin",16.5')
    assert stale != wkt and 'ID["EPSG",32633]' in stale
    return wkt, c.to_json(), stale


ENC_UTM = ("EPSG:32633", "epsg:32633", "int", "wkt", "projjson", "pyproj-object", "odc-object", "proj4-no-epsg")
REL_E = {"paste-shift": ((1.0, 1.0), 0, (2.0, 1.0)), "sub-pixel": ((1.0, 1.0), 0, (2.3, 1.3)), "rot15-scale1.5": ((1.5, 1.5), 15, (0.7, -1.2))}
GRID_ENC = ("plain", "numpy-shape", "list-shape", "int-affine", "negative-zero-affine")
PADAL_E = [(None, None), (0, 0)]


def _crs_enc(name):
    """-> (object handed to GeoBox, what the harness gives to pyproj for its own transformer)"""
    wkt, pj, stale = _utm33_texts()
    if name == "int":
        return 32633, 32633
    if name == "wkt":
        return wkt, 32633
    if name == "projjson":
        return pj, 32633
    if name == "pyproj-object":
        return pyproj.CRS.from_epsg(32633), 32633
    if name == "odc-object":
        from odc.geo.crs import CRS  # pylint: disable=import-outside-toplevel
        return CRS("EPSG:32633"), 32633
    if name == "proj4-no-epsg":
        return UTM33_PROJ4, 32633
    if name == "stale-id-wkt":
        return stale, stale  # a different CRS (central meridian 16.5) that still carries ID["EPSG",32633]
    if name == "custom-tmerc17-no-code":
        return CUSTOM_TM17, CUSTOM_TM17  # another CRS without an EPSG code (central meridian 17)
    if name in ("EPSG:4326", "OGC:CRS84"):
        return name, 4326  # same lon/lat mapping in x,y order
    return name, 32633


def gen_E():
    for rel in REL_E:
        for pad, al in PADAL_E:
            for a in ENC_UTM:
                for b in ENC_UTM:
                    yield ("utm", a, b, "plain", rel, pad, al)
                for x, y in ((a, "stale-id-wkt"), ("stale-id-wkt", a)):
                    yield ("utm", x, y, "plain", rel, pad, al)
            for a, b in (("EPSG:4326", "OGC:CRS84"), ("OGC:CRS84", "EPSG:4326"), ("OGC:CRS84", "OGC:CRS84")):
                yield ("geo", a, b, "plain", rel, pad, al)
            for a, b in (("stale-id-wkt", "custom-tmerc17-no-code"), ("custom-tmerc17-no-code", "stale-id-wkt"),
                         ("custom-tmerc17-no-code", "custom-tmerc17-no-code"), ("EPSG:32633", "custom-tmerc17-no-code"),
                         ("custom-tmerc17-no-code", "proj4-no-epsg"), ("stale-id-wkt", "stale-id-wkt")):
                yield ("utm", a, b, "plain", rel, pad, al)
            for g in GRID_ENC[1:]:
                yield ("utm", "EPSG:32633", "EPSG:32633", g, rel, pad, al)
                yield ("utm", "EPSG:32633", "stale-id-wkt", g, rel, pad, al)


def _grid_enc(shape, A6, g):
    if g == "numpy-shape":
        shape = tuple(np.int64(v) for v in shape)
    elif g == "list-shape":
        shape = list(shape)
    if g == "int-affine":
        A6 = tuple(int(v) if float(v).is_integer() else v for v in A6)
    elif g == "negative-zero-affine":
        A6 = tuple(-0.0 if v == 0 else v for v in A6)
    return shape, Affine(*A6)


def run_E(case):
    fam, ea, eb, g, rel, pad, al = case
    sc, rot, (lx, ly) = REL_E[rel]
    sshape, dshape = (6, 7), (5, 6)
    sA6 = (30.0, 0.0, 499980.0, 0.0, -30.0, 6000030.0) if fam == "utm" else (0.1, 0.0, 14.3, 0.0, -0.05, 54.2)
    B, _, _ = _base(dshape, sc, 0, rot)
    ca, pa = _crs_enc(ea)
    cb, pb = _crs_enc(eb)
    same = pa == pb
    if same:
        dA6 = affine6(Affine(*sA6) * Affine.translation(lx, ly) * B)
    else:  # a different CRS: put the destination over the source through the harness transformer
        wx, wy = pix_to_world(sA6, lx, ly)
        dx, dy = fresh_tr(pa, pb).transform(wx, wy)
        dA6 = affine6(Affine.translation(dx, dy) * Affine(sA6[0], 0, 0, 0, sA6[4], 0) * B)
    s_shape, s_aff = _grid_enc(sshape, sA6, g)
    d_shape, d_aff = _grid_enc(dshape, dA6, "plain" if g in ("int-affine",) else g)
    src = GeoBox(s_shape, s_aff, ca)
    dst = GeoBox(d_shape, d_aff, cb)
    kw = {}
    if pad is not None:
        kw.update(padding=pad, align=al)
    info = OV.compute_reproject_roi(src, dst, **kw)
    xx, yy = centres(dshape)
    if same:
        SX, SY = world_to_pix(sA6, *pix_to_world(dA6, xx, yy))
        exp, rel_tol = sc, (1e-9 if info.transform.linear is not None else 1e-6)
    else:
        SX, SY = dst_to_src(sA6, dA6, pa, pb, xx, yy)
        exp, rel_tol = None, 1e-6
        if _roi_ok(info.roi_dst) and not _area0(info.roi_dst):
            cy_ = (info.roi_dst[0].start + info.roi_dst[0].stop) / 2
            cx_ = (info.roi_dst[1].start + info.roi_dst[1].stop) / 2
            px, py = dst_to_src(sA6, dA6, pa, pb, [cx_ + 1, cx_ - 1, cx_, cx_], [cy_, cy_, cy_ + 1, cy_ - 1])
            c0 = ((px[0] - px[1]) / 2, (py[0] - py[1]) / 2)
            c1 = ((px[2] - px[3]) / 2, (py[2] - py[3]) / 2)
            n0 = math.hypot(*c0)
            exp = (n0, abs(c0[0] * c1[1] - c0[1] * c1[0]) / n0)
    cls = ("stale-id" if "stale-id-wkt" in (ea, eb) else "code-less") + "-vs-other-crs" if not same else ("same-crs-other-spelling" if ea != eb else "same-spelling")
    tag = f"encoding:{cls}:{ea}>{eb}:{g}:pad={pad}:align={al}"
    what = (f"src=GeoBox({s_shape!r}, {s_aff!r}, crs given as {ea}); dst=GeoBox({d_shape!r}, {d_aff!r}, crs given as {eb}); "
            f"compute_reproject_roi(src, dst, {kw}) [{rel}]")
    r = R()
    n_need = judge(r, tag, what, info, sshape, dshape, SX, SY, False, exp, rel_tol)
    check_transform(r, tag, what, info, dshape, SX, SY)
    r.outcome = f"enc:{cls}:{g}:{'linear' if info.transform.linear is not None else 'via-transformer'}:{'paste' if info.paste_ok else 'sampled'}:{_cover(info, dshape, n_need)}"
    r.nontrivial = n_need > 0
    return r


# =================================================================================================
# space N: the caller's inputs are not modified; a second call answers like the first
# =================================================================================================
PTS_N = {
    "inside": [(1.5, 2.5), (6.2, 3.1), (4.0, 7.9)],
    "with-nan-inf": [(1.5, 2.5), (float("nan"), 3.0), (6.2, float("inf")), (4.0, 7.9)],
    "far": [(-1e300, 2.5), (1e300, 3.0), (4.0, 1e19)],
    "ints": [(1, 2), (6, 3), (4, 8)],
}
LAYOUT_N = ("c-float64", "fortran", "strided", "float32", "int64")


def gen_N():
    for pts in PTS_N:
        for lay in LAYOUT_N:
            for pad in (0, 1):
                for al in (None, 0, 4):
                    yield ("roi_from_points", pts, lay, pad, al)
    for roi in (((1, 5), (2, 9)), ((0, 0), (3, 3)), ((2, 7), (0, 1))):
        for a in (2, 5):
            yield ("roi_boundary", roi, a)
            yield ("scaled_up_roi", roi, a)
    for pair in PAIRS_H:
        yield ("compute_reproject_roi", pair)


def _layout(pts, lay):
    a = np.asarray(pts, dtype="float64")
    if lay == "fortran":
        return np.asfortranarray(a)
    if lay == "strided":
        big = np.full((a.shape[0] * 2, 4), -7.0)
        big[::2, 1:3] = a
        return big[::2, 1:3]
    if lay == "float32":
        return a.astype("float32")
    if lay == "int64":
        return np.nan_to_num(np.clip(a, -1e18, 1e18), nan=0.0).astype("int64")
    return a


def run_N(case):
    from odc.geo import roi as ROI  # pylint: disable=import-outside-toplevel

    fn = case[0]
    r = R(outcome=fn)
    if fn == "roi_from_points":
        _, pts, lay, pad, al = case
        xy = _layout(PTS_N[pts], lay)
        base = xy.base.copy() if xy.base is not None else None
        before = xy.copy()
        shape = [9, 8]
        got1 = ROI.roi_from_points(xy, shape, pad, align=al)
        same_bits = xy.tobytes() == before.tobytes() and xy.dtype == before.dtype and (base is None or xy.base.tobytes() == base.tobytes())
        got2 = ROI.roi_from_points(xy, shape, pad, align=al)
        fresh = ROI.roi_from_points(np.array(before, dtype="float64", order="C"), (9, 8), pad, align=al)
        key = f"{pts}:{lay}"
        if not same_bits:
            r.fail(f"roi_from_points:input-modified:{key}", f"{case}: array before {before.tolist()} after {xy.tolist()}")
        if shape != [9, 8]:
            r.fail(f"roi_from_points:shape-argument-modified:{key}", f"{case}: {shape}")
        if not got1 == got2 == fresh:
            r.fail(f"roi_from_points:second-call-differs:{key}", f"{case}: first {got1}, second {got2}, on a fresh float64 copy {fresh}")
        r.outcome = f"{fn}:{pts}:{lay}"
    elif fn in ("roi_boundary", "scaled_up_roi"):
        _, roi_t, a = case
        roi = tuple(slice(*t) for t in roi_t)
        shape = [6, 7]
        if fn == "roi_boundary":
            g1, g2 = ROI.roi_boundary(roi, a), ROI.roi_boundary(roi, a)
            same = g1.tobytes() == g2.tobytes()
            g1[:] = -1  # the caller may scribble on the result without affecting the next answer
            same = same and ROI.roi_boundary(roi, a).tobytes() == g2.tobytes()
        else:
            g1, g2 = ROI.scaled_up_roi(roi, a, shape), ROI.scaled_up_roi(roi, a, shape)
            same = g1 == g2
        if roi != tuple(slice(*t) for t in roi_t) or shape != [6, 7]:
            r.fail(f"{fn}:input-modified", f"{case}: roi {roi} shape {shape}")
        if not same:
            r.fail(f"{fn}:second-call-differs", f"{case}: {g1} vs {g2}")
    else:
        pair = case[1]
        src, dst, _, _ = _pair_H(PAIRS_H[pair])
        snap = lambda g: (tuple(g.shape), affine6(g.transform), str(g.crs))  # noqa: E731
        b_src, b_dst = snap(src), snap(dst)
        i1 = _snapshot(OV.compute_reproject_roi(src, dst), src, dst)
        i2 = _snapshot(OV.compute_reproject_roi(src, dst), src, dst)
        if (snap(src), snap(dst)) != (b_src, b_dst):
            r.fail(f"compute_reproject_roi:input-modified:{pair}", f"{case}: {b_src},{b_dst} -> {snap(src)},{snap(dst)}")
        if i1 != i2:
            r.fail(f"compute_reproject_roi:second-call-differs:{pair}", f"{case}: {i1} vs {i2}")
    return r


# =================================================================================================
# space GCP: control-point based rasters (compute_reproject_roi accepts any GeoBoxBase)
# =================================================================================================
# Control points are generated from an exact affine, so that the harness knows the pixel<->world map without using the
# library's polynomial fit; "crop" is a derived view (box[roi]) that shares the mapping object with its parent.
PAIRS_GCP = PAIRS + [(32633, 32633, "utm33"), (4326, 4326, "world")]
WHICH_GCP = ("src-gcp", "dst-gcp", "both-gcp", "src-gcp-crop", "dst-gcp-crop")


def _gcp_box(shape, A, epsg, crop):
    from odc.geo.gcp import GCPGeoBox, GCPMapping  # pylint: disable=import-outside-toplevel

    ny, nx = shape
    if crop:  # parent grows by (3, 2) pixels on the top/left and (1, 4) on the bottom/right; the view cuts that off again
        A = A * Affine.translation(-2, -3)
        pny, pnx = ny + 4, nx + 6
    else:
        pny, pnx = ny, nx
    pix = np.asarray([(x, y) for x in np.linspace(0, pnx, 5) for y in np.linspace(0, pny, 5)], dtype="float64")
    wld = np.asarray([A * (x, y) for x, y in pix], dtype="float64")
    box = GCPGeoBox((pny, pnx), GCPMapping(pix, wld, f"EPSG:{epsg}"))
    return box[3:3 + ny, 2:2 + nx] if crop else box


def gen_GCP(thorough):
    for es, ed, region in PAIRS_GCP:
        for loc in ((0, 3) if thorough else (0,)):
            for kname in ("third", "one", "three"):
                for pname in (list(PLACE_B) if thorough else ("contained", "corner", "apart-right")):
                    for which in WHICH_GCP:
                        for pad in (None, 0):
                            yield (es, ed, region, loc, kname, pname, which, pad)


def run_GCP(case):
    es, ed, region, loc, kname, pname, which, pad = case
    (lon, lat) = REGIONS[region][loc]
    sA, dA, dshape = build_B(es, ed, lon, lat, 1000.0, kname, pname, "north-up")
    crop = which.endswith("crop")
    src = _gcp_box(SRC_B, sA, es, crop) if which.startswith(("src", "both")) else GeoBox(SRC_B, sA, f"EPSG:{es}")
    dst = _gcp_box(dshape, dA, ed, crop) if which.startswith(("dst", "both")) else GeoBox(dshape, dA, f"EPSG:{ed}")
    kw = {} if pad is None else {"padding": pad}
    info = OV.compute_reproject_roi(src, dst, **kw)
    sA6, dA6 = affine6(sA), affine6(dA)
    xx, yy = centres(dshape)
    SX, SY = dst_to_src(sA6, dA6, es, ed, xx, yy)
    exp = None
    if _roi_ok(info.roi_dst) and not _area0(info.roi_dst):
        cy_ = (info.roi_dst[0].start + info.roi_dst[0].stop) / 2
        cx_ = (info.roi_dst[1].start + info.roi_dst[1].stop) / 2
        px, py = dst_to_src(sA6, dA6, es, ed, [cx_ + 1, cx_ - 1, cx_, cx_], [cy_, cy_, cy_ + 1, cy_ - 1])
        c0 = ((px[0] - px[1]) / 2, (py[0] - py[1]) / 2)
        c1 = ((px[2] - px[3]) / 2, (py[2] - py[3]) / 2)
        n0 = math.hypot(*c0)
        exp = (n0, abs(c0[0] * c1[1] - c0[1] * c1[0]) / n0)
    bx, by = dst_to_src(sA6, dA6, es, ed, *_boundary(dshape))
    nsy, nsx = SRC_B
    must_empty = bool(np.isfinite(bx).all() and np.isfinite(by).all()
                      and max(-bx.max(), bx.min() - nsx, -by.max(), by.min() - nsy) > _peff(pad) + 0.01)
    tag = f"gcp:{which}:{'same-crs' if es == ed else 'cross-crs'}:pad={pad}"
    what = (f"src {SRC_B} Affine{tuple(sA6)} EPSG:{es}; dst {dshape} Affine{tuple(dA6)} EPSG:{ed}; {which}: GCPGeoBox from a 5x5 grid of "
            f"control points generated by that affine{' (parent grown by 4x6 px, then cropped back with [3:, 2:])' if crop else ''}; "
            f"compute_reproject_roi(src, dst, {kw}) [{region} {lon},{lat} k={kname} place={pname}]")
    r = R()
    n_need = judge(r, tag, what, info, SRC_B, dshape, SX, SY, must_empty, exp, 1e-3)
    check_transform(r, tag, what, info, dshape, SX, SY)
    r.outcome = f"gcp:{which}:{es}>{ed}:{_cover(info, dshape, n_need)}"
    r.nontrivial = n_need > 0 or must_empty
    return r


# =================================================================================================
def slices(tier):
    th = tier == "thorough"
    s_all = (0, 1, 2)
    dq = DST_A[:1]
    d2 = DST_A[:2] if th else dq
    ym = "full" if th else ("A", -3, -2, 0, "N")  # multiples of 2 and 3 so that the shrinking paste path overlaps in y
    Y4 = ("A", -1, 1, "N")
    M4 = (0, 1, 2, 3)
    out = [
        e1.Slice("axis", gen_axis, run_axis,
                 "compute_axis_overlap: Ns,Nd in 1..6 x 11 scales x t in quarter steps of [-10,10] + k+-0.01, k+-1e-9"),
        e1.Slice("A-tight-int", lambda: _gen_A(s_all, d2, SC_INT, M4, (0,), SUB_FULL, TIGHT, ym), run_A,
                 "same CRS, no rotation, integer-like scales, 12 sub-pixel shifts, padding in {None,0}, no align: paste candidates"),
        e1.Slice("A-tight-frac", lambda: _gen_A(s_all, d2, SC_ANISO + SC_FRAC, M4, (0,), SUB_MID, TIGHT, "full" if th else Y4), run_A,
                 "same CRS, no rotation, anisotropic and fractional scales, padding in {None,0}, no align"),
        e1.Slice("A-padded", lambda: _gen_A(s_all, DST_A if th else dq, SC_INT + SC_ANISO + SC_FRAC if th else SC_PADDED, M4, (0,),
                                            SUB_MID if th else SUB_FEW, PADDED, Y4), run_A,
                 "same CRS, no rotation, padding in {None,0,1,3} x align in {None,2,4} (minus the two tight pairs)"),
        e1.Slice("A-rot", lambda: _gen_A(s_all, d2, SC_ROT, M4, (15, 90, -30) if th else (15, 90), (0.0, 0.3),
                                         TIGHT + PADDED if th else PADAL_ROT, Y4), run_A,
                 "same CRS, destination rotated about its footprint, padding/align pairs"),
        e1.Slice("A-align0", lambda: _gen_A(s_all, dq, SC_ROT, (0, 3), (0, 15) if th else (0,), SUB_FEW, ALIGN0, Y4), run_A,
                 "same CRS, align=0 (accepted by compute_reproject_roi as 'no alignment': `align in (None, 0)`)"),
        e1.Slice("A-options", lambda: gen_O(th), run_A,
                 "same CRS: padding {None,0,1,3} x align {None,0,1,2,4} on 9 relations reaching the paste and the sampled path; explicit "
                 "ttol/stol (0, 0.2 / 0.01) and numpy-integer options on the default / all-zero pairs; every x shift"),
        e1.Slice("A-windows", lambda: gen_W(th), run_A,
                 "same CRS, source 23x37: scales n(1+-tol f), n+-tol f (n in 1,2,3,4,8; f in .9,.999,1.001,1.1; tol 1e-3), (1/n)(1+-tol f), "
                 "just below 1, 1/1024, 4.5e-6; shifts in whole overview pixels: read_shrink and paste windows"),
        e1.Slice("A-pixels", lambda: gen_P(th), run_A,
                 "same CRS, 4.5e-6 degree pixels and 1e5 x 2.5e5 m pixels, origins off whole numbers; rotations 0/15/180"),
        e1.Slice("B-local", lambda: _gen_B("B", range(5), list(PLACE_B), PADAL_B + ([(0, 2), (3, None)] if th else []),
                                           ("north-up", "dst-rot", "src-yup") if th else ("north-up",)), run_B,
                 "14 ordered CRS pairs x 5 locations x 3 scale classes x 10 placements; 1 km ground pixels, rasters <= 48x48"),
        e1.Slice("B-continental", lambda: _gen_B("C", (0,), list(PLACE_B)[:6], [(None, None), (0, None), (1, None)],
                                                 ("north-up", "dst-rot") if th else ("north-up",)), run_B,
                 "same pairs, one large-extent configuration per region (10-140 km pixels, destination up to 48x48, 6 overlapping placements): boundary curvature"),
        e1.Slice("B-canvas", gen_canvas, run_canvas,
                 "48x96 canvas (lon/lat, Mercator, LAEA over tens of degrees) vs a 32x40 raster in another CRS covering its middle / "
                 "bottom / right / top-left / beyond the right edge / everything, both directions: overlap off the origin, varying scale"),
        e1.Slice("B-curvature", lambda: gen_curv(th), run_curv,
                 "600-1000 px rasters in LAEA / Albers / UTM far from the meridian / Mercator vs lon/lat over the same window, both "
                 "directions: edges bulge by several pixels between five boundary samples"),
        e1.Slice("B-sliver", lambda: gen_sliver(th), run_sliver,
                 "2000x3000 raster C (lon/lat, Mercator, Albers, LAEA, UTM) and a raster in another CRS that reaches 0.6 .. 10.4 of its "
                 "pixels beyond the outermost point of one curved edge of C (or stays 0.4 / 3 px short of it): overlap is a thin lens; "
                 "apex of the edge at k/32 of its length (window slid along the edge, or the other raster turned parallel to the edge "
                 "at that point), C as source and as destination; brute force over the destination window that can need data"),
        e1.Slice("B-ratio", lambda: gen_ratio(th), run_ratio,
                 "400x400 raster K whose top / bottom edge is curved in the plane of a raster F with pixels 1/3, 1/10, 1/17 of K's "
                 "that contains the edge (F up to 1500 x 7500), K slid so that the apex is at k/32 of the edge, up- and down-sampling"),
        e1.Slice("G-overhang", gen_G, run_G,
                 "lon/lat rasters (2.5/5/10 deg, <= 48x96) overhanging the poles and/or +-180 by half a pixel or several, as source "
                 "and as destination, against world rasters in EPSG:4087, 6933, 8857, Mollweide, 3857: the documented lon/lat clamp"),
        e1.Slice("E-encodings", gen_E, run_E,
                 "UTM33 given as EPSG:n / epsg:n / int / WKT / PROJJSON / pyproj / odc object / proj4 without code, all ordered pairs; "
                 "each against a WKT with an edited central meridian that still carries ID[EPSG,32633]; EPSG:4326 vs OGC:CRS84; "
                 "numpy / list shapes, int and -0.0 affine terms"),
        e1.Slice("N-no-mutation", gen_N, run_N,
                 "roi_from_points (C / Fortran / strided / float32 / int64 arrays, nan/inf rows, |v| up to 1e300), roi_boundary, "
                 "scaled_up_roi, compute_reproject_roi: arguments unchanged, second call equal to the first and to a fresh copy"),
        e1.Slice("GCP", lambda: gen_GCP(th), run_GCP,
                 "control-point rasters (GCPGeoBox from exact-affine GCPs, also as a cropped view of a larger parent) as source, "
                 "destination or both, against the space-B pairs plus two same-CRS pairs"),
        e1.Slice("long-rasters", lambda: gen_L(th), run_L,
                 "same CRS, shapes (16,2000), (2000,16), (2000,2000): rotation +-0.05/+-0.03/0.01 deg about a corner and about the "
                 "centre, shear 9e-4 in x / y, scale 1+-9e-4 and 2+-9e-4, x whole-pixel and +-4e-4 px shifts x 6 placements (same extent, "
                 "50 px overhang on each side / all sides) x {default, padding=0 align=0}; vectorised brute force over all pixels "
                 "(quick: 4 relations, whole-pixel shifts and 3 placements only for the 2000x2000 shape)"),
        e1.Slice("H-history", lambda: gen_H(3 if th else 2), run_H,
                 "8 target pairs x every sequence of <= 2 (thorough 3) of 20 interfering public calls (get_scale_at_point with r in "
                 "{None,0,0.5,16,1e3} on the same/another transform, plans of other pairs, native_pix_transform, out-of-range "
                 "GbxPointTransform calls, lazy properties read / crops and zooms planned / other plans on the SAME instances; "
                 "140 live CRS objects with transformers) between computations of the same plan on the same and on fresh instances: "
                 "identical result + state-independent clauses"),
    ]
    return out


def main(ctx):
    ctx.rule = (
        "complete Cartesian products (unions of products for the shift range, which depends on footprint size and padding); "
        "a case is non-trivial when at least one destination pixel needs source data or the emptiness clause applies; "
        "distinct by (slice, case) hash"
    )
    ctx.bounds = {
        "axis": {"Ns,Nd": "1..6", "s": AX_S, "t": "k/4 in [-10,10], k+-0.01, k+-1e-9 for k in -7..7"},
        "A": {"src": [s[0] for s in SRC_A], "dst": DST_A, "scales_int": SC_INT, "scales_aniso": SC_ANISO, "scales_frac": SC_FRAC, "sub_pixel": SUB_FULL,
              "mirror": "none,x,y,xy", "rotation": "0,15,90 (+ -30 thorough)", "padding": "None,0,1,3", "align": "None,0,2,4",
              "x_shift": "every integer from footprint fully left of the image by padding+1 to fully right by padding+1",
              "y_shift": "classes: apart above by padding+1, literal shifts (-3,-2,0 in A-tight-int; -1,1 elsewhere), touching below; "
                         "full integer range in the thorough tight slices"},
        "B": {"pairs": [f"{a}>{b}" for a, b, _ in PAIRS], "locations": REGIONS, "src_shape": SRC_B,
              "scale_classes": {k: list(v) for k, v in K_B.items()}, "placements": PLACE_B, "padding_align": PADAL_B,
              "continental": CONTINENTAL},
        "G": {"projections": list(PROJ_G), "geo_pixel_deg": RES_G, "lat_overhang": LAT_G, "lon_overhang": LON_G,
              "projected_pixel_deg_equiv": PDEG_G, "padding_align": PADAL_G, "directions": ["geo-src", "geo-dst"], "max_geo_raster": MAX_G},
        "A-options": {"relations": [list(map(str, x)) for x in REL_O], "padding_x_align": "{None,0,1,3} x {None,0,1,2,4}",
                      "extra_options": [dict(e) for e in EXTRA_O]},
        "A-windows": {"scales": WINDOWS, "source": SRC_A[5][0]},
        "A-pixels": {"sources": [SRC_A[3][1], SRC_A[4][1]], "rotations": "0,15,180"},
        "canvas": {"configs": {k: list(v) for k, v in CANVAS.items()}, "region_positions": REGION_POS},
        "curvature": {"configs": {k: list(v) for k, v in CURV.items()}, "sizes": "800 (quick) / 600, 1000 (thorough)"},
        "E": {"utm33_encodings": ENC_UTM + ("stale-id-wkt", "custom-tmerc17-no-code"), "grid_encodings": GRID_ENC, "relations": list(REL_E)},
        "N": {"points": {k: [list(map(str, q)) for q in v] for k, v in PTS_N.items()}, "layouts": LAYOUT_N},
        "GCP": {"which": WHICH_GCP, "control_points": "5x5 grid generated from an exact affine"},
        "L": {"shapes": SHAPES_L, "relations": list(REL_L), "shifts_px": SUB_L, "placements": {k: list(v) for k, v in PLACE_L.items()},
              "options": list(OPTS_L), "quick_2000x2000_relations": REL_L_QUICK_SQUARE},
        "H": {"pairs": {k: list(v) for k, v in PAIRS_H.items()}, "interfering_calls": list(CALLS_H), "max_sequence": "2 (quick) / 3 (thorough)",
              "other_pair": list(OTHER_H)},
        "sliver": {"configs": {k: list(v) for k, v in CFG_S.items()}, "curved_raster": C_SHAPE, "other_raster": P_SHAPES,
                   "depth_px": DEPTHS_S, "apex_position_32nds": "1..31 (quick: %s)" % (T32_QUICK,), "edges": EDGES,
                   "other_pixel_in_curved_pixels": "0.5 (both sizes), 2.0 (small)", "padding_align": "(None,None),(0,None) (+ (2,None),(None,16) thorough)"},
        "ratio": {"configs": {k: list(v) for k, v in CFG_R.items()}, "coarse_raster": K_SHAPE, "pixel_ratios": list(RATIOS),
                  "fine_raster": f"band of +-{F_MARGIN} px around the curved edge, at most {F_MAX_ROWS} rows, up to ~7500 columns",
                  "apex_position_32nds": "1..31 (1/17: even ones; quick: subsets of %s)" % (T32_QUICK,)},
        "max_raster": "2100x2100 (L); 2000x3000 (sliver); 1500x7500 (ratio); 48x48 (A, B); 48x96 geographic / 72x72 projected (G)", "eps_px": EPS,
    }
    ctx.assumptions = [
        "a pyproj.Transformer built in the harness from EPSG codes (always_xy) is the reference for CRS maths",
        "destination centres within 1e-6 px of the source image boundary are neither required nor forbidden",
        "padding=None means a margin of 1 source pixel for the emptiness clause (documented default outside the exact paste path)",
        "separation is measured per axis in the source pixel plane between the source image and the axis-aligned envelope of the "
        "destination footprint (that is what a per-axis pixel padding can bridge); with align=a the high side may be rounded up to "
        "the next multiple of a, which is added to the margin",
        "per-axis scale is the code's documented R*W*S decomposition: |first column| and |det|/|first column| of the local "
        "destination->source Jacobian; same-CRS cases are built without shear so this equals the column norms",
        "non-linear scale is compared at the centre of the reported roi_dst (the 'overlap'); nothing is compared when it is empty",
        "only an upper bound on read_shrink is stated by the property; no lower bound is demanded",
        "harness tolerances are in pixel units (1e-6 px for locations and transform.back, 1e-9 relative for linear scale), never "
        "scaled by the coordinate magnitude; the harness subtracts the affine origin before dividing by the pixel size, so with the "
        "smallest pixel enumerated (4.5e-6 deg at 147 deg) its own rounding is ~1e-8 px",
        "slices B-sliver / B-ratio judge the destination pixels inside the bounding box (+2 px) of the source image's boundary "
        "(one sample per source pixel, harness transformer) in the destination pixel plane: the image of the source rectangle under "
        "the continuous one-to-one map is bounded by the image of its boundary, so no other destination centre can map inside the "
        "source; the emptiness clause uses the envelope of the destination boundary sampled once per pixel (margin 0.01 px)",
        "control-point rasters are generated from an exact affine so that the harness mapping does not depend on the library's "
        "polynomial fit; non-affine GCP sets are not enumerated",
        "histories (slice H): a plan computed twice in one case with interfering public calls in between must be identical "
        "(differential, exact); because E1 workers are long-lived, both plans are additionally judged by the state-independent "
        "clauses, with scale2 compared at 1e-6 relative against central differences (h = 1 px, the documented radius) of the "
        "harness mapping; interfering calls may raise (e.g. r=0 is degenerate) - their own results are not judged",
        "overhanging lon/lat rasters (slice G): the code documents that coordinates of a geographic raster are clamped to "
        "lon [-180,180], lat [-90,90] so that edges reaching outside can still be converted; the oracle applies the same clamp in "
        "its own mapping and judges every destination centre that is a place on earth (lon/lat in range; projected destination: "
        "inverse projection finite and in range); centres outside the range are neither required nor forbidden; projected rasters "
        "are inset 0.1% from the projection's world rectangle (no clamp is documented for projected coordinates)",
    ]
    sl = slices(ctx.tier)
    if ctx.only:
        sl = [s for s in sl if any(s.name.startswith(o) for o in ctx.only)]
    e1.run_slices(ctx, sl)
    ctx.extra.update(observations={k: int(v) for k, v in ctx.counters.items()})


def replay(slice_name, case, tier):
    return e1.replay(slices(tier), slice_name, case).fails
