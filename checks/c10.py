"""C10 - the paste shortcut is pixel-identical to a nearest-neighbour warp.

E1: complete products over same-CRS GeoBox pairs whose dst->src pixel transform is *constructed*
from its parameters

    x_src = k*(1+e) * m * x_dst  +  k*(T + r)          (per axis; optionally rotated / sheared)

with integer scale k, scale deviation e on either side of ``stol``, mirroring m = +-1, whole-pixel
shift T (every relative placement), sub-pixel residue r on either side of ``ttol`` (in destination
= overview pixel units, which is the unit the code documents).

Oracles (none of them looks at the code under test):
* eligibility: ``paste_ok`` may be reported ONLY when the construction parameters say: same CRS,
  no rotation/shear, the same integer scale on both axes within stol, residue within ttol on both
  axes.  (The property says "reported only for"; the converse - eligible but not reported - is
  recorded as an outcome/counter, never as a violation.)
* ``paste_ok and read_shrink == 1``: nodata-filled destination, ``src[roi_src]`` (flipped on the
  axes that were constructed mirrored) copied into ``dst[roi_dst]`` with plain numpy semantics
  must equal ``rio_reproject(src, dst, ..., "nearest", dst_nodata=nodata)`` (GDAL) exactly, for
  every dtype incl. the int8/bool detours.
* ``paste_ok and read_shrink > 1``: ``roi_src == read_shrink * image(roi_dst)`` where ``image`` is
  the constructed whole-pixel overview-space map ``m*x + T`` - exactly, *without* clipping to the
  source image (the statement says "exactly ... scaled by that factor"; the code does not clip).
* planner options: ``padding`` in {None,0,1,2} x ``align`` in {None,0,1,2,4} is a full dimension of the
  ``paste-options`` slice.  The oracle is the same: whatever options the plan was requested with, a plan
  that says ``paste_ok`` (and ``read_shrink == 1``) must be copyable (``src[roi_src]`` and ``dst[roi_dst]`` of
  equal shape) and the copy must equal the nearest-neighbour warp; with ``read_shrink > 1`` the scaled-ROI
  relation must hold.  A plan that says ``paste_ok=False`` claims nothing here.
* tolerance-window edges (``window-edges`` slice): scales ``n*(1 +- f*stol)``, ``n +- f*stol`` (n = 1,2,3) and the
  reciprocal forms ``(1/n)*(1 +- f*stol)``, ``1/n +- f*stol`` (n = 2,3), residues ``+-f*ttol``, for
  f in {0.5, 0.9, 0.999, 0.9995, 1.0005, 1.001, 1.1} - both sides of both edges of every window - on source
  axes of 13, 14, 64, 1000 (and 2000) pixels with the destination overhanging the far edge / the near edge /
  both / contained.  Eligibility is only demanded where the absolute and the relative reading of ``stol`` agree.
  The image clause is the literal one; a finding key carries ``drift-ge-half-px`` when the construction itself
  moves some destination pixel centre by >= 0.45 source pixel (|s/n-1| * dst length + |residue|): there the
  tolerance the caller asked for is larger than what pixel identity can absorb.
* coordinate systems without an EPSG code (``crs-pairs`` slice): the complete product source CRS x destination CRS over
  custom LAEA (two centres) / sinusoidal / Albers proj strings, ESRI:54009, ESRI:54008, the WKT spelling of a custom and
  of an ESRI CRS and two EPSG codes (and, on a degree grid, over custom sphere / Bessel longlat, 4326, 4283), on pixel grids that line up exactly (scale 1 and 2, whole-pixel shift, residue within
  ttol), x which of the two CRS objects had ``.epsg`` read before planning (the lazily resolved EPSG slot is state of the
  CRS object).  Oracle: two CRSs are the same only when they were built from the same definition (or its WKT spelling);
  every other pair is "another CRS": paste must not be reported.  Same-definition pairs go through all image clauses.
* call histories (``call-history`` slice): every sequence of 0, 1 and 2 prior public calls - ``rio_reproject`` /
  ``xr_reproject`` with unusual keyword options (init_dest_nodata, INIT_DEST, XSCALE/YSCALE, src/dst nodata, threads,
  memory limit, tolerance, ...) and ``compute_reproject_roi`` with unusual planner options - before the standard
  plan + paste-vs-nearest-warp comparison.  Direct oracle: all clauses above hold before and after the history (so
  state left behind in a long-lived worker by an earlier case cannot hide a defect); differential oracle: plan and
  warped image are identical to those obtained for the same pair before the history (judged when the clauses held
  before the history, i.e. relative to a sound baseline).
* concurrent calls (``warp-threads`` slice, E3a / vf.sched): two threads each make the nearest-warp call of the image
  clause (pixel types int8 / bool / uint8 / float32 per thread, destinations on the same grid / of the same shape on
  another grid / of another shape, different source images, module state of warp.py as imported or after both calls were
  made once); every line of odc/geo/warp.py is a scheduling point, all schedules within preemption bound 2 (thorough: 3
  for the three int8/bool pairs) are executed.  Oracle: each thread's image equals the image of the same call made alone (computed
  once outside the scheduler) and the pasted image.
"""
from __future__ import annotations

import itertools

import numpy as np
from affine import Affine

from vf import e1
from vf.core import R

PROPERTY = "C10"
LEVEL = "exploration"

from odc.geo.crs import CRS  # noqa: E402
from odc.geo.geobox import GeoBox  # noqa: E402
from odc.geo.overlap import compute_reproject_roi  # noqa: E402
from odc.geo.warp import rio_reproject  # noqa: E402

# ---------------------------------------------------------------------------------------------
# alphabets
# ---------------------------------------------------------------------------------------------
SRC_SHAPE = (6, 7)  # (ny, nx): 6 is a multiple of 2 and 3, 7 is of neither

GRIDS = {
    # exact (integer / dyadic entries)
    "D-utm10": (Affine(10.0, 0.0, 500000.0, 0.0, -10.0, 6000000.0), "EPSG:32633"),
    "D-southup": (Affine(0.25, 0.0, -3.5, 0.0, 0.25, 1.75), "EPSG:3857"),
    # realistic
    "R-deg0.1": (Affine(0.1, 0.0, 147.3, 0.0, -0.1, -35.7), "EPSG:4326"),
    "R-utm30": (Affine(30.0, 0.0, 523415.1, 0.0, -30.0, 6012345.7), "EPSG:32633"),
}
# dst CRS variants: "same" (same string), "wkt" (same CRS spelled as WKT), others = different CRS
OTHER_CRS = {"EPSG:32633": ("EPSG:32634", "EPSG:3857"), "EPSG:4326": ("EPSG:4283", "EPSG:3857"),
             "EPSG:3857": ("EPSG:3395", "EPSG:32633")}

# coordinate systems for the crs-pairs slice.  Different names = genuinely different coordinate systems (different
# projection method or different projection centre / ellipsoid); "wkt:<name>" = the same CRS spelled as WKT.
# Grid M-5km sits next to the natural origin of all the projected ones (x in [-100, -65] km, y in [45, 75] km).
CRS_DEFS = {
    "laea-a": "+proj=laea +lat_0=2 +lon_0=21 +x_0=0 +y_0=0 +datum=WGS84 +units=m +no_defs +type=crs",
    "laea-b": "+proj=laea +lat_0=-3 +lon_0=19 +x_0=0 +y_0=0 +datum=WGS84 +units=m +no_defs +type=crs",
    "sinu": "+proj=sinu +lon_0=20 +x_0=0 +y_0=0 +R=6371007.181 +units=m +no_defs +type=crs",
    "aea": "+proj=aea +lat_0=4 +lon_0=20 +lat_1=2 +lat_2=8 +x_0=0 +y_0=0 +datum=WGS84 +units=m +no_defs +type=crs",
    "moll": "ESRI:54009",
    "esri-sinu": "ESRI:54008",
    "3857": "EPSG:3857",
    "32633": "EPSG:32633",
    # geographic (grid G-0.1deg): a sphere, the Bessel ellipsoid, WGS84, GDA94
    "ll-sphere": "+proj=longlat +R=6371007.181 +no_defs +type=crs",
    "ll-bessel": "+proj=longlat +ellps=bessel +no_defs +type=crs",
    "4326": "EPSG:4326",
    "4283": "EPSG:4283",
}
CRS_NAMES_M = ("laea-a", "laea-b", "sinu", "aea", "moll", "esri-sinu", "3857", "32633", "wkt:laea-a", "wkt:moll")
CRS_NAMES_G = ("ll-sphere", "ll-bessel", "4326", "4283", "wkt:ll-sphere")
CRS_NOEPSG = ("laea-a", "laea-b", "sinu", "aea", "moll", "esri-sinu", "ll-sphere", "ll-bessel")
XGRIDS = {"M-5km": Affine(5000.0, 0.0, -100000.0, 0.0, -5000.0, 75000.0), "G-0.1deg": GRIDS["R-deg0.1"][0]}
assert set(n.split(":")[-1] for n in CRS_NAMES_M + CRS_NAMES_G) == set(CRS_DEFS)
EPSG_READ = ("fresh", "src", "dst", "src+dst")  # which CRS object had .epsg read before planning


_CRS_TEXT = {}
_CRS_READ = {}


def _fresh_crs(name, read=False):
    """a NEW CRS object; read=False: its lazily resolved EPSG slot is untouched; read=True: ``.epsg`` has been read (the
    database search behind it costs ~30 ms for a custom CRS, so it is done once per process and definition and the
    object is then duplicated with the copy constructor, which carries the resolved slot over)"""
    txt = _CRS_TEXT.get(name)
    if txt is None:
        txt = _CRS_TEXT[name] = CRS(CRS_DEFS[name[4:]]).to_wkt() if name.startswith("wkt:") else CRS_DEFS[name]
    if not read:
        return CRS(txt)
    c = _CRS_READ.get(name)
    if c is None:
        c = _CRS_READ[name] = CRS(txt)
        _ = c.epsg  # resolves (and stores) the EPSG code of this CRS object: None for the custom ones
    return CRS(c)


def crs_pair_class(sname, dname):
    a, b = (n.split(":")[-1] for n in (sname, dname))
    n = (a in CRS_NOEPSG) + (b in CRS_NOEPSG)
    return ("same-def" if a == b else "differ") + ":" + ("noepsg-both", "noepsg-one", "epsg-both")[2 - n]


# (ttol, stol); id 0 = the documented defaults, passed to the code by NOT passing them
TOLS = {0: (0.05, 1e-3), 1: (0.2, 1e-3), 2: (0.05, 1e-2), 3: (0.005, 1e-4)}

DSHAPES = ((5, 5), (8, 9), (3, 10), (1, 1))
MIRRORS = ((1, 1), (-1, 1), (1, -1), (-1, -1))  # (mx, my)
MIRROR_NAME = {(1, 1): "none", (-1, 1): "x", (1, -1): "y", (-1, -1): "xy"}

# residues: ("t", f) = f * ttol ; ("a", v) = v pixels.  Clearly inside / clearly outside.
RES_IN = (("t", 0.0), ("t", 0.9), ("t", -0.9))
RES_IN_MORE = (("t", 0.2), ("t", -0.2))
RES_OUT = (("t", 1.1), ("t", -1.1), ("t", 2.0), ("a", 0.3), ("a", -0.3), ("a", 0.5))
RES_EDGE = (("t", 0.98), ("t", -0.98), ("t", 1.02), ("t", -1.02))  # thorough only (2% = 1e-4 px >> rounding)

# scale deviation classes: absolute deviation from the integer k
#   inside : 0.5*stol            (inside both the absolute and the relative reading of stol)
#   outside: 1.5*k*stol          (outside both readings)
DEVS_IN = ("0", "+i", "-i")
DEVS_OUT = ("+o", "-o")

PADDINGS = (None, 0, 1, 2)
ALIGNS = (None, 0, 1, 2, 4)
OPTS = tuple(itertools.product(PADDINGS, ALIGNS))  # (padding, align); None = argument not passed

ROTS = ("rot0.5", "rot5", "rot-30", "rot90", "shear-x", "shear-y")

# rasters: 42 distinct values (except bool), none equal to the nodata value
_N = SRC_SHAPE[0] * SRC_SHAPE[1]
_I = np.arange(_N).reshape(SRC_SHAPE)
_YY, _XX = np.indices(SRC_SHAPE)
RASTERS = {
    # dtype: (array, nodata passed to the warp (None -> NaN for floats), fill of the expected image, junk)
    "uint8": ((_I * 5 + 3).astype("uint8"), 255, 255, 7),
    "int8": ((_I * 5 - 100).astype("int8"), -128, -128, 7),
    "bool": (((_XX * 3 + _YY * 5) % 7) < 3, 0, False, True),
    "int16": ((_I * 97 - 2000).astype("int16"), -9999, -9999, 7),
    "uint16": ((_I * 1500 + 7).astype("uint16"), 65535, 65535, 7),
    "int32": ((_I * 100003 - 2000000).astype("int32"), -99999999, -99999999, 7),
    "float32": ((_I * 1.25 - 20.5).astype("float32"), None, np.nan, 7),
    "float64": ((_I * 0.1 - 1.0).astype("float64"), -9999.0, -9999.0, 7),
}
DTYPES = tuple(RASTERS)
for _dt, (_a, _nd, _fill, _junk) in RASTERS.items():
    assert _a.dtype.name == _dt and _a.shape == SRC_SHAPE
    if _dt == "bool":
        assert _a.any() and not _a.all()
    else:
        assert len(set(_a.ravel().tolist())) == _N and _nd not in set(_a.ravel().tolist())

_CRS_CACHE = {}


def _crs(spec):
    c = _CRS_CACHE.get(spec)
    if c is None:
        if spec.startswith("wkt:"):
            c = CRS(CRS(spec[4:]).to_wkt())
        else:
            c = CRS(spec)
        _CRS_CACHE[spec] = c
    return c


# ---------------------------------------------------------------------------------------------
# case construction
# ---------------------------------------------------------------------------------------------
def residue(spec, ttol):
    kind, v = spec
    r = v * ttol if kind == "t" else v
    # harness sanity: the alphabet must stay clear of the tolerance and of the half-pixel wrap
    assert abs(r) <= 0.5 and (r == 0 or abs(abs(r) - ttol) >= 4e-4 * ttol), (spec, ttol)
    return r


EDGE_F = (0.5, 0.9, 0.999, 0.9995, 1.0005, 1.001, 1.1)


def scale_value(spec, stol):
    """-> (value, integer k or None, status): status True = within stol under both the absolute (|s-k| < stol) and the
    relative (|s/k-1| < stol) reading, False = outside under both, None = the readings disagree (nothing demanded).

    spec: (k, dev)            dev in "0", "+i", "-i", "+o", "-o"
          ("f", literal)      fractional literal
          ("m", n, sgn, f)    n * (1 + sgn*f*stol)          ("a", n, sgn, f)   n + sgn*f*stol
          ("rm", n, sgn, f)   (1/n) * (1 + sgn*f*stol)      ("ra", n, sgn, f)  1/n + sgn*f*stol      (fractional)
          ("e", n, rel)       n * (1 + rel)                 explicit relative deviation
    """
    kind = spec[0]
    if kind == "f":
        return float(spec[1]), None, False
    if isinstance(kind, int):
        k, dev = spec
        d = {"0": 0.0, "+i": 0.5 * stol, "-i": -0.5 * stol, "+o": 1.5 * k * stol, "-o": -1.5 * k * stol}[dev]
        return k + d, k, dev in DEVS_IN
    n = spec[1]
    if kind in ("rm", "ra"):
        d = spec[2] * spec[3] * stol
        return ((1.0 / n) * (1 + d) if kind == "rm" else 1.0 / n + d), None, False
    if kind == "m":
        v = n * (1 + spec[2] * spec[3] * stol)
    elif kind == "a":
        v = n + spec[2] * spec[3] * stol
    elif kind == "e":
        v = n * (1 + spec[2])
    else:
        raise ValueError(spec)
    dev_abs = abs(v - n)
    dev_rel = dev_abs / n
    if dev_abs <= stol * (1 - 4e-4):  # n >= 1: then the relative deviation is inside as well
        status = True
    elif dev_rel >= stol * (1 + 4e-4):  # then the absolute deviation is outside as well
        status = False
    else:
        status = None  # the readings disagree, or the value sits on the edge of one of them: nothing is demanded
    return v, n, status


_RAMPS = {}


def raster(dt, shape):
    """(array, nodata for the warp, fill of the expected image, junk the destination starts with)"""
    if tuple(shape) == SRC_SHAPE:
        return RASTERS[dt]
    assert dt == "int16", dt
    a = _RAMPS.get(shape)
    if a is None:
        n = shape[0] * shape[1]
        assert n <= 20000
        a = _RAMPS[shape] = (np.arange(n) - 30000).astype("int16").reshape(shape)  # distinct, all < nodata
    return a, -9999, -9999, 7


def build(case):
    """-> dict with geoboxes, predicted eligibility and the whole-pixel overview-space map."""
    grid, crsv, dshape, sxs, sys_, mirror, rot, shift, res, tol = case[:10]
    ttol, stol = TOLS[tol]
    xcrs = None
    if isinstance(grid, tuple):  # (<XGRIDS name>, <source CRS name>) with crsv = ("x", <destination CRS name>, <EPSG_READ>)
        assert crsv[0] == "x", case
        S, xcrs = XGRIDS[grid[0]], (grid[1], crsv[1], crsv[2])
    else:
        S, crs_s = GRIDS[grid]
    src_shape = tuple(case[12]) if len(case) > 12 else SRC_SHAPE
    ny, nx = dshape
    mx, my = mirror
    sx, kx, okx = scale_value(sxs, stol)
    sy, ky, oky = scale_value(sys_, stol)
    rx, ry = residue(res[0], ttol), residue(res[1], ttol)
    # whole-pixel shift in overview (= dst) pixels; for a mirrored axis T=0 means "dst covers [0, N) reversed"
    Tx = shift[0] + (nx if mx < 0 else 0)
    Ty = shift[1] + (ny if my < 0 else 0)
    # translation is expressed in units of the integer scale (the overview pixel); fractional literal: its own
    ux = kx if kx is not None else sx
    uy = ky if ky is not None else sy
    tx, ty = ux * (Tx + rx), uy * (Ty + ry)
    if rot == "none":
        A = Affine(mx * sx, 0.0, tx, 0.0, my * sy, ty)
    elif rot.startswith("rot"):
        A = Affine.translation(tx, ty) * Affine.rotation(float(rot[3:])) * Affine.scale(mx * sx, my * sy)
    elif rot == "shear-x":
        A = Affine(mx * sx, 0.01 * sy, tx, 0.0, my * sy, ty)
    elif rot == "shear-y":
        A = Affine(mx * sx, 0.0, tx, 0.01 * sx, my * sy, ty)
    else:
        raise ValueError(rot)

    if xcrs is not None:
        same_crs = xcrs[0].split(":")[-1] == xcrs[1].split(":")[-1]  # same definition (or its WKT spelling)
    elif crsv == "same":
        crs_d, same_crs = crs_s, True
    elif crsv == "wkt":
        crs_d, same_crs = "wkt:" + crs_s, True
    else:
        crs_d, same_crs = crsv, False

    # predicted eligibility - from the construction parameters only
    if not same_crs:
        reason = "cross-crs"
    elif rot != "none":
        reason = "rotation" if rot.startswith("rot") else "shear"
    elif kx is None or ky is None:
        reason = "scale-fractional"
    elif kx != ky:
        reason = "scale-anisotropic"
    elif okx is False or oky is False:
        reason = "scale-off-integer"
    elif not (abs(rx) < ttol and abs(ry) < ttol):
        reason = "subpixel-" + ("x" if abs(rx) >= ttol else "") + ("y" if abs(ry) >= ttol else "")
    else:
        reason = None

    # largest displacement of a destination pixel centre (in overview pixels) that the construction itself contains
    drift = 0.0
    if reason is None:
        drift = max(abs(sx / kx - 1) * nx + abs(rx), abs(sy / ky - 1) * ny + abs(ry))
    if xcrs is None:
        src_g = GeoBox(src_shape, S, _crs(crs_s))
        dst_g = GeoBox(dshape, S * A, _crs(crs_d))
        crscls = None
    else:
        assert xcrs[2] in EPSG_READ
        rd = xcrs[2].split("+")
        src_g = GeoBox(src_shape, S, _fresh_crs(xcrs[0], "src" in rd))
        dst_g = GeoBox(dshape, S * A, _fresh_crs(xcrs[1], "dst" in rd))
        assert src_g.crs is not dst_g.crs
        crscls = crs_pair_class(xcrs[0], xcrs[1])
    kw = {} if tol == 0 else {"ttol": ttol, "stol": stol}
    optcls = None
    if len(case) > 11 and case[11] != (None, None):
        pad, al = case[11]
        if pad is not None:
            kw["padding"] = pad
        if al is not None:
            kw["align"] = al
        optcls = f"pad{pad}-align{al}"
    return dict(src_g=src_g, dst_g=dst_g, A=A, kw=kw, reason=reason, mx=mx, my=my, Tx=Tx, Ty=Ty,
                k=kx if (kx is not None and kx == ky) else None, ttol=ttol, stol=stol, rot=rot,
                exact=(res == (("t", 0.0), ("t", 0.0)) and sxs[1] == "0" and sys_[1] == "0"),
                scale_dev=(sxs[1] != "0" or sys_[1] != "0"), optcls=optcls, src_shape=src_shape,
                ambiguous=(reason is None and (okx is None or oky is None)), drift=drift, crscls=crscls,
                epsg_read=None if xcrs is None else xcrs[2])


def _sl(roi):
    return tuple((s.start, s.stop) for s in roi)


def _placement(roi_dst, dshape):
    (y0, y1), (x0, x1) = _sl(roi_dst)
    if y1 <= y0 or x1 <= x0:
        return "disjoint"
    if (y0, y1, x0, x1) == (0, dshape[0], 0, dshape[1]):
        return "dst-covered"
    return "partial"


def describe(case, b, rr=None):
    s = (f"src=GeoBox({b['src_shape']}, {tuple(b['src_g'].transform)[:6]}, {b['src_g'].crs!s:.20}) "
         f"dst=GeoBox({b['dst_g'].shape.yx}, src.affine*Affine{tuple(b['A'])[:6]}) kwargs={b['kw']} case={case!r}")
    if b["crscls"] is not None:
        s += (f" [src crs = CRS_DEFS[{case[0][1]!r}], dst crs = CRS_DEFS[{case[1][1]!r}] ('wkt:' = spelled as WKT), "
              f".epsg read beforehand on: {b['epsg_read']}]")
    if rr is not None:
        s += f" -> paste_ok={rr.paste_ok} read_shrink={rr.read_shrink} roi_src={_sl(rr.roi_src)} roi_dst={_sl(rr.roi_dst)}"
    return s


# ---------------------------------------------------------------------------------------------
# the judge (shared by all slices)
# ---------------------------------------------------------------------------------------------
def run_case(case, probe=None):
    """probe: optional dict that receives the plan ("plan") and the warped image ("warp") for differential oracles"""
    dt = case[10]
    dshape = case[2]
    b = build(case)
    rr = compute_reproject_roi(b["src_g"], b["dst_g"], **b["kw"])
    if probe is not None:
        probe["plan"] = (bool(rr.paste_ok), rr.read_shrink, _sl(rr.roi_src), _sl(rr.roi_dst))
        probe["desc"] = describe(case, b, rr)
    reason = b["reason"]
    mname = MIRROR_NAME[(b["mx"], b["my"])]
    paste = bool(rr.paste_ok)
    rs = rr.read_shrink
    place = _placement(rr.roi_dst, dshape)
    optcls = b["optcls"]
    osfx = "" if optcls is None else ":" + optcls
    ogrp = ""
    if len(case) > 12:
        ogrp = "|" + edge_class(case)
    elif optcls is not None:
        pad, al = case[11]
        ogrp = "|opt-" + ("+".join(n for n, v in (("padded", pad), ("aligned", al)) if v) or "tight")
    elif b["crscls"] is not None:
        ogrp = "|crs-" + b["crscls"]
    r = R(
        outcome=f"{'paste' if paste else 'no-paste'}|{reason or ('ambiguous' if b['ambiguous'] else 'eligible')}|shrink{min(int(rs), 4)}|{place}{ogrp}",
        nontrivial=(reason is not None) or (paste and place != "disjoint"),
    )
    if not paste:
        if reason is None and not b["ambiguous"]:
            r.counts = {("paste-not-offered-under-padding-or-align" if ogrp.startswith("|opt-") and ogrp != "|opt-tight"
                         else "eligible-but-not-reported"): 1}
        return r

    # ---- clause 3: reported only for eligible pairs -------------------------------------------
    if reason is not None:
        kcls = f"k{b['k']}" if b["k"] is not None else "k-"
        xsfx = "" if b["crscls"] is None else f":{b['crscls']}:epsg-read-{b['epsg_read']}"
        r.fail(f"paste_ok:reported-for:{reason}:{kcls}:tol{case[9]}{xsfx}",
               f"paste_ok=True although the pair is not paste-able ({reason}; ttol={b['ttol']} stol={b['stol']}): "
               + describe(case, b, rr))

    if reason in ("cross-crs", "rotation", "shear"):
        return r  # "mirrored where the grids are mirrored" has no meaning here; already reported

    # ---- clause 1: paste == nearest-neighbour warp when read_shrink == 1 -------------------------
    if rs == 1:
        src, nodata, fill, junk = raster(dt, b["src_shape"])
        expect = np.full(dshape, fill, dtype=src.dtype)
        block = src[rr.roi_src]
        if b["my"] < 0:
            block = block[::-1, :]
        if b["mx"] < 0:
            block = block[:, ::-1]
        cls = "exact" if b["exact"] else ("scale-dev" if b["scale_dev"] else "residue")
        dsfx = ":drift-ge-half-px" if b["drift"] >= 0.45 else ""
        if block.shape != expect[rr.roi_dst].shape:
            r.fail(f"paste:shape-mismatch:mirror-{mname}:{cls}" if optcls is None else
                   f"paste:roi-shape-mismatch:mirror-{mname}:{optcls}",
                   f"src[roi_src].shape={block.shape} != dst[roi_dst].shape={expect[rr.roi_dst].shape}: "
                   + describe(case, b, rr))
            return r
        expect[rr.roi_dst] = block
        dst = np.full(dshape, junk, dtype=src.dtype)
        got = rio_reproject(src, dst, b["src_g"], b["dst_g"], resampling="nearest", dst_nodata=nodata)
        r.counts = {"warps": 1}
        if probe is not None:
            probe["warp"] = got
        same = got.dtype == expect.dtype and got.shape == expect.shape and (
            np.array_equal(got, expect, equal_nan=True) if got.dtype.kind == "f" else np.array_equal(got, expect))
        if not same:
            nbad = int((~((got == expect) | ((got != got) & (expect != expect)))).sum()) if got.shape == expect.shape else -1
            big = expect.size > 200
            r.fail(f"paste!=warp:{dt}:mirror-{mname}:{cls}:{place}{osfx}{dsfx}",
                   f"{nbad} of {expect.size} pixels differ (constructed drift {b['drift']:.4f} px); "
                   + ("" if big else f"paste={expect.tolist()} warp={got.tolist()}: ") + describe(case, b, rr))
        return r

    # ---- clause 2: read_shrink > 1 -> roi_src == roi_dst scaled by read_shrink ---------------------
    if reason is not None:
        return r  # the whole-pixel overview map is only defined for eligible pairs; already reported
    (dy0, dy1), (dx0, dx1) = _sl(rr.roi_dst)
    (sy0, sy1), (sx0, sx1) = _sl(rr.roi_src)
    dst_empty = dy1 <= dy0 or dx1 <= dx0
    src_empty = sy1 <= sy0 or sx1 <= sx0
    if dst_empty or src_empty:
        if dst_empty != src_empty:
            r.fail(f"shrink-roi:empty-vs-nonempty:mirror-{mname}{osfx}",
                   "one of roi_src / roi_dst is empty, the other is not: " + describe(case, b, rr))
        return r

    def image(d0, d1, m, T):
        return (rs * (d0 + T), rs * (d1 + T)) if m > 0 else (rs * (T - d1), rs * (T - d0))

    want = (image(dy0, dy1, b["my"], b["Ty"]), image(dx0, dx1, b["mx"], b["Tx"]))
    got = ((sy0, sy1), (sx0, sx1))
    if got != want:
        shp_ok = (sy1 - sy0, sx1 - sx0) == (rs * (dy1 - dy0), rs * (dx1 - dx0))
        SH = b["src_shape"]
        over = sy1 > SH[0] or sx1 > SH[1] or want[0][1] > SH[0] or want[1][1] > SH[1]
        r.fail(f"shrink-roi:{'position' if shp_ok else 'shape'}:mirror-{mname}:"
               f"{'past-src-edge' if over else 'inside-src'}{osfx}",
               f"roi_src={got} but roi_dst scaled by read_shrink={rs} (whole-pixel map x_ov = m*x_dst + T, "
               f"T=({b['Tx']},{b['Ty']})) is {want}: " + describe(case, b, rr))
    elif sy1 > b["src_shape"][0] or sx1 > b["src_shape"][1]:
        r.counts = {"shrink-roi-extends-past-source": 1}
    if b["k"] is not None and rs != b["k"]:
        r.counts = dict(r.counts, **{"read_shrink-differs-from-k": 1})
    return r


# ---------------------------------------------------------------------------------------------
# call histories
# ---------------------------------------------------------------------------------------------
# keyword option sets of a prior warp call (all are accepted by rasterio.warp.reproject / GDAL)
OPTSETS = {
    "plain": {},
    "init_dest_nodata=False": {"init_dest_nodata": False},  # the mosaicking idiom
    "init_dest_nodata=True": {"init_dest_nodata": True},
    "INIT_DEST=0": {"INIT_DEST": "0"},
    "XYSCALE=2": {"XSCALE": 2, "YSCALE": 2},
    "XSCALE=1": {"XSCALE": 1},
    "num_threads=2": {"num_threads": 2},
    "warp_mem_limit=64": {"warp_mem_limit": 64},
    "tolerance=0.5": {"tolerance": 0.5},
    "SKIP_NOSOURCE": {"SKIP_NOSOURCE": "YES"},
    "UNIFIED_SRC_NODATA": {"UNIFIED_SRC_NODATA": "YES"},
    "SAMPLE_GRID": {"SAMPLE_GRID": "YES"},
    "src_nodata=33": {"src_nodata": 33},  # a value that occurs in the auxiliary source
    "dst_nodata=0": {"dst_nodata": 0},
}
PLAN_CALLS = ("loose-tol", "pad-align", "cross-crs", "rotated")
WARP_CALLS = tuple(itertools.product(("rio", "xr"), ("nearest", "bilinear"), OPTSETS))
CALLS = WARP_CALLS + tuple(("plan", n) for n in PLAN_CALLS)
# reduced alphabet for the length-2 histories of the quick tier: the unusual resampling only
CALLS_Q2 = tuple(c for c in WARP_CALLS if c[1] == "bilinear") + tuple(("plan", n) for n in PLAN_CALLS)

_AUX = {}


def _aux():
    """auxiliary pair used by the prior calls: uint8 (5,6) source, (7,7) destination at scale 1.5 with a fractional shift"""
    if not _AUX:
        from odc.geo.xr import wrap_xr

        S = GRIDS["D-utm10"][0] * Affine.translation(40, -25)
        sg = GeoBox((5, 6), S, _crs("EPSG:32633"))
        img = (np.arange(30).reshape(5, 6) * 3 + 3).astype("uint8")
        assert 33 in img and 250 not in img and 0 not in img
        _AUX.update(
            sg=sg, img=img, xr=wrap_xr(img, sg, nodata=250),
            dg=GeoBox((7, 7), S * Affine.translation(-1.3, 0.6) * Affine.scale(1.5), _crs("EPSG:32633")),
            plan={
                "loose-tol": (GeoBox((7, 7), S * Affine(1.2, 0, 0.3, 0, 1.2, -0.3), _crs("EPSG:32633")), {"ttol": 0.45, "stol": 0.3}),
                "pad-align": (GeoBox((7, 7), S * Affine.translation(-1, 1), _crs("EPSG:32633")), {"padding": 2, "align": 4}),
                "cross-crs": (GeoBox((7, 7), S, _crs("EPSG:32634")), {}),
                "rotated": (GeoBox((7, 7), S * Affine.rotation(30.0), _crs("EPSG:32633")), {"ttol": 0.2}),
            },
        )
    return _AUX


def prior_call(call):
    """one earlier public call of the process; its result is not judged (it is history, not the subject)"""
    a = _aux()
    if call[0] == "plan":
        dg, kw = a["plan"][call[1]]
        compute_reproject_roi(a["sg"], dg, **kw)
        return
    api, resampling, optname = call
    kw = dict(OPTSETS[optname])
    if api == "rio":
        kw.setdefault("dst_nodata", 250)
        rio_reproject(a["img"], np.full((7, 7), 9, dtype="uint8"), a["sg"], a["dg"], resampling, **kw)
    else:
        from odc.geo.xr import xr_reproject

        xr_reproject(a["xr"], a["dg"], resampling=resampling, **kw)


def call_class(call):
    return "plan:" + call[1] if call[0] == "plan" else call[2]


_T9 = (("t", 0.9), ("t", -0.9))
_Z2 = (("t", 0.0), ("t", 0.0))


def history_bases(dtypes):
    """the standard comparisons made after a history: destination larger than / overlapping / disjoint from the source
    (always with pixels outside the source footprint), a pair that is NOT paste-able, and one with read_shrink 2"""
    out = []
    for dt in dtypes:
        out += [
            ("D-utm10", "same", (8, 9), (1, "0"), (1, "0"), (1, 1), "none", (-1, -1), _T9, 0, dt),
            ("D-utm10", "same", (5, 5), (1, "0"), (1, "0"), (-1, -1), "none", (3, -2), _Z2, 0, dt),
            ("D-utm10", "same", (3, 10), (1, "0"), (1, "0"), (1, 1), "none", (-12, 0), _Z2, 0, dt),
        ]
    out += [
        ("D-utm10", "same", (8, 9), (1, "0"), (1, "0"), (1, 1), "none", (-1, -1), (("a", 0.3), ("a", 0.3)), 0, "int16"),
        ("D-utm10", "same", (5, 5), (2, "0"), (2, "0"), (1, 1), "none", (-1, 0), _Z2, 0, "int16"),
    ]
    return tuple(out)


def gen_history(tier):
    th = tier == "thorough"
    full = history_bases(DTYPES)
    few = full if th else tuple(  # int16 larger dst, int8 mirrored overlap, float32 disjoint, not paste-able, read_shrink 2
        b for b in full if (b[10], b[2]) in (("int8", (5, 5)), ("float32", (3, 10))) or (b[10] == "int16" and b[2] == (8, 9))
        or b[3][0] == 2)
    two = CALLS if th else CALLS_Q2

    def gen():
        for h in ((),) + tuple((c,) for c in CALLS):
            for base in full:
                yield (h, base)
        for h in itertools.product(two, two):
            for base in few:
                yield (h, base)

    return gen


def _same_img(a, b):
    return a.dtype == b.dtype and a.shape == b.shape and (
        np.array_equal(a, b, equal_nan=True) if a.dtype.kind == "f" else np.array_equal(a, b))


_EXECUTED = []  # classes of the prior calls this process has executed so far (diagnostics only)


def run_history(case):
    hist, base = case
    p0, p1 = {}, {}
    r0 = run_case(base, p0)  # the process as it is: fresh on a sound tree, whatever the worker executed before
    w0 = p0["warp"].copy() if "warp" in p0 else None
    earlier = list(_EXECUTED)
    for call in hist:
        prior_call(call)
        if call_class(call) not in _EXECUTED:
            _EXECUTED.append(call_class(call))
    r1 = run_case(base, p1)
    hcls = "+".join(sorted({call_class(c) for c in hist})) or "none"
    r = R(outcome=f"{r1.outcome}|after:{'+'.join(c[0] for c in hist) or 'nothing'}", nontrivial=True,
          counts=dict(r1.counts))
    seen = set()
    for f in r0.fails:  # direct clauses before the history of this case
        seen.add(f.key)
        if not earlier:  # nothing unusual was executed by this process yet: the plain finding
            r.fail(f.key, f.msg)
            continue
        r.fail(f"state-left-by-earlier-calls:{f.key}",
               f"before any call of this case, in a process that had earlier executed public calls with the option "
               f"classes {earlier} (reproduce with `--only call-history --jobs 1`; a replay of this single case starts in "
               f"a new process): " + f.msg)
    for f in r1.fails:  # direct clauses after the history
        if f.key not in seen:
            r.fail(f"after-calls[{hcls}]:{f.key}", f"after the earlier calls {hist!r} (not before them): " + f.msg)
    if r0.fails:
        return r  # no sound baseline for the differential clause
    # differential clause: same pair, same arguments -> same plan, same image
    if p0["plan"] != p1["plan"]:
        r.fail(f"plan-changed-after-calls[{hcls}]",
               f"compute_reproject_roi gave {p0['plan']} before and {p1['plan']} after the calls {hist!r}: {p1['desc']}")
    w1 = p1.get("warp")
    if (w0 is None) != (w1 is None) or (w0 is not None and not _same_img(w0, w1)):
        r.fail(f"warp-changed-after-calls[{hcls}]:{base[10]}",
               f"rio_reproject(..., 'nearest') gave {None if w0 is None else w0.tolist()} before and "
               f"{None if w1 is None else w1.tolist()} after the calls {hist!r}: {p1['desc']}")
    return r


# ---------------------------------------------------------------------------------------------
# E3a: two warp calls at the same time (thread interleavings)
# ---------------------------------------------------------------------------------------------
import threading  # noqa: E402

import odc.geo.warp as warpmod  # noqa: E402
from vf import core, introspect  # noqa: E402

_WARP_PRISTINE = introspect.ModuleState(warpmod)  # taken when this module is imported, before any case has run
_PLAIN = (type(None), bool, int, float, complex, str, bytes, tuple, frozenset, np.ndarray, bytearray)
_WARP_GLOBALS = {k: v for k, v in vars(warpmod).items()
                 if k.startswith("_") and not k.startswith("__") and isinstance(v, _PLAIN)}
_WARP_NAMES = frozenset(vars(warpmod))
_LOCK_TYPES = (type(threading.Lock()), type(threading.RLock()))


def _reset_warp_state():
    """Put the module-level state of odc/geo/warp.py back to what it was when the harness imported it: private mappings,
    lists, sets and holder objects (vf.introspect.ModuleState), and in addition private names bound to plain values
    (None / numbers / strings / arrays) are re-bound to the object they were bound to, and private plain-valued names
    that did not exist then (a lazily created work array) are removed.  With this every execution of one schedule
    exploration starts from the same state, so a replayed schedule prefix meets the same sequence of lines."""
    _WARP_PRISTINE.restore()
    g = vars(warpmod)
    for k, v in _WARP_GLOBALS.items():
        if g.get(k, g) is not v:
            g[k] = v
    for k in [k for k in g if k not in _WARP_NAMES and k.startswith("_") and not k.startswith("__")
              and isinstance(g[k], _PLAIN)]:
        del g[k]


def _fake_locks(s):
    """module-level real locks of warp.py (there are none in the tree as it is) would hang the baton scheduler: they are
    replaced by cooperative re-entrant ones for the duration of one execution. -> undo list"""
    from vf import sched  # pylint: disable=import-outside-toplevel

    class FakeRLock(sched.FakeLock):
        depth = 0

        def acquire(self, blocking=True, timeout=-1):
            if self.owner is not None and self.owner is self.sched.me():
                self.depth += 1
                return True
            ok = super().acquire(blocking, timeout)
            if ok:
                self.depth = 1
            return ok

        def release(self):
            self.depth -= 1
            if self.depth <= 0:
                super().release()

    undo = []
    for k, v in list(vars(warpmod).items()):
        if isinstance(v, _LOCK_TYPES):
            undo.append((k, v))
            setattr(warpmod, k, FakeRLock(s, k))
    return undo


THR_DTYPES = ("int8", "bool", "uint8", "float32")
THR_RELS = ("same-grid", "same-shape", "other-shape")
THR_PRIOR = ("cold", "warm")
# thread 0 always warps onto this pair (destination larger than the source on every side, residue within ttol)
_THR_A = ("D-utm10", "same", (8, 9), (1, "0"), (1, "0"), (1, 1), "none", (-1, -1), _T9, 0)
_THR_B = {
    "same-grid": _THR_A,  # the very same pair of grids, another image
    "same-shape": ("D-utm10", "same", (8, 9), (1, "0"), (1, "0"), (-1, -1), "none", (2, -3), _Z2, 0),
    "other-shape": ("D-utm10", "same", (5, 5), (1, "0"), (1, "0"), (-1, -1), "none", (3, -2), _Z2, 0),
}
for _dt in THR_DTYPES:  # thread 1 warps the raster of thread 0 turned by 180 degrees: must be another image
    assert not np.array_equal(RASTERS[_dt][0], RASTERS[_dt][0][::-1, ::-1], equal_nan=_dt.startswith("f"))


def gen_threads(tier):
    th = tier == "thorough"

    def gen():
        def parts(dta, dtb, rel, prior, bound, n):
            # the schedule tree of one comparison is cut into 2 * n pieces (which thread starts x the position of the
            # first pre-emption modulo n), each piece is one case
            for first in (0, 1):
                for k in range(n):
                    yield (dta, dtb, rel, prior, bound, first, k, n)

        detour = (("int8", "int8"), ("bool", "bool"), ("int8", "bool"))
        if not th:
            # both calls of the same pixel type (the two detour types and one that GDAL warps directly), and the two
            # detour types against each other
            for (dta, dtb), rel in itertools.product(detour + (("uint8", "uint8"),), ("same-shape", "other-shape")):
                yield from parts(dta, dtb, rel, "cold", 2, 2)
            return
        for dta, dtb, rel in itertools.product(THR_DTYPES, THR_DTYPES, THR_RELS):
            yield from parts(dta, dtb, rel, "cold", 2, 2)
        for (dta, dtb), rel in itertools.product(detour + (("uint8", "uint8"), ("float32", "float32")), THR_RELS):
            yield from parts(dta, dtb, rel, "warm", 2, 4)
        for dta, dtb in detour:
            yield from parts(dta, dtb, "same-shape", "cold", 3, 16)

    return gen


def _thr_job(base, dt, turned):
    """-> None when the plan does not offer a paste with read_shrink 1, else the ingredients of one thread's call"""
    case = base + (dt,)
    b = build(case)
    rr = compute_reproject_roi(b["src_g"], b["dst_g"], **b["kw"])
    src, nodata, fill, junk = raster(dt, b["src_shape"])
    if turned:
        src = src[::-1, ::-1].copy()
    if not (rr.paste_ok and rr.read_shrink == 1):
        return None
    dshape = case[2]
    expect = np.full(dshape, fill, dtype=src.dtype)
    block = src[rr.roi_src]
    if b["my"] < 0:
        block = block[::-1, :]
    if b["mx"] < 0:
        block = block[:, ::-1]
    if block.shape == expect[rr.roi_dst].shape:
        expect[rr.roi_dst] = block
    else:
        expect = None  # reported by the single-call slices
    return dict(case=case, b=b, rr=rr, src=src, src0=src.copy(), nodata=nodata, junk=junk, dshape=dshape, expect=expect,
                desc=describe(case, b, rr) + (" [source raster turned by 180 degrees]" if turned else ""))


def _segments(trace):
    segs = []
    for t, lb in trace:
        ln = lb[1] if isinstance(lb, tuple) and len(lb) > 1 else lb
        if segs and segs[-1][0] == t:
            segs[-1][2] = ln
            segs[-1][3] += 1
        else:
            segs.append([t, ln, ln, 1])
    return " | ".join(f"t{t}:{a}..{b}({n})" for t, a, b, n in segs)


class _Tail:
    """view of a finished execution without its first choice point (what vf.sched.explore needs to see in order to explore
    the subtree below a fixed first choice)"""

    def __init__(self, x):
        self.full = x
        self.choices, self.points = x.choices[1:], x.points[1:]
        self.diverged, self.npoints, self.deadlock, self.trace = x.diverged, x.npoints, x.deadlock, x.trace


def _switches(x):
    return [i for i, c in enumerate(x.choices) if c]


def _thr_call(j):
    dst = np.full(j["dshape"], j["junk"], dtype=j["src"].dtype)
    return rio_reproject(j["src"], dst, j["b"]["src_g"], j["b"]["dst_g"], resampling="nearest", dst_nodata=j["nodata"])


def run_threads(case):
    """Two threads each make the standard nearest-neighbour warp call of the image clause (own source image, own
    destination array) at the same time; every line of odc/geo/warp.py is a scheduling point (the GDAL call itself is
    one step); all schedules within the preemption bound.  Each thread's image must equal the image of the same call
    made alone, and the pasted image."""
    from vf import sched  # pylint: disable=import-outside-toplevel

    dta, dtb, rel, prior, bound, first, part_k, part_n = case
    jobs = (_thr_job(_THR_A, dta, False), _thr_job(_THR_B[rel], dtb, True))
    pcls = "same-dtype" if dta == dtb else "mixed-dtypes"
    r = R(outcome=f"threads|{pcls}|{rel}|{prior}|bound{bound}", nontrivial=True)
    if jobs[0] is None or jobs[1] is None:
        r.outcome, r.nontrivial = f"threads|no-paste|{rel}", False
        r.counts = {"eligible-but-not-reported": 1}
        return r

    # each call alone (one after the other, from the import-time state of warp.py)
    alone = []
    for k, j in enumerate(jobs):
        _reset_warp_state()
        a = _thr_call(j).copy()
        alone.append(a)
        if j["expect"] is not None and not _same_img(a, j["expect"]):
            r.fail(f"paste!=warp:{j['case'][10]}:threads-baseline:{rel}",
                   f"one call, no other thread: paste={j['expect'].tolist()} warp={a.tolist()}: {j['desc']}")
    if r.fails:
        return r  # no sound baseline for the concurrent runs

    fails = {}

    def make(prefix):
        s = sched.Sched(prefix, [warpmod.__file__])
        _reset_warp_state()
        if prior == "warm":  # both calls have been made before, one after the other
            for j in jobs:
                _thr_call(j)
        res = {}

        def body(k):
            def run():
                res[k] = _thr_call(jobs[k])
            return run

        s.spawn(body(0), "t0")
        s.spawn(body(1), "t1")
        undo = _fake_locks(s)
        try:
            s.run()
        finally:
            for name, lk in undo:
                setattr(warpmod, name, lk)
        s.res = res
        return s

    def make_half(prefix):
        # the first choice point is "which thread starts" (free of cost): this case explores the half that starts with `first`
        x = make([first] + list(prefix))
        assert x.diverged or (x.choices and x.choices[0] == first and x.points[0] == (2, False)), (x.choices[:1], x.points[:1])
        return _Tail(x)

    def check(x):
        x = x.full
        for name, err in x.errors():
            if not core.in_repo_tb(err):
                raise err
            fails.setdefault(f"threads:raised:{type(err).__name__}@{core.raise_site(err)}:{pcls}:{rel}",
                             f"{case}: thread {name}: {type(err).__name__}: {err}; schedule {_segments(x.trace)} (thread:first..last "
                             f"line of warp.py(number of lines)), choice points with a switch: {_switches(x)}")
        if x.deadlock or x.livelock:
            fails.setdefault(f"threads:{'deadlock' if x.deadlock else 'livelock'}:{pcls}:{rel}",
                             f"{case}: schedule {_segments(x.trace)}, choice points with a switch: {_switches(x)}")
            return
        for k, j in enumerate(jobs):
            got = x.res.get(k)
            if got is None:
                continue  # the thread raised: reported above
            dt = j["case"][10]
            if not _same_img(j["src"], j["src0"]):
                fails.setdefault(f"threads:source-modified:{dt}:{pcls}:{rel}",
                                 f"{case}: the source array of thread {k} was modified; schedule {_segments(x.trace)}, choice "
                                 f"points with a switch: {_switches(x)}")
            if _same_img(got, alone[k]) and (j["expect"] is None or _same_img(got, j["expect"])):
                continue
            o = jobs[1 - k]
            hint = ""
            if got.shape == alone[1 - k].shape and np.array_equal(got.astype("float64"), alone[1 - k].astype("float64"),
                                                                   equal_nan=True):
                hint = " (it is the image the OTHER thread asked for)"
            nbad = int((~((got == alone[k]) | ((got != got) & (alone[k] != alone[k])))).sum()) if got.shape == alone[k].shape else -1
            fails.setdefault(
                f"threads:paste!=warp:{dt}:other-thread-{o['case'][10]}:{rel}:{prior}",
                f"two rio_reproject(..., 'nearest') calls in two threads; schedule (thread:first..last line of warp.py(number of "
                f"lines), switches at the boundaries): {_segments(x.trace)}; choice points with a switch: "
                f"{_switches(x)}: thread {k} got {got.tolist()} where the same "
                f"call made alone gives {alone[k].tolist()} (= the pasted image), {nbad} of {got.size} pixels differ{hint}; "
                f"thread {k}: {j['desc']}; thread {1 - k}: {o['desc']}")

    try:
        st = sched.explore(make_half, check, bound, part=(part_k, part_n))
    finally:
        _reset_warp_state()
    r.counts = dict(schedules=st.schedules, transitions=st.points, warps=2 * st.schedules)
    for k, m in fails.items():
        r.fail(k, m)
    return r


# ---------------------------------------------------------------------------------------------
# spaces
# ---------------------------------------------------------------------------------------------
def _pairs(vals):
    return tuple(itertools.product(vals, vals))


def _same(k, devs):
    return [((k, d), (k, d)) for d in devs]


def scale_alphabet():
    out = []
    for k in (1, 2, 3):
        out += _same(k, DEVS_IN + DEVS_OUT)
    for k in (1, 2):
        out += [((k, "+i"), (k, "-i")), ((k, "0"), (k, "+o")), ((k, "-o"), (k, "0")), ((k, "+i"), (k, "-o"))]
    for f in (1.5, 0.5, 2.5, 0.25):
        out.append((("f", f), ("f", f)))
    out += [((1, "0"), (2, "0")), ((2, "0"), (1, "0")), ((2, "0"), (3, "0")), ((3, "0"), (1, "0")),
            ((2, "0"), ("f", 2.5)), (("f", 0.5), (1, "0"))]
    return tuple(out)


X5 = (-8, -2, 0, 3, 7)
Y5 = (-7, -2, 0, 3, 6)
XK = YK = (-4, -1, 0, 1, 4)  # for the 2..4 pixel wide overviews of the source (read_shrink > 1)


def placements(dshape, k=1):
    """Union of two complete products per dst shape: every placement along x (from 'dst entirely left of src' to
    'entirely right', one disjoint step on either side included) x 5 y-shifts, and the transposed set.  Shifts are
    in overview pixels; the overview of the source has ceil(N/k) pixels."""
    ny, nx = dshape
    oy, ox = (-(-n // k) for n in SRC_SHAPE)
    x5, y5 = (X5, Y5) if k == 1 else (XK, YK)
    return (
        tuple(itertools.product(range(-(nx + 1), ox + 2), y5)),
        tuple(itertools.product(x5, range(-(ny + 1), oy + 2))),
    )


def space(tier):
    """slice name -> list of complete Cartesian products (dicts of alphabets)."""
    th = tier == "thorough"
    res_all = RES_IN + RES_OUT + ((RES_IN_MORE + RES_EDGE) if th else ())
    res5 = (("t", 0.0), ("t", 0.9), ("t", 1.1)) + ((("t", -0.98), ("t", 1.02)) if th else ())
    res_in = RES_IN + (RES_IN_MORE if th else ())
    res3 = (("t", 0.0), ("t", 0.9), ("t", 1.1))
    grids2 = tuple(GRIDS) if th else ("D-utm10", "R-deg0.1")
    base = dict(grid=grids2, crs=("same",), dshape=((8, 9),), scales=_same(1, ("0",)), mirror=MIRRORS,
                rot=("none",), shift=((0, 0),), res=_pairs(RES_IN), tol=(0,), dtype=("int16",))

    def P(**kw):
        d = dict(base)
        d.update(kw)
        return {k: tuple(v) for k, v in d.items()}

    sp = {}
    eligible_scales = _same(1, DEVS_IN) + _same(2, DEVS_IN) + _same(3, DEVS_IN) + [((1, "+i"), (1, "-i")), ((2, "+i"), (2, "-i"))]
    # 1. eligibility
    sp["eligibility"] = [
        # every scale class x residue {0, inside, outside}^2
        P(scales=scale_alphabet(), shift=itertools.product((-8, 0, 1), (-2, 1)),
          res=_pairs(res5), tol=TOLS),
        # scale within tolerance x every residue pair on either side of ttol
        P(scales=eligible_scales, shift=itertools.product((-8, 1), (-2, 1)), res=_pairs(res_all), tol=TOLS),
    ]
    # 2. rotation / shear on otherwise paste-able pairs
    sp["rotation-shear"] = [
        P(dshape=((5, 5), (1, 1)), scales=_same(1, DEVS_IN) + _same(2, ("0",)) + _same(3, ("0",)), rot=ROTS,
          shift=((0, 0), (-3, 2)), res=_pairs(res3), tol=(0, 1)),
    ]
    # 3. another CRS (never paste-able) / the same CRS spelled as WKT
    sp["crs"] = [
        P(grid=(g,), crs=("wkt",) + OTHER_CRS[GRIDS[g][1]], scales=_same(1, ("0",)) + _same(2, ("0",)),
          shift=((0, 0), (-3, 2)), res=_pairs((("t", 0.0), ("t", 0.9))), dtype=("int16", "bool"))
        for g in grids2
    ]
    # 3b. source CRS x destination CRS x which CRS object had .epsg read, on grids that line up exactly
    Z = ("t", 0.0)
    sp["crs-pairs"] = [
        P(grid=[(g, n) for n in names], crs=[("x", n, st) for n in names for st in EPSG_READ],
          scales=_same(1, ("0",)) + _same(2, ("0",)), mirror=MIRRORS if th else ((1, 1), (-1, 1)),
          shift=((0, 0), (-3, 2)), res=_pairs((Z, ("t", 0.9))) if th else ((Z, Z), (("t", 0.9), ("t", 0.9))),
          dtype=("int16", "bool") if th else ("int16",))
        for g, names in (("M-5km", CRS_NAMES_M), ("G-0.1deg", CRS_NAMES_G))
    ]
    # 4. paste image == warp: every relative placement, int16, default tolerances
    sp["paste-image"] = [
        P(dshape=(ds,), shift=pl, res=_pairs(res_in))
        for ds in DSHAPES for pl in placements(ds)
    ]
    # 4b. non-default tolerance sets and scale deviations on a reduced placement set
    sp["paste-image-tols"] = [
        P(grid=("D-southup", "R-utm30"), dshape=((5, 5), (3, 10)), scales=_same(1, DEVS_IN),
          shift=itertools.product((-8, -4, 0, 2, 7) if not th else range(-8, 9), (-2, 0, 3)), tol=(0, 1, 2, 3)),
    ]
    # 5. every dtype
    sp["paste-dtypes"] = [
        P(grid=("D-utm10", "D-southup") + (("R-deg0.1",) if th else ()), dshape=DSHAPES,
          scales=_same(1, ("0",)) if not th else _same(1, ("0", "+i")),
          shift=itertools.product(range(-8, 9, 2) if not th else range(-8, 9), (-2, 0, 3)),
          res=((("t", 0.0), ("t", 0.0)), (("t", 0.9), ("t", -0.9)), (("t", -0.9), ("t", 0.9))), dtype=DTYPES),
    ]
    # 5b. planner options padding x align as a full dimension (scale 1: image clause; scale 2: scaled-ROI clause)
    S3 = (-2, 0, 3)
    res_opt = [((("t", 0.0), ("t", 0.0)),), _pairs((("t", 0.9), ("t", -0.9)))]

    def pl_opt(ds):
        ny, nx = ds
        return (tuple(itertools.product(range(-(nx + 1), SRC_SHAPE[1] + 2), S3)),
                tuple(itertools.product(S3, range(-(ny + 1), SRC_SHAPE[0] + 2))))

    gopt = ("D-utm10",) + (("R-deg0.1",) if th else ())
    sp["paste-options"] = [
        P(grid=gopt, dshape=(ds,), shift=pl, res=rs_, opts=OPTS)
        for ds in ((5, 5), (8, 9)) + (((3, 10), (1, 1)) if th else ()) for pl in pl_opt(ds) for rs_ in res_opt
    ] + [
        P(grid=gopt, dshape=((5, 5),), scales=_same(2, ("0",)), shift=pl, res=rs_, opts=OPTS)
        for pl in placements((5, 5), 2) for rs_ in res_opt
    ]
    # 6. read_shrink > 1
    shrink_scales = {2: _same(2, DEVS_IN) + [((2, "+i"), (2, "-i"))], 3: _same(3, ("0", "+i") if not th else DEVS_IN),
                     4: _same(4, ("0",))}
    res_sh = ([((("t", 0.0), ("t", 0.0)),), _pairs((("t", 0.9), ("t", -0.9)))] if not th else [_pairs(RES_IN)])
    sp["shrink"] = [
        P(dshape=(ds,), scales=sc, shift=pl, res=rs_, tol=(0,) if not th else (0, 3))
        for ds in DSHAPES for k, sc in shrink_scales.items() for pl in placements(ds, k) for rs_ in res_sh
    ]
    return sp


# ---- tolerance-window edges ---------------------------------------------------------------------
EDGE_N = (13, 14, 64, 1000)
OTHER_LEN = 6  # source length of the short axis (multiple of 2 and 3); the destination has 3 pixels there
PLACES = ("far1", "far", "near", "both", "contained", "exact")


def place(name, no):
    """(whole-pixel shift T, dst length) in overview pixels for an overview (source / n) of `no` pixels"""
    return {
        "far1": (0, no + 1),  # dst starts with the source and reaches 1 px past its far edge
        "far": (no // 3, no),  # starts inside, overhangs the far edge
        "near": (-(no // 3), no),  # overhangs the near edge, ends inside
        "both": (-2, no + 4),
        "contained": (2, max(1, no - 4)),
        "exact": (0, no),
    }[name]


def edge_scales(forms=True):
    out = []
    for sgn in (-1, 1):
        for f in EDGE_F:
            out.append(("a", 1, sgn, f))  # for n = 1 the multiplicative and the additive form coincide
            for n in (2, 3):
                out += [("m", n, sgn, f), ("a", n, sgn, f)]
                if forms:
                    out += [("rm", n, sgn, f), ("ra", n, sgn, f)]
    return tuple(out)


def edge_class(case):
    """coarse label of where the case sits relative to the window edge (outcome label only)"""
    fs = [abs(sp[3]) for sp in (case[3], case[4]) if sp[0] in ("m", "a", "rm", "ra")]
    fs += [abs(r[1]) for r in case[8] if r[0] == "t" and r[1] != 0]
    d = min((abs(f - 1) for f in fs), default=1.0)
    return "edge<=0.1%" if d <= 0.0011 else ("edge<=10%" if d <= 0.11 else "clear")


def _edge_case(axis, n_long, lspec, ospec, m, pl, rl, ro, tol):
    n = lspec[1] if lspec[0] in ("m", "a", "e") else (lspec[0] if isinstance(lspec[0], int) else 1)
    no = -(-n_long // n)
    T, nd = place(pl, no)
    if axis == "x":
        return ("D-utm10", "same", (3, nd), lspec, ospec, (m, 1), "none", (T, 0), (rl, ro), tol, "int16", (None, None),
                (OTHER_LEN, n_long))
    return ("D-utm10", "same", (nd, 3), ospec, lspec, (1, m), "none", (0, T), (ro, rl), tol, "int16", (None, None),
            (n_long, OTHER_LEN))


def gen_edges(tier):
    th = tier == "thorough"
    axes = ("x", "y")
    Z = ("t", 0.0)

    def gen():
        # (1) scale on either side of both edges of the stol window (both axes / long axis only)
        for axis, N, sp, iso, m, pl, r, tol in itertools.product(
            axes, EDGE_N, edge_scales(), (True, False), (1, -1), PLACES, (Z, ("t", 0.9)) + ((("t", -0.9),) if th else ()),
            (0, 2),
        ):
            if iso:
                osp = sp
            else:  # other axis at the exact scale of the same family
                osp = (sp[1], "0") if sp[0] in ("m", "a") else ("f", 1.0 / sp[1])
            yield _edge_case(axis, N, sp, osp, m, pl, r, r, tol)
        # (2) residue on either side of both edges of the ttol window (long axis; other axis exact)
        for axis, N, sp, sgn, f, m, pl, tol in itertools.product(
            axes, EDGE_N, ((1, "0"), (2, "0"), ("a", 1, -1, 0.9995), ("a", 1, 1, 0.9995)), (-1, 1), EDGE_F, (1, -1), PLACES, (0, 1),
        ):
            yield _edge_case(axis, N, sp, sp, m, pl, ("t", sgn * f), Z, tol)
        # (3) a 2000 px axis with a scale deviation far below the tolerance (5e-7 * 2000 = 1e-3 px: invisible in the
        #     image, but an un-snapped scale crosses a whole-pixel boundary in the overlap arithmetic)
        for axis, n, e, m, pl, r, tol in itertools.product(
            axes, (1, 2), (-2e-5, -5e-7, 5e-7, 2e-5), (1, -1), PLACES, (Z, ("t", 0.9), ("t", -0.9)), (0, 2),
        ):
            yield _edge_case(axis, 2000, ("e", n, e), ("e", n, e), m, pl, r, r, tol)

    return gen


def _gen(products):
    def gen():
        for s in products:
            for grid, crs, dshape, (sxs, sys_), mirror, rot, shift, res, tol, dt in itertools.product(
                s["grid"], s["crs"], s["dshape"], s["scales"], s["mirror"], s["rot"], s["shift"], s["res"],
                s["tol"], s["dtype"],
            ):
                if "opts" in s:
                    for o in s["opts"]:
                        yield (grid, crs, dshape, sxs, sys_, mirror, rot, shift, res, tol, dt, o)
                else:
                    yield (grid, crs, dshape, sxs, sys_, mirror, rot, shift, res, tol, dt)

    return gen


NOTES = {
    "eligibility": "(a) every scale class (k=1..3 with deviation inside/outside stol, mixed per axis, fractional, "
                   "anisotropic) x residue {0,in,out}^2; (b) scale within stol x every residue pair on either side "
                   "of ttol; both x mirror x shifts x 4 tolerance sets",
    "rotation-shear": "rotations 0.5/5/-30/90 deg and shear 0.01 on otherwise paste-able pairs",
    "crs": "dst in another CRS (never paste-able) and in the same CRS spelled as WKT",
    "crs-pairs": "source CRS x destination CRS over 10 projected definitions (4 custom proj strings, 2 ESRI codes, 2 EPSG codes, "
                 "2 WKT spellings; 5 km grid) and over 5 geographic ones (custom sphere / Bessel longlat, 4326, 4283, 1 WKT "
                 "spelling; 0.1 deg grid) x which CRS object had .epsg read beforehand, grids lining up exactly at scale 1 and 2 "
                 "x mirror x shift x residue within ttol: paste only for same-definition pairs, image clauses for those",
    "paste-image": "scale 1, residue within ttol: per dst shape every placement along x (incl. one disjoint step on "
                   "either side) x 5 y-shifts and the transposed set, x mirror x residue pairs; int16",
    "paste-image-tols": "scale 1 and 1+-0.5*stol under all 4 (ttol, stol) sets, south-up and realistic grid, reduced placements",
    "paste-dtypes": "all 8 dtypes (int8/bool detours) x placements x mirror x dst shapes",
    "paste-options": "padding {None,0,1,2} x align {None,0,1,2,4} x (scale 1: every placement along x / along y x 3 cross "
                     "shifts, dst smaller and larger than src; scale 2: overview placements) x mirror x residues within "
                     "ttol: a plan that says paste_ok must be copyable and equal the NN warp / obey the scaled-ROI relation",
    "window-edges": "scales n(1+-f*stol), n+-f*stol, (1/n)(1+-f*stol), 1/n+-f*stol and residues +-f*ttol for f in "
                    "{.5,.9,.999,.9995,1.0005,1.001,1.1} x source axis 13/14/64/1000 px (x or y) x mirror x dst overhanging "
                    "far/near/both/contained x stol 1e-3/1e-2 (ttol .05/.2); 2000 px axis with scale n(1+-5e-7), n(1+-2e-5)",
    "call-history": "every sequence of 0..1 prior public calls over {rio_reproject, xr_reproject} x {nearest, bilinear} x 14 "
                    "keyword option sets + 4 planner calls with unusual options, x 8 dtypes x {dst larger / mirrored overlap / "
                    "disjoint} + a non-paste-able pair + a read_shrink 2 pair; every sequence of 2 prior calls over the bilinear "
                    "warp calls + planner calls (thorough: all calls) x reduced comparisons; clauses judged before and after the "
                    "history, plan and warped image compared before vs after",
    "warp-threads": "E3a: two threads make the nearest-warp call of the image clause at the same time (own source image, own "
                    "destination): pixel types {int8, bool, uint8, float32} per thread x destinations {same grid, same shape on "
                    "another grid, another shape} x module state {import-time, both calls made before}; every line of warp.py "
                    "a scheduling point, ALL schedules within preemption bound 2 (quick: int8/bool/uint8 with itself + int8 with "
                    "bool, 2 relations, cold; thorough: full cold product, warm for equal types + int8/bool, and bound 3 for "
                    "the 3 detour pairs on same-shape destinations); each thread's image == the same call "
                    "made alone == the pasted image",
    "shrink": "integer scale 2,3,4 (read_shrink > 1), placements in overview pixels as in paste-image: "
              "roi_src == read_shrink * image(roi_dst)",
}


def slices(tier):
    sp = space(tier)
    return [e1.Slice(name, _gen(spec), run_case, NOTES[name]) for name, spec in sp.items()] + [
        e1.Slice("window-edges", gen_edges(tier), run_case, NOTES["window-edges"]),
        e1.Slice("call-history", gen_history(tier), run_history, NOTES["call-history"]),
        e1.Slice("warp-threads", gen_threads(tier), run_threads, NOTES["warp-threads"], setup=_reset_warp_state)]


def _count(products):
    n = 0
    for s in products:
        m = 1
        for v in s.values():
            m *= len(v)
        n += m
    return n


def main(ctx):
    ctx.rule = (
        "complete Cartesian products over the construction parameters of the dst->src pixel transform (grid, dst shape, "
        "per-axis scale class, mirror, rotation/shear, whole-pixel shift, per-axis residue, tolerance set, dtype, "
        "planner options padding x align; source CRS x destination CRS x EPSG-slot state; sequences of <= 2 prior public "
        "calls); a case "
        "is non-trivial when the pair is predicted not paste-able (eligibility decided) or a non-empty paste/shrink "
        "region was judged; distinct by (slice, case) hash"
    )
    sp = space(ctx.tier)
    ctx.bounds = {
        "src_shape": SRC_SHAPE, "dst_shapes": DSHAPES,
        "placements": "per dst shape (ny,nx), overview (oy,ox)=ceil(src/k): Tx in [-(nx+1), ox+1] x Ty in Y5 and Tx in X5 x "
                      "Ty in [-(ny+1), oy+1]; X5=%r Y5=%r (k=1), %r (k>1); on a mirrored axis T is offset by the dst size" % (X5, Y5, XK),
        "grids": {k: [list(v[0])[:6], v[1]] for k, v in GRIDS.items()},
        "tolerance_sets(ttol,stol)": {str(k): v for k, v in TOLS.items()},
        "residue_alphabet": {"inside": RES_IN + RES_IN_MORE, "outside": RES_OUT, "edge(thorough)": RES_EDGE,
                             "unit": "('t', f) = f*ttol, ('a', v) = v px; destination (= overview) pixels"},
        "scale_deviation": "0, +-0.5*stol (inside), +-1.5*k*stol (outside); literals 1.5 0.5 2.5 0.25; anisotropic pairs",
        "rotations": ROTS, "dtypes": DTYPES, "padding": PADDINGS, "align": ALIGNS,
        "cases_per_slice": dict({k: _count(v) for k, v in sp.items()},
                                **{"window-edges": sum(1 for _ in gen_edges(ctx.tier)()),
                                   "call-history": sum(1 for _ in gen_history(ctx.tier)()),
                                   "warp-threads": sum(1 for _ in gen_threads(ctx.tier)())}),
        "crs_pairs": {"definitions": dict(CRS_DEFS, **{"wkt:<name>": "the same definition spelled as WKT (laea-a, moll)"}),
                      "projected": CRS_NAMES_M, "geographic": CRS_NAMES_G,
                      "grids": {k: list(v)[:6] for k, v in XGRIDS.items()}, "epsg_read_before_planning": EPSG_READ},
        "call_history": {"max_prior_calls": 2, "warp_calls": "api {rio_reproject, xr_reproject} x resampling {nearest, bilinear} "
                         "x option set", "option_sets": {k: {a: repr(b) for a, b in v.items()} for k, v in OPTSETS.items()},
                         "planner_calls": PLAN_CALLS,
                         "length_2_alphabet": "all calls (thorough); bilinear warp calls + planner calls (quick)"},
        "warp_threads": {"threads": 2, "scheduling_points": "every line event of odc/geo/warp.py (about 50 per call); the GDAL "
                         "call is one step", "preemption_bound": "2 (quick); 2 for the full product and 3 for the 3 detour-type pairs on "
                         "same-shape destinations (thorough)", "dtypes_per_thread": THR_DTYPES, "destination_relations": THR_RELS, "module_state": THR_PRIOR,
                         "case": "(dtype thread 0, dtype thread 1, relation, state, bound, first, k, n): the schedules in which thread "
                                 "`first` starts, part k of n (by position of the first pre-emption)"},
        "window_edges": {"f": EDGE_F, "source_axis_px": EDGE_N + (2000,), "placements": PLACES, "other_axis": (OTHER_LEN, 3)},
    }
    ctx.assumptions = [
        "the property says paste-ability is reported ONLY for eligible pairs: eligible-but-not-reported is counted "
        "(coverage.counters), not a violation",
        "residue is measured in destination (= overview) pixels, as the code documents ('tx, ty are in dst pixel space'); "
        "outside values (>= 1.1*ttol dst px) are outside under the source-pixel reading as well",
        "scale within stol: inside values satisfy both |s-k| < stol and |s/k-1| < stol, outside values violate both; "
        "window-edge values where the two readings disagree (n >= 2) are labelled 'ambiguous': no eligibility demand, the "
        "image / scaled-ROI clauses still apply to whatever the plan says",
        "window edges are approached to 5e-4 of the tolerance (5e-7 absolute at stol=1e-3), eight orders above the rounding "
        "of the constructed transform (D-utm10 grid, integer entries)",
        "image clause on long axes: it is applied literally; keys of cases whose construction displaces a destination "
        "pixel centre by >= 0.45 px (|s/n-1|*dst length + |residue|) carry ':drift-ge-half-px'",
        "read_shrink > 1: 'roi_dst scaled by that factor' is read as the image of roi_dst under the whole-pixel "
        "overview-space map x_ov = m*x_dst + T times read_shrink, NOT clipped to the source image (when the source size "
        "is not a multiple of read_shrink the region may extend < read_shrink pixels past the source edge: counted as "
        "'shrink-roi-extends-past-source'); empty regions are only required to be empty on both sides",
        "GDAL nearest warp through odc.geo.warp.rio_reproject is the independent image oracle; raster values are "
        "distinct and different from nodata (GDAL nudges source values equal to the destination nodata)",
        "paste is performed with plain numpy slice semantics on roi_src / roi_dst; mirroring is taken from the "
        "construction parameters, never from the result",
        "rotation alphabet stays away from 0 and 180 degrees (180 = mirror in x and y)",
        "crs-pairs: two CRS objects denote the same CRS only when built from the same definition or from its WKT export; "
        "the definitions used together differ in projection method, centre or ellipsoid/datum, so every mixed pair is 'another CRS' and must "
        "not be reported paste-able (a same-definition pair that is not reported is only counted); an object 'whose .epsg "
        "was read' is a copy (CRS(obj)) of one on which the property was evaluated once in this process",
        "call-history: the property is a statement about the functions, not about a fresh process - it is demanded after "
        "any earlier public call (results of the earlier calls themselves are not judged); the clauses are evaluated "
        "before AND after the history, and plan / warped image must not change across it; the comparison warp goes "
        "through rio_reproject into a destination pre-filled with a junk value; histories run one after another in "
        "long-lived worker processes, which is sound because the clauses are demanded in every state (a failure seen "
        "BEFORE the history of a case is reported under 'state-left-by-earlier-calls:' with the list of option classes "
        "the process has executed so far)",
        "warp-threads: the image clause is demanded of every call whatever other calls are in progress in other threads of "
        "the process (rio_reproject is what a threaded dask scheduler runs for the chunks of one image); each thread has its "
        "own source and destination arrays, nothing is shared by the harness; only one thread runs at a time (baton), the "
        "switch points are the line events of warp.py, so races inside GDAL or inside other modules are not explored; the "
        "module-level state of warp.py is put back to its import-time snapshot before every execution; a module-level "
        "threading.Lock/RLock of warp.py would be replaced by a cooperative one (none exists)",
        "padding/align options: the clauses are conditional on what the returned plan says (paste_ok, read_shrink), "
        "whatever options it was requested with; whether paste is offered at all under explicit padding/align is not "
        "judged (the code documents that it is offered only for padding in (None,0) and align in (None,0))",
    ]
    sl = slices(ctx.tier)
    if ctx.only:
        sl = [s for s in sl if any(s.name.startswith(o) for o in ctx.only)]
    e1.run_slices(ctx, sl)
    ctx.extra["counters"] = {k: int(v) for k, v in sorted(ctx.counters.items())}


def replay(slice_name, case, tier):
    return e1.replay(slices(tier), slice_name, case).fails
