"""C15 - GeoTIFF/COG written through GDAL (write_cog / to_cog / write_cog_layers) reads back identical.

E1: every slice is a complete Cartesian product (or a union of complete products) over image shapes, band
layouts (YX, band-first, band-last, including cubes n x n x n), dtypes, nodata values and where they come from,
CRSs, north-up / rotated / sheared transforms, block sizes, overview level lists, externally supplied overviews,
windowed writes, intermediate compression, memory / file destinations and pre-existing destination files.
Every produced file (or byte string) is decoded with rasterio/GDAL opened independently of the writer and its
IFD structure is walked with tifffile (rasterio's profile["tiled"] is False whenever one block covers the image,
so tiling is read from the TIFF tile tags).
"""
from __future__ import annotations

import io
import logging
import os
import shutil
import tempfile
from contextlib import contextmanager
from pathlib import Path

import numpy as np
import xarray as xr
from affine import Affine

from vf import e1
from vf.core import R

PROPERTY = "C15"
LEVEL = "exploration"

import rasterio  # noqa: E402
from rasterio._env import get_gdal_config  # noqa: E402
import tifffile  # noqa: E402

from odc.geo.cog import to_cog, write_cog, write_cog_layers  # noqa: E402
from odc.geo.cog._shared import adjust_blocksize, norm_blocksize, yaxis_from_shape  # noqa: E402
from odc.geo.geobox import GeoBox  # noqa: E402
from odc.geo.xr import wrap_xr, xr_coords  # noqa: E402

READDIR = "GDAL_DISABLE_READDIR_ON_OPEN"
os.environ.pop(READDIR, None)  # the ambient GDAL configuration is a dimension of s8; everywhere else it is GDAL's default

logging.getLogger("tifffile").setLevel(logging.CRITICAL)
logging.getLogger("rasterio").setLevel(logging.CRITICAL)

# ---------------------------------------------------------------------------------------------------------
# alphabets
# ---------------------------------------------------------------------------------------------------------
CRSS = {"3857": ("EPSG:3857", 3857, False), "4326": ("EPSG:4326", 4326, True), "32633": ("EPSG:32633", 32633, False)}
DTYPES = ("uint8", "int8", "int16", "uint16", "int32", "float32", "float64")
DEFAULT_FACTORS = (2, 4, 8, 16, 32)  # write_cog docstring: "List of shrink factors ... [2,4,8,16,32]"


def transform_for(tkind, geographic):
    """-> (Affine, exact). `exact`: every coefficient is a small dyadic rational (alphabet D, compared with ==);
    otherwise alphabet R, compared with 1e-9*(|value| + pixel)."""
    if geographic:
        s, x0, y0 = 0.25, 10.0, 50.0
        rs, rx0, ry0 = 0.1, 12.3, 45.6
    else:
        s, x0, y0 = 10.0, 500000.0, 6000000.0
        rs, rx0, ry0 = 1 / 3, 654321.7, 5432109.9
    if tkind == "nu":
        return Affine(s, 0.0, x0, 0.0, -s, y0), True
    if tkind == "nu-r":
        return Affine(rs, 0.0, rx0, 0.0, -rs, ry0), False
    if tkind == "rot":
        return Affine.translation(x0, y0) * Affine.rotation(30) * Affine.scale(s, -s), False
    if tkind == "shear":
        return Affine(s, s / 4, x0, s / 8, -s, y0), True
    raise ValueError(tkind)


def tclass(tkind):
    return "north-up" if tkind.startswith("nu") else "non-aligned"


def shape_class(yx):
    h, w = yx
    if h == 1 and w == 1:
        return "single-px"
    if h == 1:
        return "single-row"
    if w == 1:
        return "single-col"
    return "multi"


def layout_shape(yx, layout):
    """layout: 'YX' | ('SYX', n) band-first | ('YXS', n) band-last"""
    if layout == "YX":
        return tuple(yx)
    kind, n = layout
    return (n, *yx) if kind == "SYX" else (*yx, n)


def layout_class(yx, layout):
    if layout == "YX":
        return "YX"
    kind, n = layout
    base = "band-first" if kind == "SYX" else "band-last"
    if n > 1 and n == yx[0] == yx[1]:
        base += "-cube"
    return base


def lk(layout):
    return layout if layout == "YX" else f"{layout[0]}{layout[1]}"


def nodata_for(dtype, kind):
    dt = np.dtype(dtype)
    if kind == "none":
        return None
    if kind == "zero":
        return 0
    if kind == "nan":
        return float("nan")
    if dt.kind == "u":
        return int(np.iinfo(dt).max)
    if dt.kind == "i":
        return -128 if dt.itemsize == 1 else -9999
    return -9999.0 if dt.itemsize == 4 else 1.5e300


def make_data(shape, dtype, off=0, nodata=None):
    """Every band/row/column distinguishable (a transposition changes the content); the nodata value itself and,
    for NaN nodata, a NaN pixel occur in the data."""
    n = int(np.prod(shape))
    dt = np.dtype(dtype)
    mod = 113 if dt.itemsize == 1 else 251
    a = ((np.arange(n, dtype="int64") * 7 + off) % mod + 1).reshape(shape)
    a = (a + 0.25).astype(dt) if dt.kind == "f" else a.astype(dt)
    if nodata is not None and n > 1:
        a.flat[n - 1] = nodata
    return a


def zlen(d):
    """Side of the all-zero corner: the largest 16*2^k below the image side (the side itself for d <= 16)."""
    for t in (512, 256, 128, 64, 32, 16):
        if d > t:
            return t
    return d


def punch_zeros(v):
    """v: (bands, y, x) *view* of the data. Zero the top-left corner in every band so that, on every block grid
    with block <= zlen, whole tiles hold nothing but valid zeros; plus valid zeros scattered in non-zero tiles."""
    _, h, w = v.shape
    zh, zw = zlen(h), zlen(w)
    if (zh, zw) != (h, w):
        v[:, :zh, :zw] = 0
    if h * w > 2:
        for y, x in ((h - 1, w // 2), (h // 2, w - 1), (h - 1, 0), (0, w - 1)):
            if (y, x) != (h - 1, w - 1):  # last pixel carries the nodata value
                v[:, y, x] = 0


def bands_of(data, layout):
    if layout == "YX":
        return data[np.newaxis]
    return data if layout[0] == "SYX" else np.moveaxis(data, -1, 0)


def build(yx, layout, dtype, tkind="nu", crs="32633", ndkind="none", nd_src="attr", off=0, zeros=False):
    """-> (DataArray, raw data, transform, exact, epsg, wanted nodata, extra kwargs for the writer)"""
    crs_str, epsg, geographic = CRSS[crs]
    A, exact = transform_for(tkind, geographic)
    gbox = GeoBox(tuple(yx), A, crs_str)
    nodata = nodata_for(dtype, ndkind)
    data = make_data(layout_shape(yx, layout), dtype, off, nodata)
    if zeros:
        punch_zeros(bands_of(data, layout))
    attrs = {}
    kw = {}
    if nodata is not None:
        if nd_src == "attr":
            attrs["nodata"] = nodata
        elif nd_src == "kwarg":
            kw["nodata"] = nodata
        else:  # both: documented precedence - the explicit argument wins over the attribute
            attrs["nodata"] = 1
            kw["nodata"] = nodata
    if layout == "YX" or layout[0] == "YXS":
        xx = wrap_xr(data, gbox, **attrs)  # dims (y, x) / (y, x, band)
    else:
        ydim, xdim = gbox.dimensions
        xx = xr.DataArray(data, dims=("band", ydim, xdim), coords=xr_coords(gbox), attrs=attrs)
    return xx, data, A, exact, epsg, nodata, kw


def sub_overviews(xx, layout, dtype, n_ovr, zeros=False):
    """Externally supplied overviews: the geo-registered array strided by 2, 4, ... with content that differs from
    any resampling of the image (so a regenerated overview would be noticed)."""
    out = []
    for k in range(1, n_ovr + 1):
        st = 2**k
        if layout == "YX":
            o = xx[::st, ::st]
        elif layout[0] == "SYX":
            o = xx[:, ::st, ::st]
        else:
            o = xx[::st, ::st, :]
        od = make_data(o.shape, dtype, off=17 * k + 3)
        if zeros:
            punch_zeros(bands_of(od, layout))
        o = o.copy(data=od)
        o.attrs.update(xx.attrs)
        out.append(o)
    return out


def ceil_div(a, b):
    return -(-a // b)


def expected_levels(yx, ovl):
    """Page sizes of the overview levels the property prescribes; None = either nothing or the defaults (one side
    under 512 and one not: 'image under 512 pixels' is not decided by the statement)."""
    h, w = yx
    if ovl is None:
        if max(h, w) < 512:
            return []
        if min(h, w) < 512:
            return None
        ovl = DEFAULT_FACTORS
    return [(ceil_div(h, f), ceil_div(w, f)) for f in ovl]


# ---------------------------------------------------------------------------------------------------------
# oracle
# ---------------------------------------------------------------------------------------------------------
@contextmanager
def open_rio(blob, **kw):
    if isinstance(blob, (bytes, bytearray)):
        with rasterio.MemoryFile(bytes(blob)) as mem:
            with mem.open(**kw) as src:
                yield src
    else:
        with rasterio.open(str(blob), **kw) as src:
            yield src


@contextmanager
def open_tiff(blob):
    if isinstance(blob, (bytes, bytearray)):
        with tifffile.TiffFile(io.BytesIO(bytes(blob))) as tf:
            yield tf
    else:
        with tifffile.TiffFile(str(blob)) as tf:
            yield tf


def transform_matches(got, want, exact):
    g, w = tuple(got)[:6], tuple(want)[:6]
    if exact:
        return g == w
    pix = max(abs(w[0]), abs(w[1]), abs(w[3]), abs(w[4]))
    return all(abs(a - b) <= 1e-9 * (abs(b) + pix) for a, b in zip(g, w))


def same_nodata(got, want):
    if want is None:
        return got is None
    if got is None:
        return False
    if want != want:
        return got != got
    return float(got) == float(want)


def inspect(blob, want_bands, A, exact, epsg, nodata, levels, blocksize, r: R, what, cls, ext_overviews=None):
    """All clauses of the property on one written file / byte string.

    cls: dict of input classes used in finding keys: pix (layout + api), geo (transform class + shape class + path),
    crs, nd (dtype + nodata kind + source + path), st (block size + shape class + overview request)."""
    H, W = want_bands.shape[1:]
    # --- independent decode -----------------------------------------------------------------------------
    with open_rio(blob) as src:
        got = src.read()
        if src.driver != "GTiff":
            r.fail(f"decode:not-geotiff:{cls['st']}", f"{what}: driver {src.driver}")
        if any(d != want_bands.dtype.name for d in src.dtypes):
            r.fail(f"decode:dtype:{cls['nd']}", f"{what}: file dtypes {src.dtypes}, data {want_bands.dtype}")
        if got.shape[0] != want_bands.shape[0]:
            r.fail(f"decode:band-count:{cls['pix']}", f"{what}: {got.shape[0]} bands, expected {want_bands.shape[0]}")
        elif got.shape[1:] != (H, W):
            r.fail(f"decode:image-size:{cls['pix']}", f"{what}: decoded {got.shape[1:]}, original {(H, W)}")
        elif not np.array_equal(got, want_bands, equal_nan=want_bands.dtype.kind == "f"):
            bad = np.argwhere(~((got == want_bands) | ((got != got) & (want_bands != want_bands))))
            b0 = tuple(int(v) for v in bad[0])
            gb_, wb_ = got[tuple(bad.T)], want_bands[tuple(bad.T)]
            kind = "pixels"
            if nodata is not None and nodata == nodata and nodata != 0 and (wb_ == 0).all() and (gb_ == nodata).all():
                kind = "pixels:valid-zero-read-as-nodata"
            r.fail(f"decode:{kind}:{cls['pix']}",
                   f"{what}: {len(bad)} of {got.size} pixels differ (band order / values), first at band,y,x={b0}: "
                   f"read {got[b0]!r}, written {want_bands[b0]!r}")
        if not transform_matches(src.transform, A, exact):
            r.fail(f"georef:transform:{cls['geo']}",
                   f"{what}: file transform {tuple(src.transform)[:6]}, GeoBox transform {tuple(A)[:6]}"
                   f" ({'exact' if exact else '1e-9 relative'} comparison)")
        if src.crs is None or src.crs.to_epsg() != epsg:
            r.fail(f"georef:crs:{cls['crs']}", f"{what}: file CRS {src.crs}, expected EPSG:{epsg}")
        if not all(same_nodata(v, nodata) for v in (src.nodata, *src.nodatavals)):
            r.fail(f"georef:nodata:{cls['nd']}", f"{what}: file nodata {src.nodatavals}, requested {nodata!r}")
        gdal_ovr = [src.overviews(i) for i in src.indexes]
    # --- structure ----------------------------------------------------------------------------------------
    with open_tiff(blob) as tf:
        pages = list(tf.pages)
        sizes = [(p.imagelength, p.imagewidth) for p in pages]
        if sizes[0] != (H, W):
            r.fail(f"layout:first-page-size:{cls['st']}", f"{what}: first IFD is {sizes[0]}, image {(H, W)}")
        if levels is None:
            want_any = [[(H, W)], [(H, W)] + expected_levels((H, W), DEFAULT_FACTORS)]
            if sizes not in want_any:
                r.fail(f"overviews:default:{cls['st']}", f"{what}: IFD sizes {sizes}: neither none nor the default levels")
        elif sizes[1:] != list(levels):
            r.fail(f"overviews:levels:{cls['st']}",
                   f"{what}: overview IFD sizes {sizes[1:]}, requested levels give {list(levels)} (ceil(size/factor)); "
                   f"GDAL overview factors {gdal_ovr[0]}")
        if any(len(o) != len(sizes) - 1 for o in gdal_ovr):
            r.fail(f"overviews:gdal-count:{cls['st']}", f"{what}: GDAL sees overviews {gdal_ovr}, file has {len(sizes) - 1} reduced IFDs")
        for pi, p in enumerate(pages):
            if not p.is_tiled:
                r.fail(f"layout:not-tiled:{cls['st']}", f"{what}: IFD {pi} {sizes[pi]} is stripped, not tiled")
                continue
            if p.tilelength % 16 or p.tilewidth % 16:
                r.fail(f"layout:tile-not-multiple-of-16:{cls['st']}", f"{what}: IFD {pi} tile {(p.tilelength, p.tilewidth)}")
        # documented parameter: "blocksize: Size of internal tiff tiles" - demanded only where it is unambiguous
        # (multiple of 16 and not larger than the image along that axis)
        bs = 512 if blocksize is None else blocksize
        p0 = pages[0]
        if p0.is_tiled and bs % 16 == 0:
            for ax, dim, t in (("y", H, p0.tilelength), ("x", W, p0.tilewidth)):
                if dim >= bs and t != bs:
                    r.fail(f"layout:tile-size-not-as-requested:{ax}:{cls['st']}",
                           f"{what}: blocksize={bs}, image {ax} size {dim}, tile {ax} size {t}")
    # --- externally supplied overviews are the ones stored ------------------------------------------------
    if ext_overviews:
        for k, wo in enumerate(ext_overviews):
            if k >= len(sizes) - 1:
                break
            with open_rio(blob, overview_level=k) as src:
                g = src.read()
            if g.shape != wo.shape or not np.array_equal(g, wo, equal_nan=wo.dtype.kind == "f"):
                if (g.shape == wo.shape and nodata is not None and nodata == nodata and nodata != 0
                        and (wo[g != wo] == 0).all() and (g[g != wo] == nodata).all()):
                    r.fail(f"overviews:external-content:valid-zero-read-as-nodata:{cls['pix']}",
                           f"{what}: supplied overview level {k}: {int((g != wo).sum())} valid 0 pixels read back as nodata {nodata!r}")
                    continue
                # class of the supplied layer itself: a band-first layer (n, n, n) is a cube even when the image is not
                lay, api = cls["pix"].split(":", 1)
                if lay == "band-first" and wo.shape[0] > 1 and wo.shape[0] == wo.shape[1] == wo.shape[2]:
                    lay = "band-first-cube"
                r.fail(f"overviews:external-content:{lay}:{api}",
                       f"{what}: overview level {k} read back as {g.shape} differs from the supplied layer (bands,y,x)={wo.shape}: "
                       f"{int((g != wo).sum()) if g.shape == wo.shape else 'all'} values differ")


@contextmanager
def ambient_env(v):
    """Ambient GDAL configuration in force while the writer runs (an outer rasterio.Env, as a caller tuned for cloud
    reads would have). Asserts that the setting is really seen by GDAL inside and is gone again outside, so it can
    neither be ineffective nor leak into the reader or into later cases of the same worker."""
    if get_gdal_config(READDIR, normalize=False) is not None or rasterio.env.hasenv():
        raise RuntimeError(f"GDAL environment not pristine before the case: {get_gdal_config(READDIR, normalize=False)!r}")
    if v == "unset":
        yield
    else:
        with rasterio.Env(**{READDIR: v}):
            if get_gdal_config(READDIR, normalize=False) != v:
                raise RuntimeError(f"ambient {READDIR}={v} not in force: {get_gdal_config(READDIR, normalize=False)!r}")
            yield
            if get_gdal_config(READDIR, normalize=False) != v:
                raise RuntimeError(f"ambient {READDIR}={v} was not restored by the writer: "
                                   f"{get_gdal_config(READDIR, normalize=False)!r}")
    if get_gdal_config(READDIR, normalize=False) is not None or rasterio.env.hasenv():
        raise RuntimeError(f"ambient {READDIR} leaked out of the case: {get_gdal_config(READDIR, normalize=False)!r}")


def run_write(r: R, what, xx, data, layout, A, exact, epsg, nd_want, *, dest, api="write_cog", accessor=False,
              ovl=None, ext=None, blocksize=None, cls=None, ambient="unset", **kw):
    """Write through the real API into memory or a fresh temporary directory (under the ambient GDAL configuration),
    then judge with readers opened outside that configuration."""
    yx = bands_of(data, layout).shape[1:]
    want = bands_of(data, layout)
    ext_b = None
    if ext is not None:
        levels = [bands_of(o.data, layout).shape[1:] for o in ext]
        ext_b = [bands_of(o.data, layout) for o in ext]
    else:
        levels = expected_levels(yx, ovl)
        if ovl is not None:  # None: argument not given, the documented default applies
            kw["overview_levels"] = list(ovl)
    if blocksize is not None:
        kw["blocksize"] = blocksize
    td = None
    try:
        with ambient_env(ambient):
            if dest == "mem":
                if api == "write_cog_layers":
                    blob = write_cog_layers([xx, *ext], **kw)
                elif ext is not None:
                    blob = xx.odc.to_cog(overviews=ext, **kw) if accessor else to_cog(xx, overviews=ext, **kw)
                else:
                    blob = xx.odc.to_cog(**kw) if accessor else to_cog(xx, **kw)
            else:
                td = tempfile.mkdtemp(prefix="vf-c15-")
                path = os.path.join(td, "out.tif")
                if api == "write_cog_layers":
                    out = write_cog_layers([xx, *ext], path, **kw)
                elif ext is not None:
                    out = xx.odc.write_cog(path, overviews=ext, **kw) if accessor else write_cog(xx, path, overviews=ext, **kw)
                else:
                    out = xx.odc.write_cog(path, **kw) if accessor else write_cog(xx, path, **kw)
        # judged outside the ambient configuration: the readers run in GDAL's default environment
        if dest == "mem":
            if not isinstance(blob, bytes):
                r.fail(f"return:not-bytes:{cls['pix']}", f"{what}: returned {type(blob).__name__}")
                return
        else:
            if out is None or str(out) != path or not os.path.isfile(path):
                r.fail(f"return:path:{cls['pix']}", f"{what}: returned {out!r}, asked to write {path}")
                return
            blob = path
        inspect(blob, want, A, exact, epsg, nd_want, levels, blocksize, r, what, cls, ext_overviews=ext_b)
    finally:
        if td is not None:
            shutil.rmtree(td, ignore_errors=True)


def mkcls(yx, layout, tkind="nu", crs="32633", dtype="uint8", ndkind="none", nd_src="attr", path="1pass", api="write_cog",
          blocksize=None, ovl=()):
    sc = shape_class(yx)
    ov = "default" if ovl is None else ("ext" if ovl == "ext" else "levels" + "-".join(map(str, ovl)) if ovl else "none")
    return dict(
        pix=f"{layout_class(yx, layout)}:{api}",
        geo=f"{tclass(tkind)}:{sc}:{path}",
        crs=f"{crs}:{path}",
        nd=f"{dtype}:{ndkind}:{nd_src}:{path}",
        st=f"block{blocksize}:{sc}:{ov}",
    )


# ---------------------------------------------------------------------------------------------------------
# s1: shapes x layouts (incl. cubes) x transforms x CRSs x {single pass, two-pass with overviews}
# ---------------------------------------------------------------------------------------------------------
S1_SHAPES = ((1, 1), (1, 4), (4, 1), (2, 2), (3, 3), (4, 4), (5, 5), (16, 16), (17, 31), (33, 2), (64, 48))
S1_MORE = ((1, 2), (2, 1), (1, 17), (17, 1), (2, 3), (6, 6), (7, 7), (31, 17), (48, 64))  # thorough
S1_LAYOUTS = ("YX", ("SYX", 1), ("SYX", 2), ("SYX", 3), ("SYX", 4), ("SYX", 5), ("YXS", 1), ("YXS", 2), ("YXS", 3),
              ("YXS", 4), ("YXS", 5))
TKINDS = ("nu", "nu-r", "rot", "shear")


def gen_s1(tier):
    shapes = S1_SHAPES + (S1_MORE if tier == "thorough" else ())
    layouts = S1_LAYOUTS + ((("SYX", 6), ("SYX", 7), ("YXS", 6), ("YXS", 7)) if tier == "thorough" else ())

    def g():
        for yx in shapes:
            for layout in layouts:
                for tk in TKINDS:
                    for crs in CRSS:
                        for two_pass in (False, True):
                            if two_pass and min(yx) < 2:
                                continue  # GDAL refuses overviews on a 1-pixel side
                            yield ("s1", yx, layout, tk, crs, two_pass)

    return g


def run_s1(case):
    _, yx, layout, tk, crs, two_pass = case
    path = "2pass" if two_pass else "1pass"
    r = R(outcome=f"s1:{layout_class(yx, layout)}:{shape_class(yx)}:{tclass(tk)}:{path}")
    xx, data, A, exact, epsg, nodata, kw = build(yx, layout, "int16", tk, crs, "special")
    ovl = (2,) if two_pass else ()
    cls = mkcls(yx, layout, tk, crs, "int16", "special", "attr", path, "write_cog", 16, ovl)
    run_write(r, str(case), xx, data, layout, A, exact, epsg, nodata, dest="mem", accessor=True, ovl=ovl, blocksize=16,
              cls=cls, **kw)
    return r


# ---------------------------------------------------------------------------------------------------------
# s2: dtypes x nodata (value, where it is given) x overview path x destination x final compression
# ---------------------------------------------------------------------------------------------------------
def gen_s2(tier):
    def g():
        for dtype in DTYPES:
            kinds = ["none", "zero", "special"] + (["nan"] if np.dtype(dtype).kind == "f" else [])
            for ndk in kinds:
                for nd_src in (("attr",) if ndk == "none" else ("attr", "kwarg", "both")):
                    for ovl in ((), (2, 4)):
                        for dest in ("mem", "file"):
                            for comp in ("default", "zstd", "lzw"):
                                for yx, layout in (((17, 31), "YX"), ((9, 20), ("SYX", 2)), ((12, 7), ("YXS", 3))):
                                    yield ("s2", dtype, ndk, nd_src, ovl, dest, comp, yx, layout)

    return g


def run_s2(case):
    _, dtype, ndk, nd_src, ovl, dest, comp, yx, layout = case
    path = ("2pass" if ovl else "1pass") + ":" + dest
    r = R(outcome=f"s2:{dtype}:{ndk}:{path}")
    xx, data, A, exact, epsg, nodata, kw = build(yx, layout, dtype, "nu", "32633", ndk, nd_src)
    if comp != "default":
        kw["compress"] = comp
    cls = mkcls(yx, layout, "nu", "32633", dtype, ndk, nd_src, path, "write_cog", 16, ovl)
    run_write(r, str(case), xx, data, layout, A, exact, epsg, nodata, dest=dest, ovl=ovl, blocksize=16, cls=cls, **kw)
    return r


# ---------------------------------------------------------------------------------------------------------
# s3: shapes x layouts x block sizes x overview level lists x windowed x intermediate compression x destination
# ---------------------------------------------------------------------------------------------------------
S3_SHAPES = ((1, 1), (3, 3), (3, 40), (40, 3), (16, 16), (17, 31), (33, 50), (64, 48))
S3_MORE = ((1, 33), (33, 1), (2, 2), (48, 64))  # thorough
S3_LAYOUTS = ("YX", ("SYX", 2), ("YXS", 3))
S3_BLOCKS = (None, 16, 32, 48, 100, 512)
INTERMEDIATE = {"off": False, "on": True, "lzw": "lzw", "zstd-dict": {"compress": "zstd", "zstd_level": 1}}


def s3_ovls(tier):
    base = [None, (), (2,), (2, 4)]
    if tier == "thorough":
        base += [(4,), (3,), (2, 4, 8), (2, 4, 8, 16)]
    return base


def gen_s3(tier):
    inter = ("off", "on", "lzw") if tier == "quick" else tuple(INTERMEDIATE)

    shapes = S3_SHAPES + (S3_MORE if tier == "thorough" else ())

    def g():
        for yx in shapes:
            for layout in S3_LAYOUTS:
                for bs in S3_BLOCKS:
                    for ovl in s3_ovls(tier):
                        if ovl and min(yx) < max(ovl):
                            continue
                        for windowed in (False, True):
                            for ic in inter:
                                for dest in ("mem", "file"):
                                    yield ("s3", yx, layout, bs, ovl, windowed, ic, dest)

    return g


def run_s3(case):
    _, yx, layout, bs, ovl, windowed, ic, dest = case
    path = ("2pass" if ovl else "1pass") + ":" + dest
    ov = "default" if ovl is None else len(ovl)
    r = R(outcome=f"s3:{shape_class(yx)}:block{bs}:ovr{ov}:win{int(windowed)}:{ic}:{dest}")
    xx, data, A, exact, epsg, nodata, kw = build(yx, layout, "uint16", "nu", "3857", "special", zeros=True)
    cls = mkcls(yx, layout, "nu", "3857", "uint16", "special", "attr", path, "write_cog", bs, ovl)
    cls["pix"] += f":win{int(windowed)}"
    run_write(r, str(case), xx, data, layout, A, exact, epsg, nodata, dest=dest, ovl=ovl, blocksize=bs, cls=cls,
              use_windowed_writes=windowed, intermediate_compression=INTERMEDIATE[ic], **kw)
    return r


# ---------------------------------------------------------------------------------------------------------
# s4: externally supplied overviews (write_cog(overviews=...), to_cog(overviews=...), write_cog_layers)
# ---------------------------------------------------------------------------------------------------------
S4_SHAPES = ((4, 4), (5, 9), (16, 16), (17, 31), (33, 50), (64, 48))
S4_LAYOUTS = ("YX", ("SYX", 2), ("SYX", 4), ("YXS", 3), ("YXS", 4))


def gen_s4(tier):
    dts = ("uint8", "float32") if tier == "quick" else ("uint8", "int16", "float32", "float64")

    def g():
        for yx in S4_SHAPES:
            for layout in S4_LAYOUTS:
                for n_ovr in (0, 1, 2):
                    for dtype in dts:
                        for ndk in ("none", "special"):
                            for tk in ("nu", "rot"):
                                for api in ("write_cog", "write_cog_layers"):
                                    for dest in ("mem", "file"):
                                        yield ("s4", yx, layout, n_ovr, dtype, ndk, tk, api, dest)

    return g


def run_s4(case):
    _, yx, layout, n_ovr, dtype, ndk, tk, api, dest = case
    path = f"layers:{dest}"
    r = R(outcome=f"s4:{layout_class(yx, layout)}:n{n_ovr}:{api}:{dest}:{tclass(tk)}")
    xx, data, A, exact, epsg, nodata, kw = build(yx, layout, dtype, tk, "32633", ndk)
    ext = sub_overviews(xx, layout, dtype, n_ovr)
    cls = mkcls(yx, layout, tk, "32633", dtype, ndk, "attr", path, api + "+overviews", 16, "ext")
    run_write(r, str(case), xx, data, layout, A, exact, epsg, nodata, dest=dest, api=api, ext=ext, blocksize=16, cls=cls, **kw)
    return r


# s4b: options on the overview paths: overview block size, block size, windowed, intermediate compression, nodata source
def gen_s4b(tier):
    def g():
        for okind in ("computed", "external"):
            for layout in S3_LAYOUTS:
                for bs in (16, 32, 100):
                    for obs in (None, 64, 256):
                        for windowed in (False, True):
                            for ic in ("off", "on", "lzw"):
                                for nd_src in ("attr", "kwarg"):
                                    for dest in ("mem", "file"):
                                        yield ("s4b", okind, layout, bs, obs, windowed, ic, nd_src, dest)

    return g


def run_s4b(case):
    _, okind, layout, bs, obs, windowed, ic, nd_src, dest = case
    yx = (33, 50)
    r = R(outcome=f"s4b:{okind}:block{bs}:ovrblock{obs}:win{int(windowed)}:{ic}:{dest}")
    xx, data, A, exact, epsg, nodata, kw = build(yx, layout, "int16", "shear", "3857", "special", nd_src, zeros=True)
    if obs is not None:
        kw["ovr_blocksize"] = obs
    if okind == "external":
        ext, ovl, path, api = sub_overviews(xx, layout, "int16", 2, zeros=True), "ext", f"layers:{dest}", "write_cog+overviews"
    else:
        ext, ovl, path, api = None, (2, 4), f"2pass:{dest}", "write_cog"
    cls = mkcls(yx, layout, "shear", "3857", "int16", "special", nd_src, path, api, bs, ovl)
    cls["pix"] += f":win{int(windowed)}"
    run_write(r, str(case), xx, data, layout, A, exact, epsg, nodata, dest=dest, ext=ext, ovl=None if ext is not None else ovl,
              blocksize=bs, cls=cls, use_windowed_writes=windowed, intermediate_compression=INTERMEDIATE[ic], **kw)
    return r


# ---------------------------------------------------------------------------------------------------------
# s5: pre-existing destination x overwrite
# ---------------------------------------------------------------------------------------------------------
def gen_s5(tier):
    def g():
        for exists in ("absent", "cog", "junk"):
            for overwrite in (False, True, None):  # None: argument not given (default False)
                for ptype in ("str", "Path"):
                    for variant in ("plain", "computed-ovr", "external-ovr", "layers-api"):
                        for layout in ("YX", ("SYX", 2)):
                            yield ("s5", exists, overwrite, ptype, variant, layout)

    return g


def run_s5(case):
    _, exists, overwrite, ptype, variant, layout = case
    yx = (17, 31)
    r = R(outcome=f"s5:{exists}:overwrite={overwrite}:{variant}")
    xx, data, A, exact, epsg, nodata, kw = build(yx, layout, "int16", "nu", "32633", "special", off=5)
    ext = None
    ovl = ()
    if variant == "computed-ovr":
        ovl = (2,)
        kw["overview_levels"] = [2]
    elif variant in ("external-ovr", "layers-api"):
        ext = sub_overviews(xx, layout, "int16", 1)
    if overwrite is not None:
        kw["overwrite"] = overwrite
    cls = mkcls(yx, layout, "nu", "32633", "int16", "special", "attr", f"{variant}:file", "write_cog", 16, "ext" if ext else ovl)
    kcls = f"{exists}:{variant}"
    td = tempfile.mkdtemp(prefix="vf-c15-")
    try:
        path = os.path.join(td, "dst.tif")
        before = None
        if exists == "cog":
            old, *_ = build((9, 5), "YX", "uint8", "nu", "3857", "zero", off=11)
            write_cog(old, path, blocksize=16)
        elif exists == "junk":
            Path(path).write_bytes(b"this is not a tiff\n" * 7)
        if exists != "absent":
            before = Path(path).read_bytes()
        dst = path if ptype == "str" else Path(path)
        raised = None
        try:
            if variant == "layers-api":
                out = write_cog_layers([xx, *ext], dst, blocksize=16, **kw)
            elif ext is not None:
                out = write_cog(xx, dst, blocksize=16, overviews=ext, **kw)
            else:
                out = write_cog(xx, dst, blocksize=16, **kw)
        except OSError as e:  # IOError is OSError
            raised = e
        if exists != "absent" and not overwrite:
            r.outcome += ":refused" if raised is not None else ":written"
            if raised is None:
                r.fail(f"existing:no-error:{kcls}", f"{case}: destination existed, overwrite={overwrite}, no IOError raised")
            after = Path(path).read_bytes() if os.path.isfile(path) else None
            if after != before:
                r.fail(f"existing:modified-without-overwrite:{kcls}",
                       f"{case}: destination existed and overwrite={overwrite}, but the file "
                       f"{'was removed' if after is None else 'changed (%d -> %d bytes)' % (len(before), len(after))}"
                       f"; raised={raised!r}")
            return r
        if raised is not None:
            r.outcome += ":error"
            r.fail(f"existing:unexpected-ioerror:{kcls}", f"{case}: {type(raised).__name__}: {raised}")
            return r
        r.outcome += ":written"
        if out is None or str(out) != path or not os.path.isfile(path):
            r.fail(f"return:path:{kcls}", f"{case}: returned {out!r}, asked to write {path}")
            return r
        want = bands_of(data, layout)
        levels = [bands_of(o.data, layout).shape[1:] for o in ext] if ext is not None else expected_levels(yx, ovl)
        inspect(path, want, A, exact, epsg, nodata, levels, 16, r, str(case), cls,
                ext_overviews=[bands_of(o.data, layout) for o in ext] if ext is not None else None)
    finally:
        shutil.rmtree(td, ignore_errors=True)
    return r


# ---------------------------------------------------------------------------------------------------------
# s6: default overview levels around the 512-pixel threshold (the only slice with images above 64 px)
# ---------------------------------------------------------------------------------------------------------
S6_SHAPES = ((600, 520), (512, 512), (512, 520), (520, 512), (511, 511), (511, 520), (520, 511))


def gen_s6(tier):
    def g():
        for yx in S6_SHAPES:
            for layout in ("YX", ("SYX", 2), ("YXS", 3)):
                for bs in (None, 100, 256):
                    for ovl in (None, (), (2,)):
                        for windowed in (False, True):
                            for dest in ("mem", "file"):
                                yield ("s6", yx, layout, bs, ovl, windowed, dest)

    return g


def run_s6(case):
    _, yx, layout, bs, ovl, windowed, dest = case
    side = side_class(yx)
    ov = "default" if ovl is None else "none" if not ovl else "levels" + "-".join(map(str, ovl))
    r = R(outcome=f"s6:{side}:block{bs}:ovr-{ov}:win{int(windowed)}:{dest}")
    xx, data, A, exact, epsg, nodata, kw = build(yx, layout, "uint8", "nu", "32633", "special", zeros=True)
    path = ("2pass" if ovl or (ovl is None and side != "both<512") else "1pass") + f":{dest}"
    cls = mkcls(yx, layout, "nu", "32633", "uint8", "special", "attr", path, "write_cog", bs, ovl)
    cls["st"] = f"block{bs}:{side}:{ov}"
    cls["pix"] += f":win{int(windowed)}"
    run_write(r, str(case), xx, data, layout, A, exact, epsg, nodata, dest=dest, ovl=ovl, blocksize=bs, cls=cls,
              use_windowed_writes=windowed, **kw)
    return r


def side_class(yx):
    return "both>=512" if min(yx) >= 512 else "both<512" if max(yx) < 512 else "mixed"


# s6b: externally supplied overviews on images around / above 512 px: the stored levels are exactly the supplied ones
S6B_SHAPES = ((520, 600), (512, 512), (511, 520))


def gen_s6b(tier):
    def g():
        for yx in S6B_SHAPES:
            for layout in ("YX", ("SYX", 2), ("YXS", 3)):
                for n_ovr in (0, 1, 2):
                    for api in ("write_cog", "write_cog_layers"):
                        for bs in (None, 256):
                            for windowed in (False, True):
                                for dest in ("mem", "file"):
                                    yield ("s6b", yx, layout, n_ovr, api, bs, windowed, dest)

    return g


def run_s6b(case):
    _, yx, layout, n_ovr, api, bs, windowed, dest = case
    side = side_class(yx)
    r = R(outcome=f"s6b:{side}:n{n_ovr}:{api}:block{bs}:win{int(windowed)}:{dest}")
    xx, data, A, exact, epsg, nodata, kw = build(yx, layout, "int16", "nu", "32633", "special", zeros=True)
    ext = sub_overviews(xx, layout, "int16", n_ovr, zeros=True)
    cls = mkcls(yx, layout, "nu", "32633", "int16", "special", "attr", f"layers:{dest}", api + "+overviews", bs, "ext")
    cls["st"] = f"block{bs}:{side}:ext{n_ovr}"
    cls["pix"] += f":win{int(windowed)}"
    run_write(r, str(case), xx, data, layout, A, exact, epsg, nodata, dest=dest, api=api, ext=ext, blocksize=bs, cls=cls,
              use_windowed_writes=windowed, **kw)
    return r


# ---------------------------------------------------------------------------------------------------------
# s8: ambient GDAL configuration (outer rasterio.Env) while writing: sibling-file discovery switched off / on
# ---------------------------------------------------------------------------------------------------------
AMBIENT = ("unset", "EMPTY_DIR", "TRUE", "FALSE")
S8_SHAPES = ((17, 31), (33, 50), (520, 600))


def gen_s8(tier):
    def g():
        for amb in AMBIENT:
            for yx in S8_SHAPES:
                for layout in S3_LAYOUTS:
                    for windowed in (False, True):
                        for dest in ("mem", "file"):
                            for okind in ("plain", "computed"):  # product A: no / computed overviews
                                yield ("s8", amb, yx, layout, windowed, dest, okind, "write_cog", 0)
                            for api in ("write_cog", "write_cog_layers"):  # product B: supplied overviews
                                for n_ovr in (0, 1, 2):
                                    yield ("s8", amb, yx, layout, windowed, dest, "external", api, n_ovr)

    return g


def run_s8(case):
    _, amb, yx, layout, windowed, dest, okind, api, n_ovr = case
    r = R(outcome=f"s8:readdir={amb}:{okind}:{api}:n{n_ovr}:{side_class(yx)}:win{int(windowed)}:{dest}")
    xx, data, A, exact, epsg, nodata, kw = build(yx, layout, "int16", "nu", "32633", "special", zeros=True)
    if okind == "external":
        ext, ovl, path, apik = sub_overviews(xx, layout, "int16", n_ovr, zeros=True), "ext", f"layers:{dest}", api + "+overviews"
    else:
        ext, ovl, path, apik = None, ((2, 4) if okind == "computed" else ()), ("2pass" if okind == "computed" else "1pass") + f":{dest}", api
    cls = mkcls(yx, layout, "nu", "32633", "int16", "special", "attr", path, apik, 16, ovl)
    if okind == "external":
        cls["st"] = f"block16:{shape_class(yx)}:ext{n_ovr}"
    for k in cls:  # every key of this slice names the ambient setting
        cls[k] += f":readdir={amb}"
    run_write(r, str(case), xx, data, layout, A, exact, epsg, nodata, dest=dest, api=api, ext=ext,
              ovl=None if ext is not None else ovl, blocksize=16, cls=cls, ambient=amb, use_windowed_writes=windowed, **kw)
    return r


# ---------------------------------------------------------------------------------------------------------
# s7: the block-size / layout helpers on a complete small integer domain
# ---------------------------------------------------------------------------------------------------------
S7_N = 600


def gen_s7(tier):
    def g():
        for b in range(1, S7_N + 1):
            yield ("adjust", b)
        for b in range(1, 131):
            yield ("norm", b)
        for yx in S1_SHAPES:
            for layout in S1_LAYOUTS:
                yield ("yaxis", yx, layout)

    return g


def least16(v):
    return ceil_div(v, 16) * 16


def run_s7(case):
    kind = case[0]
    r = R(outcome=f"s7:{kind}")
    if kind == "adjust":
        b = case[1]
        if adjust_blocksize(b) != least16(b):
            r.fail("adjust_blocksize:no-dim", f"adjust_blocksize({b}) = {adjust_blocksize(b)}, least multiple of 16 covering it is {least16(b)}")
        for dim in range(0, S7_N + 1):
            got = adjust_blocksize(b, dim)
            cover = dim if 0 < dim < b else b  # a block never needs to exceed the image
            if got % 16 or got <= 0:
                r.fail("adjust_blocksize:not-multiple-of-16", f"adjust_blocksize({b}, {dim}) = {got}")
            elif got != least16(cover):
                r.fail("adjust_blocksize:not-least-cover:" + ("image-smaller" if 0 < dim < b else "block-fits"),
                       f"adjust_blocksize({b}, {dim}) = {got}, least multiple of 16 covering min(block, image) is {least16(cover)}")
        r.outcome += ":aligned" if b % 16 == 0 else ":rounded"
    elif kind == "norm":
        b = case[1]
        if norm_blocksize(b) != (least16(b), least16(b)):
            r.fail("norm_blocksize:int", f"norm_blocksize({b}) = {norm_blocksize(b)}")
        for b2 in range(1, 131):
            if norm_blocksize((b, b2)) != (least16(b), least16(b2)):
                r.fail("norm_blocksize:tuple", f"norm_blocksize(({b}, {b2})) = {norm_blocksize((b, b2))}")
    else:
        _, yx, layout = case
        shape = layout_shape(yx, layout)
        gbox = GeoBox(tuple(yx), transform_for("nu", False)[0], "EPSG:32633")
        r.outcome += f":{layout_class(yx, layout)}"
        if layout == "YX":
            want = ("YX", 0)
        elif layout[0] == "YXS":
            want = ("YXS", 0)
        elif shape[-1] in (3, 4) or shape[:2] == tuple(yx):
            r.outcome += ":documented-ambiguous"
            r.nontrivial = False
            return r  # documented shape-based rule: last size 3/4 means RGB(A); (bands, rows) == image shape
        else:
            want = ("SYX", 1)
        got = yaxis_from_shape(shape, gbox)
        if got != want:
            r.fail(f"yaxis_from_shape:{layout_class(yx, layout)}", f"yaxis_from_shape({shape}, gbox{yx}) = {got}, expected {want}")
    return r


# ---------------------------------------------------------------------------------------------------------
def slices(tier):
    return [
        e1.Slice("s1-layouts-transforms", gen_s1(tier), run_s1,
                 "shapes x band layouts (incl. cubes) x transforms x CRSs x {single pass, two-pass}; accessor .odc.to_cog"),
        e1.Slice("s2-dtype-nodata", gen_s2(tier), run_s2,
                 "dtypes x nodata value x nodata source x overview path x destination x final compression"),
        e1.Slice("s3-blocks-overviews-windows", gen_s3(tier), run_s3,
                 "shapes x layouts x block sizes x overview level lists x windowed x intermediate compression x destination"),
        e1.Slice("s4-external-overviews", gen_s4(tier), run_s4,
                 "shapes x layouts x number of supplied overviews x dtype x nodata x transform x API x destination"),
        e1.Slice("s4b-overview-options", gen_s4b(tier), run_s4b,
                 "computed/external overviews x layouts x blocksize x ovr_blocksize x windowed x intermediate x nodata source x dest"),
        e1.Slice("s5-existing-destination", gen_s5(tier), run_s5,
                 "destination {absent, COG, junk} x overwrite {False, True, default} x path type x write variant x layout", shards=32),
        e1.Slice("s6-default-overviews-512", gen_s6(tier), run_s6,
                 "shapes around the 512 px threshold x layouts x block sizes x overview levels {default, [], [2]} x windowed x destination"),
        e1.Slice("s6b-external-overviews-512", gen_s6b(tier), run_s6b,
                 "shapes around / above 512 px x layouts x number of supplied overviews x API x block size x windowed x destination"),
        e1.Slice("s8-ambient-gdal-config", gen_s8(tier), run_s8,
                 "ambient GDAL_DISABLE_READDIR_ON_OPEN {unset, EMPTY_DIR, TRUE, FALSE} (outer rasterio.Env during the write, readers "
                 "outside it) x shapes x layouts x windowed x destination x {no / computed overviews, supplied overviews x API x count}"),
        e1.Slice("s7-helpers", gen_s7(tier), run_s7,
                 "adjust_blocksize on [1,600]x[0,600], norm_blocksize on [1,130]^2, yaxis_from_shape on shapes x layouts", shards=32),
    ]


def main(ctx):
    ctx.rule = (
        "each slice is a complete product (overview requests restricted to min(shape) >= largest factor); every case writes "
        "through write_cog / to_cog / write_cog_layers (function or .odc accessor) to memory or to a fresh temporary directory "
        "and is judged by an independent rasterio/GDAL decode (pixels, dtype, band count/order, transform, CRS, nodata) and a "
        "tifffile walk of the IFDs (tiled, tile sizes multiples of 16, one reduced IFD of size ceil(size/factor) per requested "
        "level, none by default under 512 px, defaults [2,4,8,16,32] from 512 px); existing destination: overwrite False/default "
        "=> IOError and byte-identical file, True => replaced; non-trivial = every case that writes and decodes a file"
    )
    ctx.bounds = dict(
        s1_shapes=S1_SHAPES, layouts=[lk(x) for x in S1_LAYOUTS], transforms=TKINDS, crs=list(CRSS), dtypes=DTYPES,
        nodata=["none", "zero", "special(max / -128 / -9999 / 1.5e300)", "nan (floats)"], nodata_source=["attr", "kwarg", "both"],
        blocksizes=S3_BLOCKS, overview_levels=[list(o) if o is not None else None for o in s3_ovls(ctx.tier)],
        intermediate_compression=list(INTERMEDIATE), ovr_blocksize=[None, 64, 256], external_overviews=[0, 1, 2],
        ambient_gdal_config={READDIR: list(AMBIENT)}, s8_shapes=S8_SHAPES,
        s6_shapes=S6_SHAPES, s6b_shapes=S6B_SHAPES, s6_overview_levels=[None, [], [2]],
        data_patterns=["ramp (s1, s2, s4, s5)", "ramp with an all-zero 16*2^k corner in every band + scattered valid zeros "
                       "(s3, s4b, s6, s6b: the slices that vary windowed writes)"], max_image_side_outside_s6=64, helper_domain=S7_N,
    )
    ctx.assumptions = [
        "rasterio/GDAL (opened on the result, independent of the writing handles) and tifffile are trusted decoders",
        "the band layout of a DataArray is given by its dimension names; write_cog documents no shape-based restriction, so a "
        "band-first cube (band, y, x) with n == ny == nx is inside the domain ('every supported shape, band layout')",
        "transforms with dyadic coefficients are compared with ==, the others (1/3 m, 0.1 deg, 30 deg rotation) within "
        "1e-9*(|value| + pixel)",
        "'blocksize: Size of internal tiff tiles' is demanded of the full-resolution IFD only where unambiguous (multiple of "
        "16, not larger than the image side); overview IFDs only need tile sizes that are multiples of 16",
        "images with exactly one side under 512 px may have either no overviews or the default levels (the statement does not "
        "decide which side counts)",
        "the ambient GDAL configuration is varied only in s8 and only for GDAL_DISABLE_READDIR_ON_OPEN (set through an outer "
        "rasterio.Env around the write; asserted in force inside and absent outside); every other slice runs with GDAL defaults "
        "(the variable is removed from os.environ at import)",
        "content of computed overviews is not compared (the property constrains their number and size); supplied overviews must be "
        "stored as given",
    ]
    sl = slices(ctx.tier)
    if ctx.only:
        sl = [s for s in sl if any(s.name.startswith(o) for o in ctx.only)]
    e1.run_slices(ctx, sl)


def replay(slice_name, case, tier):
    return e1.replay(slices(tier), slice_name, case).fails
