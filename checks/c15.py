"""C15 - GeoTIFF/COG written through GDAL (write_cog / to_cog / write_cog_layers) reads back identical.

E1: every slice is a complete Cartesian product (or a union of complete products) over image shapes, band
layouts (YX, band-first, band-last, including cubes n x n x n), dtypes, nodata values and where they come from,
CRSs, north-up / rotated / sheared transforms, block sizes, overview level lists, externally supplied overviews,
windowed writes, intermediate compression, memory / file destinations and pre-existing destination files.
Every produced file (or byte string) is decoded with rasterio/GDAL opened independently of the writer and its
IFD structure is walked with tifffile (rasterio's profile["tiled"] is False whenever one block covers the image,
so tiling is read from the TIFF tile tags).
"""
from __future__ import annotations

import copy
import hashlib
import io
import logging
import math
import os
import shutil
import tempfile
from contextlib import contextmanager
from pathlib import Path

import numpy as np
import xarray as xr
from affine import Affine

from vf import e1
from vf.core import R

PROPERTY = "C15"
LEVEL = "exploration"

import rasterio  # noqa: E402
import rasterio._err  # noqa: E402
import rasterio.errors  # noqa: E402
from rasterio._env import del_gdal_config, get_gdal_config  # noqa: E402
import tifffile  # noqa: E402

from odc.geo.cog import to_cog, write_cog, write_cog_layers  # noqa: E402
from odc.geo.cog._shared import adjust_blocksize, norm_blocksize, yaxis_from_shape  # noqa: E402
from odc.geo.geobox import GeoBox  # noqa: E402
from odc.geo.xr import wrap_xr, xr_coords  # noqa: E402

READDIR = "GDAL_DISABLE_READDIR_ON_OPEN"
os.environ.pop(READDIR, None)  # the ambient GDAL configuration is a dimension of s8/s8b; everywhere else it is GDAL's default
# options the writers set themselves (through rasterio.Env): whatever the caller had must be back after every call
AMBIENT_OPTS = (READDIR, "GDAL_TIFF_OVR_BLOCKSIZE", "GDAL_NUM_THREADS", "NUM_THREADS")
BASE_ENVIRON = {k: os.environ.get(k) for k in AMBIENT_OPTS}

logging.getLogger("tifffile").setLevel(logging.CRITICAL)
logging.getLogger("rasterio").setLevel(logging.CRITICAL)

# ---------------------------------------------------------------------------------------------------------
# alphabets
# ---------------------------------------------------------------------------------------------------------
CRSS = {"3857": ("EPSG:3857", 3857, False), "4326": ("EPSG:4326", 4326, True), "32633": ("EPSG:32633", 32633, False)}
DTYPES = ("uint8", "int8", "int16", "uint16", "int32", "float32", "float64")
DEFAULT_FACTORS = (2, 4, 8, 16, 32)  # write_cog docstring: "List of shrink factors ... [2,4,8,16,32]"


def transform_for(tkind, geographic):
    """-> (Affine, exact). `exact`: every coefficient is a small dyadic rational (alphabet D, compared with ==);
    otherwise alphabet R, compared with 1e-9*(|value| + pixel)."""
    if geographic:
        s, x0, y0 = 0.25, 10.0, 50.0
        rs, rx0, ry0 = 0.1, 12.3, 45.6
    else:
        s, x0, y0 = 10.0, 500000.0, 6000000.0
        rs, rx0, ry0 = 1 / 3, 654321.7, 5432109.9
    if tkind == "nu":
        return Affine(s, 0.0, x0, 0.0, -s, y0), True
    if tkind == "nu-r":
        return Affine(rs, 0.0, rx0, 0.0, -rs, ry0), False
    if tkind == "rot":
        return Affine.translation(x0, y0) * Affine.rotation(30) * Affine.scale(s, -s), False
    if tkind == "shear":
        return Affine(s, s / 4, x0, s / 8, -s, y0), True
    # --- s12: orientations, pixel-size extremes, origins, near-aligned transforms ------------------------
    if tkind == "south-up":
        return Affine(s, 0.0, x0, 0.0, s, y0), True
    if tkind == "mirror-x":
        return Affine(-s, 0.0, x0, 0.0, -s, y0), True
    if tkind == "rot180":  # both axes mirrored at once
        return Affine(-s, 0.0, x0, 0.0, s, y0), True
    if tkind == "nonsquare":
        return Affine(s, 0.0, x0, 0.0, -1.5 * s, y0), True
    if tkind == "tiny":  # 4.5e-6 deg (0.5 m) / 1/1024 m pixels
        if geographic:
            return Affine(4.5e-6, 0.0, rx0, 0.0, -4.5e-6, ry0), False
        return Affine(1 / 1024, 0.0, x0, 0.0, -1 / 1024, y0), True
    if tkind == "huge":
        if geographic:
            return Affine(15.0, 0.0, -180.0, 0.0, -15.0, 90.0), True
        return Affine(1e5, 0.0, -2e7, 0.0, -1e5, 1e7), True
    if tkind == "halfpx":  # origin half a pixel off whole numbers
        return Affine(s, 0.0, x0 + s / 2, 0.0, -s, y0 + s / 2), True
    if tkind == "near-int":  # origin within 1e-3 CRS units of a whole number
        return Affine(s, 0.0, x0 + 0.0005, 0.0, -s, y0 - 0.0005), False
    if tkind == "offgrid":  # origin not a whole number of pixels from 0
        return Affine(s, 0.0, x0 + s / 3, 0.0, -s, y0 - s / 7), False
    if tkind == "scale-below-1":
        return Affine(0.9991, 0.0, x0, 0.0, -0.9991, y0), False
    if tkind == "rot0.05":  # below a pixel per 1000 px, more than a pixel over a 2000 px raster
        return Affine.translation(x0, y0) * Affine.rotation(0.05) * Affine.scale(s, -s), False
    if tkind == "shear9e-4":
        return Affine(s, 9e-4 * s, x0, 0.0, -s, y0), False
    if tkind == "near-aligned-out":  # shear just outside the library's 1e-10 'axis aligned' window, tiny pixels
        return Affine(4.5e-6, 1.1e-10, rx0, 0.0, -4.5e-6, ry0), False
    if tkind == "near-aligned-in":  # just inside that window
        return Affine(4.5e-6, 0.9e-10, rx0, 0.0, -4.5e-6, ry0), False
    # the window as documented now: shear/rotation terms up to 1e-10 of the pixel size count as axis aligned
    if tkind == "near-aligned-rel-out":
        return Affine(4.5e-6, 1.1 * ALIGN_TOL * 4.5e-6, rx0, -1.1 * ALIGN_TOL * 4.5e-6, -4.5e-6, ry0), False
    if tkind == "near-aligned-rel-in":
        return Affine(4.5e-6, 0.9 * ALIGN_TOL * 4.5e-6, rx0, -0.9 * ALIGN_TOL * 4.5e-6, -4.5e-6, ry0), False
    if tkind == "near-aligned-rel-out-10m":
        return Affine(s, 1.1 * ALIGN_TOL * s, x0, 0.0, -s, y0), False
    if tkind == "near-aligned-rel-in-10m":
        return Affine(s, 0.9 * ALIGN_TOL * s, x0, 0.0, -s, y0), False
    raise ValueError(tkind)


FIRST = ("SYX", "TYX")
ALIGN_TOL = 1e-10  # documented in odc.geo.math.is_affine_st: |shear| <= 1e-10 * pixel size counts as "pure scale and translation"


def tclass(tkind):
    if tkind in ("nu", "nu-r"):
        return "north-up"
    if tkind in ("rot", "shear"):
        return "non-aligned"
    if tkind.startswith("near-aligned"):
        return "near-aligned-" + ("inside" if "-in" in tkind else "outside") + ("-relative-window" if "-rel-" in tkind else "-1e-10-absolute")
    return tkind


def shape_class(yx):
    h, w = yx
    if h == 1 and w == 1:
        return "single-px"
    if h == 1:
        return "single-row"
    if w == 1:
        return "single-col"
    return "multi"


def layout_shape(yx, layout):
    """layout: 'YX' | ('SYX', n) band-first | ('TYX', n) time-first | ('YXS', n) band-last"""
    if layout == "YX":
        return tuple(yx)
    kind, n = layout
    return (n, *yx) if kind in FIRST else (*yx, n)


def layout_class(yx, layout):
    if layout == "YX":
        return "YX"
    kind, n = layout
    base = "band-first" if kind == "SYX" else "time-first" if kind == "TYX" else "band-last"
    if n > 1 and n == yx[0] == yx[1]:
        base += "-cube"
    return base


def lk(layout):
    return layout if layout == "YX" else f"{layout[0]}{layout[1]}"


def nodata_for(dtype, kind):
    dt = np.dtype(dtype)
    if kind == "none":
        return None
    if kind == "zero":
        return 0
    if kind == "nan":
        return float("nan")
    if dt.kind == "u":
        return int(np.iinfo(dt).max) if dt.itemsize < 8 else 2**32
    if dt.kind == "i":
        return -128 if dt.itemsize == 1 else -9999
    if dt.kind != "f":
        return None  # complex / bool: no nodata
    return {2: -1000.0, 4: -9999.0, 8: 1.5e300}[dt.itemsize]


def make_data(shape, dtype, off=0, nodata=None):
    """Every band/row/column distinguishable (a transposition changes the content); the nodata value itself and,
    for NaN nodata, a NaN pixel occur in the data."""
    n = int(np.prod(shape))
    dt = np.dtype(dtype)
    mod = 113 if dt.itemsize == 1 else 251
    a = ((np.arange(n, dtype="int64") * 7 + off) % mod + 1).reshape(shape)
    if dt.kind == "c":
        a = (a + 0.5j).astype(dt)
    elif dt.kind == "b":
        a = a % 3 == 0
    else:
        a = (a + 0.25).astype(dt) if dt.kind == "f" else a.astype(dt)
    if nodata is not None and n > 1:
        a.flat[n - 1] = nodata
    return a


def zlen(d):
    """Side of the all-zero corner: the largest 16*2^k below the image side (the side itself for d <= 16)."""
    for t in (512, 256, 128, 64, 32, 16):
        if d > t:
            return t
    return d


def punch_zeros(v):
    """v: (bands, y, x) *view* of the data. Zero the top-left corner in every band so that, on every block grid
    with block <= zlen, whole tiles hold nothing but valid zeros; plus valid zeros scattered in non-zero tiles."""
    _, h, w = v.shape
    zh, zw = zlen(h), zlen(w)
    if (zh, zw) != (h, w):
        v[:, :zh, :zw] = 0
    if h * w > 2:
        for y, x in ((h - 1, w // 2), (h // 2, w - 1), (h - 1, 0), (0, w - 1)):
            if (y, x) != (h - 1, w - 1):  # last pixel carries the nodata value
                v[:, y, x] = 0


def apply_pattern(v, pattern, nodata):
    """v: (bands, y, x) view. 'all-nodata': nothing but nodata (0 when none is set); 'sprinkle': isolated nodata pixels,
    a whole 16x16 tile of nodata, and (floats) NaN pixels next to a non-NaN nodata."""
    _, h, w = v.shape
    fill = 0 if nodata is None else nodata
    if pattern == "all-nodata":
        v[...] = fill
    elif pattern == "sprinkle":
        for y, x in ((0, 0), (h // 2, w // 3), (h - 1, w - 1), (h // 3, w - 1)):
            v[:, y, x] = fill
        if h >= 32 and w >= 32:
            v[:, 16:32, 16:32] = fill
        if v.dtype.kind == "f":
            v[:, h // 2, w // 2] = np.nan
            v[0, 0, w - 1] = np.nan
    elif pattern not in (None, "ramp"):
        raise ValueError(pattern)


def bands_of(data, layout):
    if layout == "YX":
        return data[np.newaxis]
    return data if layout[0] in FIRST else np.moveaxis(data, -1, 0)


LAEA = "+proj=laea +lat_0=10 +lon_0=20 +datum=WGS84 +units=m +no_defs"  # a CRS without an EPSG code
CRS_SPECS = ("str", "int", "lower", "wkt", "json", "pyproj", "odc", "laea", "nocrs")


def crs_spec(crs, spec):
    """The same CRS handed to GeoBox in another encoding -> (value for GeoBox, expected: EPSG code or proj string)"""
    import pyproj  # pylint: disable=import-outside-toplevel
    from odc.geo.crs import CRS as OCRS  # pylint: disable=import-outside-toplevel

    crs_str, epsg, _ = CRSS[crs]
    if spec == "str":
        return crs_str, epsg
    if spec == "int":
        return epsg, epsg
    if spec == "lower":
        return crs_str.lower(), epsg
    if spec == "wkt":
        return pyproj.CRS.from_epsg(epsg).to_wkt(), epsg
    if spec == "json":
        return pyproj.CRS.from_epsg(epsg).to_json_dict(), epsg
    if spec == "pyproj":
        return pyproj.CRS.from_epsg(epsg), epsg
    if spec == "odc":
        return OCRS(crs_str), epsg
    if spec == "laea":
        return LAEA, LAEA
    if spec == "nocrs":
        return None, None
    raise ValueError(spec)


def encode_nodata(v, enc, dtype):
    """Same value, other encoding: python number / numpy scalar of the array dtype / python float."""
    if v is None or enc == "py":
        return v
    if enc == "np":
        return np.dtype(dtype).type(v)
    if enc == "float":
        return float(v)
    raise ValueError(enc)


def build(yx, layout, dtype, tkind="nu", crs="32633", ndkind="none", nd_src="attr", off=0, zeros=False, pattern=None,
          spec="str", nd_enc="py"):
    """-> (DataArray, raw data, transform, exact, expected CRS (EPSG code or proj string), wanted nodata, writer kwargs)"""
    crs_val, epsg = crs_spec(crs, spec)
    A, exact = transform_for(tkind, CRSS[crs][2] and spec not in ("laea", "nocrs"))
    gbox = GeoBox(tuple(yx), A, crs_val)
    nodata = nodata_for(dtype, ndkind)
    data = make_data(layout_shape(yx, layout), dtype, off, nodata)
    if zeros:
        punch_zeros(bands_of(data, layout))
    apply_pattern(bands_of(data, layout), pattern, nodata)
    attrs = {}
    kw = {}
    if nodata is not None:
        nd_given = encode_nodata(nodata, nd_enc, dtype)
        if nd_src == "attr":
            attrs["nodata"] = nd_given
        elif nd_src == "kwarg":
            kw["nodata"] = nd_given
        else:  # both: documented precedence - the explicit argument wins over the attribute
            attrs["nodata"] = 1
            kw["nodata"] = nd_given
    if layout != "YX" and layout[0] == "TYX":
        xx = wrap_xr(data, gbox, time=[f"2020-01-{i + 1:02d}" for i in range(layout[1])], **attrs)  # dims (time, y, x)
    elif layout == "YX" or layout[0] == "YXS":
        xx = wrap_xr(data, gbox, **attrs)  # dims (y, x) / (y, x, band)
    else:
        ydim, xdim = gbox.dimensions
        xx = xr.DataArray(data, dims=("band", ydim, xdim), coords=xr_coords(gbox), attrs=attrs)
    return xx, data, A, exact, epsg, nodata, kw


def sub_overviews(xx, layout, dtype, n_ovr, zeros=False, pattern=None, nodata=None):
    """Externally supplied overviews: the geo-registered array strided by 2, 4, ... with content that differs from
    any resampling of the image (so a regenerated overview would be noticed)."""
    out = []
    for k in range(1, n_ovr + 1):
        st = 2**k
        if layout == "YX":
            o = xx[::st, ::st]
        elif layout[0] in FIRST:
            o = xx[:, ::st, ::st]
        else:
            o = xx[::st, ::st, :]
        od = make_data(o.shape, dtype, off=17 * k + 3)
        if zeros:
            punch_zeros(bands_of(od, layout))
        apply_pattern(bands_of(od, layout), pattern, nodata)
        o = o.copy(data=od)
        o.attrs.update(xx.attrs)
        out.append(o)
    return out


def ceil_div(a, b):
    return -(-a // b)


def expected_levels(yx, ovl):
    """Page sizes of the overview levels the property prescribes; None = either nothing or the defaults (one side
    under 512 and one not: 'image under 512 pixels' is not decided by the statement)."""
    h, w = yx
    if ovl is None:
        if max(h, w) < 512:
            return []
        if min(h, w) < 512:
            return None
        ovl = DEFAULT_FACTORS
    return [(ceil_div(h, f), ceil_div(w, f)) for f in ovl]


# ---------------------------------------------------------------------------------------------------------
# oracle
# ---------------------------------------------------------------------------------------------------------
@contextmanager
def open_rio(blob, **kw):
    if isinstance(blob, (bytes, bytearray)):
        with rasterio.MemoryFile(bytes(blob)) as mem:
            with mem.open(**kw) as src:
                yield src
    else:
        with rasterio.open(str(blob), **kw) as src:
            yield src


@contextmanager
def open_tiff(blob):
    if isinstance(blob, (bytes, bytearray)):
        with tifffile.TiffFile(io.BytesIO(bytes(blob))) as tf:
            yield tf
    else:
        with tifffile.TiffFile(str(blob)) as tf:
            yield tf


def transform_matches(got, want, exact, shape):
    """D alphabet: ==. R alphabet: the four image corners must land within 16 ulp of the largest corner coordinate plus
    1e-9 of the smaller pixel side (binary64 rounding of the coordinate labels, nothing that scales with the magnitude) plus
    the library's documented axis-alignment tolerance accumulated over the raster (1e-10 pixel per pixel)."""
    g, w = Affine(*tuple(got)[:6]), Affine(*tuple(want)[:6])
    if exact:
        return tuple(g)[:6] == tuple(w)[:6], 0.0
    H, W = shape
    pix = min(math.hypot(w.a, w.d), math.hypot(w.b, w.e))
    worst = cmax = 0.0
    for x, y in ((0, 0), (W, 0), (0, H), (W, H)):
        gx, gy = g * (x, y)
        wx, wy = w * (x, y)
        worst = max(worst, abs(gx - wx), abs(gy - wy))
        cmax = max(cmax, abs(wx), abs(wy))
    return worst <= 16 * math.ulp(cmax) + (1e-9 + ALIGN_TOL * max(H, W)) * pix, worst / pix


def same_nodata(got, want):
    if want is None:
        return got is None
    if got is None:
        return False
    if want != want:
        return got != got
    return float(got) == float(want)


def inspect(blob, want_bands, A, exact, epsg, nodata, levels, blocksize, r: R, what, cls, ext_overviews=None, ovr_blocksize=None):
    """All clauses of the property on one written file / byte string.

    cls: dict of input classes used in finding keys: pix (layout + api), geo (transform class + shape class + path),
    crs, nd (dtype + nodata kind + source + path), st (block size + shape class + overview request)."""
    H, W = want_bands.shape[1:]
    # --- independent decode -----------------------------------------------------------------------------
    with open_rio(blob) as src:
        got = src.read()
        if src.driver != "GTiff":
            r.fail(f"decode:not-geotiff:{cls['st']}", f"{what}: driver {src.driver}")
        if any(d != want_bands.dtype.name for d in src.dtypes):
            r.fail(f"decode:dtype:{cls['nd']}", f"{what}: file dtypes {src.dtypes}, data {want_bands.dtype}")
        if got.shape[0] != want_bands.shape[0]:
            r.fail(f"decode:band-count:{cls['pix']}", f"{what}: {got.shape[0]} bands, expected {want_bands.shape[0]}")
        elif got.shape[1:] != (H, W):
            r.fail(f"decode:image-size:{cls['pix']}", f"{what}: decoded {got.shape[1:]}, original {(H, W)}")
        elif not np.array_equal(got, want_bands, equal_nan=want_bands.dtype.kind == "f"):
            bad = np.argwhere(~((got == want_bands) | ((got != got) & (want_bands != want_bands))))
            b0 = tuple(int(v) for v in bad[0])
            gb_, wb_ = got[tuple(bad.T)], want_bands[tuple(bad.T)]
            kind = "pixels"
            if nodata is not None and nodata == nodata and nodata != 0 and (wb_ == 0).all() and (gb_ == nodata).all():
                kind = "pixels:valid-zero-read-as-nodata"
            r.fail(f"decode:{kind}:{cls['pix']}",
                   f"{what}: {len(bad)} of {got.size} pixels differ (band order / values), first at band,y,x={b0}: "
                   f"read {got[b0]!r}, written {want_bands[b0]!r}")
        t_ok, t_px = transform_matches(src.transform, A, exact, (H, W))
        if not t_ok:
            r.fail(f"georef:transform:{cls['geo']}",
                   f"{what}: file transform {tuple(src.transform)[:6]}, GeoBox transform {tuple(A)[:6]}"
                   f" ({'exact comparison' if exact else 'image corners displaced by %.3g px; 16 ulp + (1e-9 + 1e-10*size) px allowed' % t_px})")
        if epsg is None:
            if src.crs is not None:
                r.fail(f"georef:crs:{cls['crs']}", f"{what}: the array has no CRS, the file says {src.crs}")
        elif isinstance(epsg, int):
            if src.crs is None or src.crs.to_epsg() != epsg:
                r.fail(f"georef:crs:{cls['crs']}", f"{what}: file CRS {src.crs}, expected EPSG:{epsg}")
        elif src.crs is None or src.crs != rasterio.crs.CRS.from_string(epsg):  # GDAL's own OSRIsSame on a fresh object
            r.fail(f"georef:crs:{cls['crs']}", f"{what}: file CRS {src.crs}, expected {epsg}")
        if not all(same_nodata(v, nodata) for v in (src.nodata, *src.nodatavals)):
            r.fail(f"georef:nodata:{cls['nd']}", f"{what}: file nodata {src.nodatavals}, requested {nodata!r}")
        gdal_ovr = [src.overviews(i) for i in src.indexes]
    # --- structure ----------------------------------------------------------------------------------------
    with open_tiff(blob) as tf:
        pages = list(tf.pages)
        sizes = [(p.imagelength, p.imagewidth) for p in pages]
        if sizes[0] != (H, W):
            r.fail(f"layout:first-page-size:{cls['st']}", f"{what}: first IFD is {sizes[0]}, image {(H, W)}")
        if levels is None:
            want_any = [[(H, W)], [(H, W)] + expected_levels((H, W), DEFAULT_FACTORS)]
            if sizes not in want_any:
                r.fail(f"overviews:default:{cls['st']}", f"{what}: IFD sizes {sizes}: neither none nor the default levels")
        elif sizes[1:] != list(levels):
            r.fail(f"overviews:levels:{cls['st']}",
                   f"{what}: overview IFD sizes {sizes[1:]}, requested levels give {list(levels)} (ceil(size/factor)); "
                   f"GDAL overview factors {gdal_ovr[0]}")
        if any(len(o) != len(sizes) - 1 for o in gdal_ovr):
            r.fail(f"overviews:gdal-count:{cls['st']}", f"{what}: GDAL sees overviews {gdal_ovr}, file has {len(sizes) - 1} reduced IFDs")
        for pi, p in enumerate(pages):
            if not p.is_tiled:
                r.fail(f"layout:not-tiled:{cls['st']}", f"{what}: IFD {pi} {sizes[pi]} is stripped, not tiled")
                continue
            if p.tilelength % 16 or p.tilewidth % 16:
                r.fail(f"layout:tile-not-multiple-of-16:{cls['st']}", f"{what}: IFD {pi} tile {(p.tilelength, p.tilewidth)}")
        # documented parameter: "blocksize: Size of internal tiff tiles" - demanded only where it is unambiguous
        # (multiple of 16 and not larger than the image along that axis)
        bs = 512 if blocksize is None else blocksize
        p0 = pages[0]
        if p0.is_tiled and bs % 16 == 0:
            for ax, dim, t in (("y", H, p0.tilelength), ("x", W, p0.tilewidth)):
                if dim >= bs > 0 and t != bs:
                    r.fail(f"layout:tile-size-not-as-requested:{ax}:{cls['st']}",
                           f"{what}: blocksize={bs}, image {ax} size {dim}, tile {ax} size {t}")
        # documented parameter: "ovr_blocksize: Size of internal tiles in overview images (defaults to blocksize)" - demanded
        # where GDAL accepts the value as it is (a power of two in [64, 4096]; other values make GDAL fall back to its own)
        obs = bs if ovr_blocksize is None else ovr_blocksize
        if isinstance(obs, (int, np.integer)) and 64 <= obs <= 4096 and obs & (obs - 1) == 0:
            for pi, p in enumerate(pages[1:], 1):
                if p.is_tiled and (p.tilelength, p.tilewidth) != (obs, obs):
                    r.fail(f"layout:ovr-tile-size-not-as-requested:{cls['st']}",
                           f"{what}: overview tile size {obs} requested (ovr_blocksize={ovr_blocksize}, blocksize={blocksize}), "
                           f"IFD {pi} has tiles {(p.tilelength, p.tilewidth)}")
                    break
    # --- externally supplied overviews are the ones stored ------------------------------------------------
    if ext_overviews:
        for k, wo in enumerate(ext_overviews):
            if k >= len(sizes) - 1:
                break
            with open_rio(blob, overview_level=k) as src:
                g = src.read()
            if g.shape != wo.shape or not np.array_equal(g, wo, equal_nan=wo.dtype.kind == "f"):
                if (g.shape == wo.shape and nodata is not None and nodata == nodata and nodata != 0
                        and (wo[g != wo] == 0).all() and (g[g != wo] == nodata).all()):
                    r.fail(f"overviews:external-content:valid-zero-read-as-nodata:{cls['pix']}",
                           f"{what}: supplied overview level {k}: {int((g != wo).sum())} valid 0 pixels read back as nodata {nodata!r}")
                    continue
                # class of the supplied layer itself: a band-first layer (n, n, n) is a cube even when the image is not
                lay, api = cls["pix"].split(":", 1)
                if lay == "band-first" and wo.shape[0] > 1 and wo.shape[0] == wo.shape[1] == wo.shape[2]:
                    lay = "band-first-cube"
                r.fail(f"overviews:external-content:{lay}:{api}",
                       f"{what}: overview level {k} read back as {g.shape} differs from the supplied layer (bands,y,x)={wo.shape}: "
                       f"{int((g != wo).sum()) if g.shape == wo.shape else 'all'} values differ")


def gdal_state():
    return tuple((k, get_gdal_config(k, normalize=False), os.environ.get(k)) for k in AMBIENT_OPTS)


def scrub_gdal():
    """Back to the state this worker started with (used after a reported leak, so that later cases are not poisoned)."""
    for k in AMBIENT_OPTS:
        if BASE_ENVIRON[k] is None:
            os.environ.pop(k, None)
        else:
            os.environ[k] = BASE_ENVIRON[k]
        if not rasterio.env.hasenv():
            del_gdal_config(k)


BASE_STATE = gdal_state()


@contextmanager
def ambient_env(spec):
    """Ambient GDAL configuration chosen by the CALLER and in force while the writer runs: "unset", a value for
    GDAL_DISABLE_READDIR_ON_OPEN (outer rasterio.Env), or (option, value, "env" | "environ") - an outer rasterio.Env or the
    process environment. Asserts that GDAL really sees the setting; it is gone again outside, so it can neither be
    ineffective nor leak into the readers or into later cases of the same worker."""
    if gdal_state() != BASE_STATE or rasterio.env.hasenv():
        scrub_gdal()  # an earlier case leaked (and reported it)
        if gdal_state() != BASE_STATE or rasterio.env.hasenv():
            raise RuntimeError(f"cannot restore a pristine GDAL configuration: {gdal_state()} vs {BASE_STATE}")
    if spec == "unset":
        yield
        return
    opt, val, how = (READDIR, spec, "env") if isinstance(spec, str) else spec
    if how == "environ":
        del_gdal_config(opt)  # rasterio re-instates the previous value as an explicit option when its outermost Env exits
        os.environ[opt] = val
        try:
            if get_gdal_config(opt, normalize=False) != val:
                raise RuntimeError(f"ambient {opt}={val} (environment) not in force: {get_gdal_config(opt, normalize=False)!r}")
            yield
        finally:
            scrub_gdal()
    else:
        with rasterio.Env(**{opt: val}):
            if get_gdal_config(opt, normalize=False) != val:
                raise RuntimeError(f"ambient {opt}={val} not in force: {get_gdal_config(opt, normalize=False)!r}")
            yield
    if gdal_state() != BASE_STATE or rasterio.env.hasenv():
        scrub_gdal()


def deep_same(a, b):
    """Structural equality that treats NaN == NaN and compares arrays by content and dtype."""
    if isinstance(a, np.ndarray) or isinstance(b, np.ndarray):
        return (isinstance(a, np.ndarray) and isinstance(b, np.ndarray) and a.dtype == b.dtype and a.shape == b.shape
                and bool(np.array_equal(a, b, equal_nan=a.dtype.kind in "fc")))
    if type(a) is not type(b):
        return False
    if isinstance(a, dict):
        return list(a) == list(b) and all(deep_same(a[k], b[k]) for k in a)
    if isinstance(a, (list, tuple)):
        return len(a) == len(b) and all(deep_same(x, y) for x, y in zip(a, b))
    if isinstance(a, xr.DataArray):
        return deep_same(snap(a), snap(b))
    if isinstance(a, (float, np.floating)) and a != a:
        return bool(b != b)
    return bool(a == b)


def snap(xx):
    """Everything a caller can observe about the array it handed in."""
    return dict(values=np.array(xx.data, copy=True), attrs=copy.deepcopy(dict(xx.attrs)), encoding=copy.deepcopy(dict(xx.encoding)),
                dims=tuple(xx.dims), name=xx.name,
                coords={str(k): (np.array(v.values, copy=True), copy.deepcopy(dict(v.attrs)), copy.deepcopy(dict(v.encoding)),
                                 tuple(v.dims)) for k, v in xx.coords.items()})


def changed(before, xx):
    now = snap(xx)
    return [k for k in before if not deep_same(before[k], now[k])]


def snap_kw(kw):
    return {k: (snap(v) if isinstance(v, xr.DataArray) else copy.deepcopy(v)) for k, v in kw.items()}


def judge_side_effects(r: R, what, tag, inputs, before, kw, kw_before, state_before, state_after):
    """Clauses that hold for every call: the caller's arrays (values, attrs, encoding, coordinates) and option containers are
    what they were, and every GDAL option the writer touches is back to what the caller had."""
    for name, xx in inputs:
        for k in changed(before[name], xx):
            r.fail(f"caller-input-modified:{k}:{tag}", f"{what}: {name}.{k} differs after the call")
    for k, v in kw.items():
        if not isinstance(v, xr.DataArray) and not deep_same(kw_before[k], v):
            r.fail(f"caller-input-modified:option-{k}:{tag}", f"{what}: option {k} was {kw_before[k]!r}, is {v!r} after the call")
    for (k, cfg0, env0), (_, cfg1, env1) in zip(state_before, state_after):
        if (cfg0, env0) != (cfg1, env1):
            r.fail(f"ambient:not-restored:{k}:{tag}",
                   f"{what}: GDAL option {k} was {cfg0!r} (environment {env0!r}) before the call and is {cfg1!r} "
                   f"(environment {env1!r}) after it")


def run_write(r: R, what, xx, data, layout, A, exact, epsg, nd_want, *, dest, api="write_cog", accessor=False,
              ovl=None, ext=None, blocksize=None, cls=None, ambient="unset", may_refuse=(), **kw):
    """Write through the real API into memory or a fresh temporary directory (under the ambient GDAL configuration),
    then judge with readers opened outside that configuration. Returns False when the writer refused (may_refuse)."""
    yx = bands_of(data, layout).shape[1:]
    want = bands_of(data, layout).copy()
    ext_b = None
    if ext is not None:
        levels = [bands_of(o.data, layout).shape[1:] for o in ext]
        ext_b = [np.array(bands_of(o.data, layout)) for o in ext]
    else:
        levels = expected_levels(yx, ovl)
        if ovl is not None:  # None: argument not given, the documented default applies
            kw["overview_levels"] = list(ovl)
    if blocksize is not None:
        kw["blocksize"] = blocksize
    inputs = [("geo_im", xx)] + [(f"overviews[{i}]", o) for i, o in enumerate(ext or ())]
    before = {name: snap(v) for name, v in inputs}
    kw_before = snap_kw(kw)
    td = None
    blob = out = None
    refused = False
    try:
        with ambient_env(ambient):
            state_before = gdal_state()
            try:
                if dest == "mem":
                    if api == "write_cog_layers":
                        blob = write_cog_layers([xx, *ext], **kw)
                    elif ext is not None:
                        blob = xx.odc.to_cog(overviews=ext, **kw) if accessor else to_cog(xx, overviews=ext, **kw)
                    else:
                        blob = xx.odc.to_cog(**kw) if accessor else to_cog(xx, **kw)
                else:
                    td = tempfile.mkdtemp(prefix="vf-c15-")
                    path = os.path.join(td, "out.tif")
                    if api == "write_cog_layers":
                        out = write_cog_layers([xx, *ext], path, **kw)
                    elif ext is not None:
                        out = xx.odc.write_cog(path, overviews=ext, **kw) if accessor else write_cog(xx, path, overviews=ext, **kw)
                    else:
                        out = xx.odc.write_cog(path, **kw) if accessor else write_cog(xx, path, **kw)
            except may_refuse as e:  # inputs the statement does not call supported: a clean refusal is acceptable
                r.outcome += f":refused-{type(e).__name__}"
                refused = True
            state_after = gdal_state()
        judge_side_effects(r, what, cls["pix"].split(":")[1], inputs, before, kw, kw_before, state_before, state_after)
        if refused:
            return False
        # judged outside the ambient configuration: the readers run in GDAL's default environment
        if dest == "mem":
            if not isinstance(blob, bytes):
                r.fail(f"return:not-bytes:{cls['pix']}", f"{what}: returned {type(blob).__name__}")
                return True
        else:
            if out is None or str(out) != path or not os.path.isfile(path):
                r.fail(f"return:path:{cls['pix']}", f"{what}: returned {out!r}, asked to write {path}")
                return True
            blob = path
        inspect(blob, want, A, exact, epsg, nd_want, levels, blocksize, r, what, cls, ext_overviews=ext_b,
                ovr_blocksize=kw.get("ovr_blocksize"))
    finally:
        if td is not None:
            shutil.rmtree(td, ignore_errors=True)
    return True


def mkcls(yx, layout, tkind="nu", crs="32633", dtype="uint8", ndkind="none", nd_src="attr", path="1pass", api="write_cog",
          blocksize=None, ovl=()):
    sc = shape_class(yx)
    ov = "default" if ovl is None else ("ext" if ovl == "ext" else "levels" + "-".join(map(str, ovl)) if ovl else "none")
    return dict(
        pix=f"{layout_class(yx, layout)}:{api}",
        geo=f"{tclass(tkind)}:{sc}:{path}",
        crs=f"{crs}:{path}",
        nd=f"{dtype}:{ndkind}:{nd_src}:{path}",
        st=f"block{blocksize}:{sc}:{ov}",
    )


# ---------------------------------------------------------------------------------------------------------
# s1: shapes x layouts (incl. cubes) x transforms x CRSs x {single pass, two-pass with overviews}
# ---------------------------------------------------------------------------------------------------------
S1_SHAPES = ((1, 1), (1, 4), (4, 1), (2, 2), (3, 3), (4, 4), (5, 5), (16, 16), (17, 31), (33, 2), (64, 48))
S1_MORE = ((1, 2), (2, 1), (1, 17), (17, 1), (2, 3), (6, 6), (7, 7), (31, 17), (48, 64))  # thorough
S1_LAYOUTS = ("YX", ("SYX", 1), ("SYX", 2), ("SYX", 3), ("SYX", 4), ("SYX", 5), ("YXS", 1), ("YXS", 2), ("YXS", 3),
              ("YXS", 4), ("YXS", 5), ("TYX", 1), ("TYX", 3), ("TYX", 4))
TKINDS = ("nu", "nu-r", "rot", "shear")


def gen_s1(tier):
    shapes = S1_SHAPES + (S1_MORE if tier == "thorough" else ())
    layouts = S1_LAYOUTS + ((("SYX", 6), ("SYX", 7), ("YXS", 6), ("YXS", 7), ("TYX", 2), ("TYX", 5)) if tier == "thorough" else ())

    tks = TKINDS if tier == "thorough" else ("nu", "rot")  # the other transforms x shapes x routes: s12

    def g():
        for yx in shapes:
            for layout in layouts:
                for tk in tks:
                    for crs in CRSS:
                        for two_pass in (False, True):
                            if two_pass and max(yx) < 2:
                                continue  # a second 1x1 level is what GDAL refuses (s13)
                            yield ("s1", yx, layout, tk, crs, two_pass)

    return g


def run_s1(case):
    _, yx, layout, tk, crs, two_pass = case
    path = "2pass" if two_pass else "1pass"
    r = R(outcome=f"s1:{layout_class(yx, layout)}:{shape_class(yx)}:{tclass(tk)}:{path}")
    xx, data, A, exact, epsg, nodata, kw = build(yx, layout, "int16", tk, crs, "special")
    ovl = (2,) if two_pass else ()
    cls = mkcls(yx, layout, tk, crs, "int16", "special", "attr", path, "write_cog", 16, ovl)
    run_write(r, str(case), xx, data, layout, A, exact, epsg, nodata, dest="mem", accessor=True, ovl=ovl, blocksize=16,
              cls=cls, **kw)
    return r


# ---------------------------------------------------------------------------------------------------------
# s2: dtypes x nodata (value, where it is given) x overview path x destination x final compression
# ---------------------------------------------------------------------------------------------------------
def gen_s2(tier):
    def g():
        for dtype in DTYPES:
            kinds = ["none", "zero", "special"] + (["nan"] if np.dtype(dtype).kind == "f" else [])
            for ndk in kinds:
                for nd_src in (("attr",) if ndk == "none" else ("attr", "kwarg", "both")):
                    for ovl in ((), (2, 4)):
                        for dest in ("mem", "file"):
                            for comp in (("default", "zstd", "lzw") if tier == "thorough" else ("default", "zstd")):
                                for yx, layout in (((17, 31), "YX"), ((9, 20), ("SYX", 2)), ((12, 7), ("YXS", 3))):
                                    yield ("s2", dtype, ndk, nd_src, ovl, dest, comp, yx, layout)

    return g


def run_s2(case):
    _, dtype, ndk, nd_src, ovl, dest, comp, yx, layout = case
    path = ("2pass" if ovl else "1pass") + ":" + dest
    r = R(outcome=f"s2:{dtype}:{ndk}:{path}")
    xx, data, A, exact, epsg, nodata, kw = build(yx, layout, dtype, "nu", "32633", ndk, nd_src)
    if comp != "default":
        kw["compress"] = comp
    cls = mkcls(yx, layout, "nu", "32633", dtype, ndk, nd_src, path, "write_cog", 16, ovl)
    run_write(r, str(case), xx, data, layout, A, exact, epsg, nodata, dest=dest, ovl=ovl, blocksize=16, cls=cls, **kw)
    return r


# ---------------------------------------------------------------------------------------------------------
# s3: shapes x layouts x block sizes x overview level lists x windowed x intermediate compression x destination
# ---------------------------------------------------------------------------------------------------------
S3_SHAPES = ((1, 1), (3, 3), (3, 40), (40, 3), (16, 16), (17, 31), (33, 50), (64, 48))
S3_MORE = ((1, 33), (33, 1), (2, 2), (48, 64))  # thorough
S3_LAYOUTS = ("YX", ("SYX", 2), ("YXS", 3))
S3_BLOCKS = (None, 16, 32, 48, 100, 512)
INTERMEDIATE = {"off": False, "on": True, "lzw": "lzw", "zstd-dict": {"compress": "zstd", "zstd_level": 1}}


def s3_ovls(tier):
    base = [None, (), (2,), (2, 4)]
    if tier == "thorough":
        base += [(4,), (3,), (2, 4, 8), (2, 4, 8, 16)]
    return base


def gen_s3(tier):
    inter = ("off", "lzw") if tier == "quick" else tuple(INTERMEDIATE)  # True / dict forms: s4b, s9 (quick)

    shapes = S3_SHAPES + (S3_MORE if tier == "thorough" else ())

    def g():
        for yx in shapes:
            for layout in S3_LAYOUTS:
                for bs in S3_BLOCKS:
                    for ovl in s3_ovls(tier):
                        if ovl and min(yx) < max(ovl):
                            continue
                        for windowed in (False, True):
                            for ic in inter:
                                for dest in ("mem", "file"):
                                    yield ("s3", yx, layout, bs, ovl, windowed, ic, dest)

    return g


def run_s3(case):
    _, yx, layout, bs, ovl, windowed, ic, dest = case
    path = ("2pass" if ovl else "1pass") + ":" + dest
    ov = "default" if ovl is None else len(ovl)
    r = R(outcome=f"s3:{shape_class(yx)}:block{bs}:ovr{ov}:win{int(windowed)}:{ic}:{dest}")
    xx, data, A, exact, epsg, nodata, kw = build(yx, layout, "uint16", "nu", "3857", "special", zeros=True)
    cls = mkcls(yx, layout, "nu", "3857", "uint16", "special", "attr", path, "write_cog", bs, ovl)
    cls["pix"] += f":win{int(windowed)}"
    run_write(r, str(case), xx, data, layout, A, exact, epsg, nodata, dest=dest, ovl=ovl, blocksize=bs, cls=cls,
              use_windowed_writes=windowed, intermediate_compression=INTERMEDIATE[ic], **kw)
    return r


# ---------------------------------------------------------------------------------------------------------
# s4: externally supplied overviews (write_cog(overviews=...), to_cog(overviews=...), write_cog_layers)
# ---------------------------------------------------------------------------------------------------------
S4_SHAPES = ((4, 4), (5, 9), (16, 16), (17, 31), (33, 50), (64, 48))
S4_LAYOUTS = ("YX", ("SYX", 2), ("SYX", 4), ("YXS", 3), ("YXS", 4))


def gen_s4(tier):
    dts = ("uint8", "float32") if tier == "quick" else ("uint8", "int16", "float32", "float64")

    def g():
        for yx in S4_SHAPES:
            for layout in S4_LAYOUTS:
                for n_ovr in (0, 1, 2):
                    for dtype in dts:
                        for ndk in ("none", "special"):
                            for tk in (("nu", "rot") if tier == "thorough" else ("rot",)):  # north-up + supplied layers: s6b, s8, s10
                                for api in ("write_cog", "write_cog_layers"):
                                    for dest in ("mem", "file"):
                                        yield ("s4", yx, layout, n_ovr, dtype, ndk, tk, api, dest)

    return g


def run_s4(case):
    _, yx, layout, n_ovr, dtype, ndk, tk, api, dest = case
    path = f"layers:{dest}"
    r = R(outcome=f"s4:{layout_class(yx, layout)}:n{n_ovr}:{api}:{dest}:{tclass(tk)}")
    xx, data, A, exact, epsg, nodata, kw = build(yx, layout, dtype, tk, "32633", ndk)
    ext = sub_overviews(xx, layout, dtype, n_ovr)
    cls = mkcls(yx, layout, tk, "32633", dtype, ndk, "attr", path, api + "+overviews", 16, "ext")
    run_write(r, str(case), xx, data, layout, A, exact, epsg, nodata, dest=dest, api=api, ext=ext, blocksize=16, cls=cls, **kw)
    return r


# s4b: options on the overview paths: overview block size, block size, windowed, intermediate compression, nodata source
def gen_s4b(tier):
    def g():
        for okind in ("computed", "external"):
            for layout in S3_LAYOUTS:
                for bs in (16, 32, 100):
                    for obs in (None, 64, 256):
                        for windowed in (False, True):
                            for ic in ("off", "on", "lzw"):
                                for nd_src in ("attr", "kwarg"):
                                    for dest in ("mem", "file"):
                                        yield ("s4b", okind, layout, bs, obs, windowed, ic, nd_src, dest)

    return g


def run_s4b(case):
    _, okind, layout, bs, obs, windowed, ic, nd_src, dest = case
    yx = (33, 50)
    r = R(outcome=f"s4b:{okind}:block{bs}:ovrblock{obs}:win{int(windowed)}:{ic}:{dest}")
    xx, data, A, exact, epsg, nodata, kw = build(yx, layout, "int16", "shear", "3857", "special", nd_src, zeros=True)
    if obs is not None:
        kw["ovr_blocksize"] = obs
    if okind == "external":
        ext, ovl, path, api = sub_overviews(xx, layout, "int16", 2, zeros=True), "ext", f"layers:{dest}", "write_cog+overviews"
    else:
        ext, ovl, path, api = None, (2, 4), f"2pass:{dest}", "write_cog"
    cls = mkcls(yx, layout, "shear", "3857", "int16", "special", nd_src, path, api, bs, ovl)
    cls["pix"] += f":win{int(windowed)}"
    run_write(r, str(case), xx, data, layout, A, exact, epsg, nodata, dest=dest, ext=ext, ovl=None if ext is not None else ovl,
              blocksize=bs, cls=cls, use_windowed_writes=windowed, intermediate_compression=INTERMEDIATE[ic], **kw)
    return r


# ---------------------------------------------------------------------------------------------------------
# s5: pre-existing destination x overwrite
# ---------------------------------------------------------------------------------------------------------
def gen_s5(tier):
    def g():
        for exists in ("absent", "cog", "junk"):
            for overwrite in (False, True, None):  # None: argument not given (default False)
                for ptype in ("str", "Path"):
                    for variant in ("plain", "computed-ovr", "external-ovr", "layers-api"):
                        for opts in ("plain", "windowed+intermediate"):
                            for layout in ("YX", ("SYX", 2)):
                                yield ("s5", exists, overwrite, ptype, variant, opts, layout)
        for overwrite in (False, True, None):  # ":mem:" is never an existing destination
            for variant in ("plain", "computed-ovr", "external-ovr", "layers-api"):
                for opts in ("plain", "windowed+intermediate"):
                    for layout in ("YX", ("SYX", 2)):
                        yield ("s5", "mem", overwrite, "str", variant, opts, layout)

    return g


def run_s5(case):
    _, exists, overwrite, ptype, variant, opts, layout = case
    yx = (17, 31)
    r = R(outcome=f"s5:{exists}:overwrite={overwrite}:{variant}:{opts}")
    xx, data, A, exact, epsg, nodata, kw = build(yx, layout, "int16", "nu", "32633", "special", off=5, zeros=True)
    if opts != "plain":
        kw.update(use_windowed_writes=True, intermediate_compression=True)
    ext = None
    ovl = ()
    if variant == "computed-ovr":
        ovl = (2,)
        kw["overview_levels"] = [2]
    elif variant in ("external-ovr", "layers-api"):
        ext = sub_overviews(xx, layout, "int16", 1, zeros=True)
    if overwrite is not None:
        kw["overwrite"] = overwrite
    cls = mkcls(yx, layout, "nu", "32633", "int16", "special", "attr", f"{variant}:file", "write_cog", 16, "ext" if ext else ovl)
    kcls = f"{exists}:{variant}" + ("" if opts == "plain" else f":{opts}")
    td = tempfile.mkdtemp(prefix="vf-c15-")
    try:
        if exists == "mem":
            cwd_before = sorted(os.listdir("."))
            if variant == "layers-api":
                out = write_cog_layers([xx, *ext], ":mem:", blocksize=16, **kw)
            elif ext is not None:
                out = write_cog(xx, ":mem:", blocksize=16, overviews=ext, **kw)
            else:
                out = write_cog(xx, ":mem:", blocksize=16, **kw)
            if not isinstance(out, bytes):
                r.fail(f"return:not-bytes:{kcls}", f"{case}: returned {type(out).__name__}")
                return r
            if sorted(os.listdir(".")) != cwd_before:
                r.fail(f"existing:mem-touched-working-directory:{kcls}", f"{case}: {sorted(os.listdir('.'))} vs {cwd_before}")
            want = bands_of(data, layout)
            levels = [bands_of(o.data, layout).shape[1:] for o in ext] if ext is not None else expected_levels(yx, ovl)
            inspect(out, want, A, exact, epsg, nodata, levels, 16, r, str(case), cls,
                    ext_overviews=[bands_of(o.data, layout) for o in ext] if ext is not None else None)
            return r
        path = os.path.join(td, "dst.tif")
        before = None
        if exists == "cog":
            old, *_ = build((9, 5), "YX", "uint8", "nu", "3857", "zero", off=11)
            write_cog(old, path, blocksize=16)
        elif exists == "junk":
            Path(path).write_bytes(b"this is not a tiff\n" * 7)
        if exists != "absent":
            before = Path(path).read_bytes()
        dst = path if ptype == "str" else Path(path)
        raised = None
        try:
            if variant == "layers-api":
                out = write_cog_layers([xx, *ext], dst, blocksize=16, **kw)
            elif ext is not None:
                out = write_cog(xx, dst, blocksize=16, overviews=ext, **kw)
            else:
                out = write_cog(xx, dst, blocksize=16, **kw)
        except OSError as e:  # IOError is OSError
            raised = e
        if exists != "absent" and not overwrite:
            r.outcome += ":refused" if raised is not None else ":written"
            if raised is None:
                r.fail(f"existing:no-error:{kcls}", f"{case}: destination existed, overwrite={overwrite}, no IOError raised")
            after = Path(path).read_bytes() if os.path.isfile(path) else None
            if after != before:
                r.fail(f"existing:modified-without-overwrite:{kcls}",
                       f"{case}: destination existed and overwrite={overwrite}, but the file "
                       f"{'was removed' if after is None else 'changed (%d -> %d bytes)' % (len(before), len(after))}"
                       f"; raised={raised!r}")
            return r
        if raised is not None:
            r.outcome += ":error"
            r.fail(f"existing:unexpected-ioerror:{kcls}", f"{case}: {type(raised).__name__}: {raised}")
            return r
        r.outcome += ":written"
        if out is None or str(out) != path or not os.path.isfile(path):
            r.fail(f"return:path:{kcls}", f"{case}: returned {out!r}, asked to write {path}")
            return r
        want = bands_of(data, layout)
        levels = [bands_of(o.data, layout).shape[1:] for o in ext] if ext is not None else expected_levels(yx, ovl)
        inspect(path, want, A, exact, epsg, nodata, levels, 16, r, str(case), cls,
                ext_overviews=[bands_of(o.data, layout) for o in ext] if ext is not None else None)
    finally:
        shutil.rmtree(td, ignore_errors=True)
    return r


# ---------------------------------------------------------------------------------------------------------
# s6: default overview levels around the 512-pixel threshold (the only slice with images above 64 px)
# ---------------------------------------------------------------------------------------------------------
S6_SHAPES = ((600, 520), (512, 512), (512, 520), (520, 512), (511, 511), (511, 520), (520, 511),
             (1, 600), (600, 1), (513, 3), (3, 513))  # strips: one side far under, one over 512


def gen_s6(tier):
    def g():
        for yx in S6_SHAPES:
            for layout in ("YX", ("SYX", 2), ("YXS", 3)):
                for bs in (None, 100, 256):
                    for ovl in (None, (), (2,)):
                        for windowed in (False, True):
                            for dest in ("mem", "file"):
                                yield ("s6", yx, layout, bs, ovl, windowed, dest)

    return g


def run_s6(case):
    _, yx, layout, bs, ovl, windowed, dest = case
    side = side_class(yx)
    ov = "default" if ovl is None else "none" if not ovl else "levels" + "-".join(map(str, ovl))
    r = R(outcome=f"s6:{side}:block{bs}:ovr-{ov}:win{int(windowed)}:{dest}")
    xx, data, A, exact, epsg, nodata, kw = build(yx, layout, "uint8", "nu", "32633", "special", zeros=True)
    path = ("2pass" if ovl or (ovl is None and side != "both<512") else "1pass") + f":{dest}"
    cls = mkcls(yx, layout, "nu", "32633", "uint8", "special", "attr", path, "write_cog", bs, ovl)
    cls["st"] = f"block{bs}:{side}:{ov}"
    cls["pix"] += f":win{int(windowed)}"
    run_write(r, str(case), xx, data, layout, A, exact, epsg, nodata, dest=dest, ovl=ovl, blocksize=bs, cls=cls,
              use_windowed_writes=windowed, **kw)
    return r


def side_class(yx):
    return "both>=512" if min(yx) >= 512 else "both<512" if max(yx) < 512 else "mixed"


# s6b: externally supplied overviews on images around / above 512 px: the stored levels are exactly the supplied ones
S6B_SHAPES = ((520, 600), (512, 512), (511, 520))


def gen_s6b(tier):
    def g():
        for yx in S6B_SHAPES:
            for layout in ("YX", ("SYX", 2), ("YXS", 3)):
                for n_ovr in (0, 1, 2):
                    for api in ("write_cog", "write_cog_layers"):
                        for bs in (None, 256):
                            for windowed in (False, True):
                                for dest in ("mem", "file"):
                                    yield ("s6b", yx, layout, n_ovr, api, bs, windowed, dest)

    return g


def run_s6b(case):
    _, yx, layout, n_ovr, api, bs, windowed, dest = case
    side = side_class(yx)
    r = R(outcome=f"s6b:{side}:n{n_ovr}:{api}:block{bs}:win{int(windowed)}:{dest}")
    xx, data, A, exact, epsg, nodata, kw = build(yx, layout, "int16", "nu", "32633", "special", zeros=True)
    ext = sub_overviews(xx, layout, "int16", n_ovr, zeros=True)
    cls = mkcls(yx, layout, "nu", "32633", "int16", "special", "attr", f"layers:{dest}", api + "+overviews", bs, "ext")
    cls["st"] = f"block{bs}:{side}:ext{n_ovr}"
    cls["pix"] += f":win{int(windowed)}"
    run_write(r, str(case), xx, data, layout, A, exact, epsg, nodata, dest=dest, api=api, ext=ext, blocksize=bs, cls=cls,
              use_windowed_writes=windowed, **kw)
    return r


# ---------------------------------------------------------------------------------------------------------
# s8: ambient GDAL configuration (outer rasterio.Env) while writing: sibling-file discovery switched off / on
# ---------------------------------------------------------------------------------------------------------
AMBIENT = ("unset", "EMPTY_DIR", "TRUE", "FALSE")
S8_SHAPES = ((17, 31), (33, 50), (520, 600))


def gen_s8(tier):
    def g():
        for amb in AMBIENT:
            for yx in (S8_SHAPES if tier == "thorough" else S8_SHAPES[::2]):
                for layout in S3_LAYOUTS:
                    for windowed in (False, True):
                        for dest in ("mem", "file"):
                            for okind in ("plain", "computed"):  # product A: no / computed overviews
                                yield ("s8", amb, yx, layout, windowed, dest, okind, "write_cog", 0)
                            for api in ("write_cog", "write_cog_layers"):  # product B: supplied overviews
                                for n_ovr in (0, 1, 2):
                                    yield ("s8", amb, yx, layout, windowed, dest, "external", api, n_ovr)

    return g


def run_s8(case):
    _, amb, yx, layout, windowed, dest, okind, api, n_ovr = case
    r = R(outcome=f"s8:readdir={amb}:{okind}:{api}:n{n_ovr}:{side_class(yx)}:win{int(windowed)}:{dest}")
    xx, data, A, exact, epsg, nodata, kw = build(yx, layout, "int16", "nu", "32633", "special", zeros=True)
    if okind == "external":
        ext, ovl, path, apik = sub_overviews(xx, layout, "int16", n_ovr, zeros=True), "ext", f"layers:{dest}", api + "+overviews"
    else:
        ext, ovl, path, apik = None, ((2, 4) if okind == "computed" else ()), ("2pass" if okind == "computed" else "1pass") + f":{dest}", api
    cls = mkcls(yx, layout, "nu", "32633", "int16", "special", "attr", path, apik, 16, ovl)
    if okind == "external":
        cls["st"] = f"block16:{shape_class(yx)}:ext{n_ovr}"
    for k in cls:  # every key of this slice names the ambient setting
        cls[k] += f":readdir={amb}"
    run_write(r, str(case), xx, data, layout, A, exact, epsg, nodata, dest=dest, api=api, ext=ext,
              ovl=None if ext is not None else ovl, blocksize=16, cls=cls, ambient=amb, use_windowed_writes=windowed, **kw)
    return r


# ---------------------------------------------------------------------------------------------------------
# s8b: every GDAL option the writers set themselves, pre-set by the caller (outer Env or process environment)
# ---------------------------------------------------------------------------------------------------------
S8B_SPECS = ("unset",) + tuple((opt, val, how) for opt, val in ((READDIR, "EMPTY_DIR"), ("GDAL_TIFF_OVR_BLOCKSIZE", "256"),
                                                               ("GDAL_NUM_THREADS", "2"), ("NUM_THREADS", "2"))
                               for how in ("env", "environ"))


def gen_s8b(tier):
    def g():
        for si, _ in enumerate(S8B_SPECS):
            for route in ("plain", "computed", "supplied-write_cog", "supplied-layers"):
                for obs in (None, 64):
                    for layout in ("YX", ("SYX", 2)):
                        for dest in ("mem", "file"):
                            yield ("s8b", si, route, obs, layout, dest)

    return g


def run_s8b(case):
    _, si, route, obs, layout, dest = case
    spec = S8B_SPECS[si]
    tag = "unset" if spec == "unset" else f"{spec[0]}={spec[1]}:{spec[2]}"
    r = R(outcome=f"s8b:{tag}:{route}:ovrblock{obs}:{dest}")
    yx = (33, 50)
    xx, data, A, exact, epsg, nodata, kw = build(yx, layout, "int16", "nu", "32633", "special", zeros=True)
    if obs is not None:
        kw["ovr_blocksize"] = obs
    api = "write_cog_layers" if route == "supplied-layers" else "write_cog"
    if route.startswith("supplied"):
        ext, ovl, path, apik = sub_overviews(xx, layout, "int16", 2, zeros=True), "ext", f"layers:{dest}", api + "+overviews"
    else:
        ext, ovl, path, apik = None, ((2, 4) if route == "computed" else ()), ("2pass" if route == "computed" else "1pass") + f":{dest}", api
    cls = mkcls(yx, layout, "nu", "32633", "int16", "special", "attr", path, apik, 16, ovl)
    for k in cls:
        cls[k] += f":caller-set:{tag}"
    run_write(r, str(case), xx, data, layout, A, exact, epsg, nodata, dest=dest, api=api, ext=ext,
              ovl=None if ext is not None else ovl, blocksize=16, cls=cls, ambient=spec, **kw)
    return r


# ---------------------------------------------------------------------------------------------------------
# s9: every option through every entry point, on ONE instance in sequence, against a fresh reference
# ---------------------------------------------------------------------------------------------------------
def s9_options():
    """name -> (image shape, writer options without blocksize default, number of supplied overviews, their container)"""
    L = dict(overview_levels=[2, 4])
    o = {
        "base": ((33, 50), {}, 0, None),
        "blocksize-default": ((33, 50), {"blocksize": None}, 0, None),
        "blocksize32": ((33, 50), {"blocksize": 32}, 0, None),
        "blocksize100": ((33, 50), {"blocksize": 100}, 0, None),
        "levels-empty": ((33, 50), {"overview_levels": []}, 0, None),
        "levels-none": ((33, 50), {"overview_levels": None}, 0, None),
        "levels2": ((33, 50), {"overview_levels": [2]}, 0, None),
        "levels-tuple": ((33, 50), {"overview_levels": (2, 4)}, 0, None),
        "levels-default-512": ((520, 600), {}, 0, None),
        "levels-empty-512": ((520, 600), {"overview_levels": []}, 0, None),
        "ovr_blocksize64": ((133, 150), {**L, "ovr_blocksize": 64}, 0, None),
        "ovr_blocksize256": ((133, 150), {**L, "ovr_blocksize": 256}, 0, None),
        "resampling-nearest": ((33, 50), {**L, "overview_resampling": "nearest"}, 0, None),
        "resampling-average": ((33, 50), {**L, "overview_resampling": "average"}, 0, None),
        "resampling-bilinear": ((33, 50), {**L, "overview_resampling": "bilinear"}, 0, None),
        "resampling-mode": ((33, 50), {**L, "overview_resampling": "mode"}, 0, None),
        "windowed": ((33, 50), {"use_windowed_writes": True}, 0, None),
        "windowed+levels": ((33, 50), {**L, "use_windowed_writes": True}, 0, None),
        "intermediate-true": ((33, 50), {**L, "intermediate_compression": True}, 0, None),
        "intermediate-str": ((33, 50), {**L, "intermediate_compression": "zstd"}, 0, None),
        "intermediate-dict": ((33, 50), {**L, "intermediate_compression": {"compress": "lzw"}}, 0, None),
        "compress-zstd": ((33, 50), {**L, "compress": "zstd"}, 0, None),
        "zlevel9": ((33, 50), {"zlevel": 9}, 0, None),
        "nodata-kwarg-0": ((33, 50), {**L, "nodata": 0}, 0, None),
        "nodata-kwarg": ((33, 50), {**L, "nodata": -5}, 0, None),
        "overviews-empty": ((33, 50), {}, 0, "list"),
        "overviews1": ((33, 50), {}, 1, "list"),
        "overviews2": ((33, 50), {}, 2, "list"),
        "overviews2-tuple": ((33, 50), {}, 2, "tuple"),
        "overviews2-512": ((520, 600), {}, 2, "list"),
        "overviews+nodata-kwarg-0": ((33, 50), {"nodata": 0}, 2, "list"),
        "overviews+windowed+intermediate": ((33, 50), {"use_windowed_writes": True, "intermediate_compression": True}, 2, "list"),
        "overviews+ovr_blocksize64": ((133, 150), {"ovr_blocksize": 64}, 2, "list"),
        "everything": ((133, 150), {"blocksize": 32, "ovr_blocksize": 64, "overview_levels": [2, 4], "overview_resampling": "average",
                                    "use_windowed_writes": True, "intermediate_compression": "lzw", "compress": "zstd",
                                    "nodata": -7}, 0, None),
    }
    return o


S9_OPTS = s9_options()
S9_NAMED = ("blocksize", "ovr_blocksize", "overviews", "overview_resampling", "overview_levels", "use_windowed_writes",
            "intermediate_compression")  # to_cog's positional parameters, in order


def signature(blob):
    """What any reader can observe: decoded pixels of every level, georeferencing, nodata, IFD structure and encoding."""
    h = hashlib.blake2b(digest_size=16)
    with open_rio(blob) as src:
        prof = (src.count, tuple(src.dtypes), src.height, src.width, tuple(src.transform)[:6],
                src.crs.to_wkt() if src.crs else None, tuple(repr(v) for v in src.nodatavals),
                tuple(tuple(src.overviews(i)) for i in src.indexes))
        h.update(src.read().tobytes())
        n = len(src.overviews(1))
    for k in range(n):
        with open_rio(blob, overview_level=k) as src:
            h.update(src.read().tobytes())
    with open_tiff(blob) as tf:
        pages = tuple((p.imagelength, p.imagewidth, p.tilelength if p.is_tiled else 0, p.tilewidth if p.is_tiled else 0,
                       int(p.compression), int(p.predictor), int(p.planarconfig), p.samplesperpixel) for p in tf.pages)
    return dict(profile=prof, ifds=pages, pixels=h.hexdigest())


def gen_s9(tier):
    def g():
        for name in S9_OPTS:
            for layout in S3_LAYOUTS:
                for prime in (False, True):
                    yield ("s9", name, layout, prime)

    return g


def prime_lazies(xx):
    """Read every lazily computed / cached view first (accessor state, GeoBox and CRS caches)."""
    gb = xx.odc.geobox
    _ = (xx.odc.crs, xx.odc.transform, xx.odc.spatial_dims, xx.odc.nodata, xx.odc.ydim, xx.odc.xdim, gb.extent, gb.boundingbox,
         gb.footprint("EPSG:4326"), gb.geographic_extent, gb.crs.epsg, gb.crs.units, gb.resolution, gb.coordinates
         if gb.axis_aligned else None, str(gb.crs), hash(gb))


def run_s9(case):
    _, name, layout, prime = case
    yx, opts, n_ovr, container = S9_OPTS[name]
    r = R(outcome=f"s9:{name}:{lk(layout)}:prime{int(prime)}")

    def fresh():
        xx, data, A, exact, epsg, nodata, _ = build(yx, layout, "int16", "shear", "32633", "special", zeros=True)
        ext = sub_overviews(xx, layout, "int16", n_ovr, zeros=True) if container else None
        return xx, ext, data, A, exact, epsg, nodata

    def options(ext):
        o = {"blocksize": 16, **copy.deepcopy(opts)}
        if o["blocksize"] is None:
            del o["blocksize"]
        if ext is not None:
            o["overviews"] = list(ext) if container == "list" else tuple(ext)
        return o

    # reference: a fresh array, never touched before, one call
    xx0, ext0, data, A, exact, epsg, nd_attr = fresh()
    ref = write_cog(xx0, ":mem:", **options(ext0))
    want = bands_of(data, layout)
    nd_want = opts["nodata"] if "nodata" in opts else nd_attr
    bs = {"blocksize": 16, **opts}["blocksize"]
    if ext0 is not None:
        levels = [bands_of(o.data, layout).shape[1:] for o in ext0]
    else:
        ovl = opts.get("overview_levels", None)
        levels = expected_levels(yx, None if ovl is None else tuple(ovl))
    cls = mkcls(yx, layout, "shear", "32633", "int16", "special", "kwarg" if "nodata" in opts else "attr",
                ("layers" if ext0 is not None else "2pass" if levels else "1pass") + ":mem", "write_cog", bs,
                "ext" if ext0 is not None else opts.get("overview_levels", None) and tuple(opts["overview_levels"]) or (
                    None if "overview_levels" not in opts or opts["overview_levels"] is None else ()))
    for k in cls:
        cls[k] += f":option-{name}"
    if not isinstance(ref, bytes):
        return r.fail(f"return:not-bytes:{cls['pix']}", f"{case}: reference call returned {type(ref).__name__}")
    inspect(ref, want, A, exact, epsg, nd_want, levels, bs, r, f"{case} reference write_cog(':mem:')", cls,
            ext_overviews=[bands_of(o.data, layout) for o in ext0] if ext0 else None, ovr_blocksize=opts.get("ovr_blocksize"))
    ref_sig = None

    # ONE shared instance through every entry point in sequence
    xx, ext, *_ = fresh()
    if prime:
        prime_lazies(xx)
        for o in ext or ():
            prime_lazies(o)
    inputs = [("geo_im", xx)] + [(f"overviews[{i}]", o) for i, o in enumerate(ext or ())]
    before = {n_: snap(v) for n_, v in inputs}
    td = tempfile.mkdtemp(prefix="vf-c15-")
    try:
        def to_file(fn):
            def call(o):
                path = os.path.join(td, f"f{len(os.listdir(td))}.tif")
                out = fn(path, o)
                if out is None or str(out) != path:
                    return out
                return Path(path).read_bytes()
            return call

        def positional(o):
            extra = {k: v for k, v in o.items() if k not in S9_NAMED}
            defaults = dict(use_windowed_writes=False, intermediate_compression=False)
            return to_cog(xx, *[o.get(k, defaults.get(k)) for k in S9_NAMED], **extra)

        def no_ov(o):
            return {k: v for k, v in o.items() if k != "overviews"}

        entries = [
            ("write_cog:mem", lambda o: write_cog(xx, ":mem:", **o)),
            ("to_cog", lambda o: to_cog(xx, **o)),
            ("to_cog:positional", positional),
            (".odc.to_cog", lambda o: xx.odc.to_cog(**o)),
            (".odc.write_cog:mem", lambda o: xx.odc.write_cog(":mem:", **o)),
            ("write_cog:file", to_file(lambda path, o: write_cog(xx, path, **o))),
            (".odc.write_cog:file", to_file(lambda path, o: xx.odc.write_cog(Path(path), **o))),
        ]
        if ext is not None:
            entries += [
                ("write_cog_layers:mem", lambda o: write_cog_layers([xx, *ext], **no_ov(o))),
                ("write_cog_layers:mem-explicit", lambda o: write_cog_layers((xx, *ext), ":mem:", **no_ov(o))),
                ("write_cog_layers:file", to_file(lambda path, o: write_cog_layers([xx, *ext], path, **no_ov(o)))),
            ]
        entries.append(("write_cog:mem:again", lambda o: write_cog(xx, ":mem:", **o)))
        for ename, fn in entries:
            o = options(ext)
            o_before = snap_kw(o)
            state0 = gdal_state()
            got = fn(o)
            judge_side_effects(r, f"{case} via {ename}", ename, inputs, before, o, o_before, state0, gdal_state())
            if gdal_state() != BASE_STATE:
                scrub_gdal()
            if not isinstance(got, bytes):
                r.fail(f"return:wrong-type:{ename}:option-{name}", f"{case}: {ename} returned {got!r}")
                continue
            if got == ref:
                continue
            if ref_sig is None:
                ref_sig = signature(ref)
            sig = signature(got)
            diff = [k for k in ref_sig if ref_sig[k] != sig[k]]
            if diff:
                detail = "; ".join(f"{k}: {sig[k]} vs reference {ref_sig[k]}" for k in diff)
                r.fail(f"differential:{ename}:option-{name}",
                       f"{case}: identical arguments through {ename} and through write_cog(fresh array, ':mem:') give different "
                       f"files ({', '.join(diff)} differ): {detail[:500]}")
    finally:
        shutil.rmtree(td, ignore_errors=True)
    return r


# ---------------------------------------------------------------------------------------------------------
# s10: nodata value x where / how it is given x every overview route x data that is (partly / wholly) nodata
# ---------------------------------------------------------------------------------------------------------
S10_ROUTES = ("none", "computed-explicit", "computed-default-512", "supplied-write_cog", "supplied-layers")


def s10_nd(dtype):
    out = [("none", "attr", "py")]
    kinds = ["zero", "special"] + (["nan"] if np.dtype(dtype).kind == "f" else [])
    for ndk in kinds:
        for src, enc in (("attr", "py"), ("attr", "np"), ("attr", "float"), ("kwarg", "py"), ("kwarg", "np"), ("kwarg", "float"),
                         ("both", "py")):
            out.append((ndk, src, enc))
    return out


def gen_s10(tier):
    dts = ("uint8", "float32") if tier == "quick" else DTYPES
    patterns = ("all-nodata", "sprinkle") if tier == "quick" else ("ramp", "zeros", "all-nodata", "sprinkle")

    def g():
        for dtype in dts:
            for ndk, src, enc in s10_nd(dtype):
                for route in S10_ROUTES:
                    for pattern in patterns:
                        for dest in ("mem", "file"):
                            yield ("s10", dtype, ndk, src, enc, route, pattern, dest)

    return g


def run_s10(case):
    _, dtype, ndk, src, enc, route, pattern, dest = case
    r = R(outcome=f"s10:{dtype}:{ndk}:{src}:{enc}:{route}:{pattern}:{dest}")
    yx = (512, 520) if route == "computed-default-512" else (33, 50)
    layout = ("SYX", 2) if route in ("computed-explicit", "supplied-layers") else "YX"
    zeros = pattern == "zeros"
    pat = None if zeros else pattern
    xx, data, A, exact, epsg, nodata, kw = build(yx, layout, dtype, "nu", "32633", ndk, src, zeros=zeros, pattern=pat, nd_enc=enc)
    api = "write_cog_layers" if route == "supplied-layers" else "write_cog"
    ext = None
    if route.startswith("supplied"):
        ext = sub_overviews(xx, layout, dtype, 2, zeros=zeros, pattern=pat, nodata=nodata)
        ovl, path, apik = "ext", f"layers:{dest}", api + "+overviews"
    else:
        ovl = {"none": (), "computed-explicit": (2, 4), "computed-default-512": None}[route]
        path, apik = ("1pass" if route == "none" else "2pass") + f":{dest}", api
    cls = mkcls(yx, layout, "nu", "32633", dtype, ndk, f"{src}-{enc}", f"{route}:{dest}", apik, 16, ovl)
    cls["pix"] += f":data-{pattern}"
    run_write(r, str(case), xx, data, layout, A, exact, epsg, nodata, dest=dest, api=api, ext=ext,
              ovl=None if ext is not None else ovl, blocksize=16, cls=cls, use_windowed_writes=(pattern == "sprinkle"), **kw)
    return r


# ---------------------------------------------------------------------------------------------------------
# s11: two writes in sequence: same destination (overwrite) / different destinations / memory and file mixed
# ---------------------------------------------------------------------------------------------------------
S11_ROUTES = ("plain", "computed", "layers")


def gen_s11(tier):
    def g():
        for r1 in S11_ROUTES:
            for r2 in S11_ROUTES:
                for rel in ("same-overwrite", "different", "mem-then-file", "file-then-mem", "mem-then-mem"):
                    for layout in ("YX", ("SYX", 2)):
                        yield ("s11", r1, r2, rel, layout)

    return g


def run_s11(case):
    _, r1, r2, rel, layout = case
    r = R(outcome=f"s11:{r1}:{r2}:{rel}")
    first = dict(yx=(17, 31), dtype="int16", tk="nu", crs="32633", ndk="special", off=0)
    second = dict(yx=(20, 13), dtype="uint8", tk="rot", crs="3857", ndk="zero", off=9)

    def prep(d, route):
        xx, data, A, exact, epsg, nodata, kw = build(d["yx"], layout, d["dtype"], d["tk"], d["crs"], d["ndk"], off=d["off"], zeros=True)
        ext = sub_overviews(xx, layout, d["dtype"], 1, zeros=True) if route == "layers" else None
        ovl = (2,) if route == "computed" else ()
        return dict(xx=xx, data=data, A=A, exact=exact, epsg=epsg, nodata=nodata, ext=ext, ovl=ovl, d=d, route=route)

    def write(w, dst, **kw):
        if w["ext"] is not None:
            return write_cog_layers([w["xx"], *w["ext"]], dst, blocksize=16, **kw)
        return write_cog(w["xx"], dst, blocksize=16, overview_levels=list(w["ovl"]), **kw)

    def judge(w, blob, which):
        d = w["d"]
        cls = mkcls(d["yx"], layout, d["tk"], d["crs"], d["dtype"], d["ndk"], "attr", f"{w['route']}", "write_cog", 16,
                    "ext" if w["ext"] is not None else w["ovl"])
        for k in cls:
            cls[k] += f":sequence-{which}:{rel}"
        levels = [bands_of(o.data, layout).shape[1:] for o in w["ext"]] if w["ext"] is not None else expected_levels(d["yx"], w["ovl"])
        inspect(blob, bands_of(w["data"], layout), w["A"], w["exact"], w["epsg"], w["nodata"], levels, 16, r, f"{case} {which} write",
                cls, ext_overviews=[bands_of(o.data, layout) for o in w["ext"]] if w["ext"] is not None else None)

    a, b = prep(first, r1), prep(second, r2)
    td = tempfile.mkdtemp(prefix="vf-c15-")
    try:
        p1, p2 = os.path.join(td, "one.tif"), os.path.join(td, "two.tif")
        d1 = ":mem:" if rel.startswith("mem") else p1
        d2 = {"same-overwrite": p1, "different": p2, "mem-then-file": p2, "file-then-mem": ":mem:", "mem-then-mem": ":mem:"}[rel]
        o1 = write(a, d1)
        first_bytes = o1 if d1 == ":mem:" else Path(p1).read_bytes()
        o2 = write(b, d2, **({"overwrite": True} if rel == "same-overwrite" else {}))
        second_blob = o2 if d2 == ":mem:" else d2
        if d2 != ":mem:" and (o2 is None or str(o2) != d2):
            return r.fail(f"return:path:sequence:{rel}", f"{case}: second write returned {o2!r}")
        judge(b, second_blob, "second")
        if rel != "same-overwrite":
            if d1 != ":mem:" and Path(p1).read_bytes() != first_bytes:
                r.fail(f"sequence:first-destination-changed:{rel}:{r1}-{r2}", f"{case}: {p1} changed while writing {d2}")
            judge(a, first_bytes, "first")
        left = sorted(set(os.listdir(td)) - {"one.tif", "two.tif"})
        if left:
            r.fail(f"sequence:stray-files:{rel}", f"{case}: {left}")
    finally:
        shutil.rmtree(td, ignore_errors=True)
    return r


# ---------------------------------------------------------------------------------------------------------
# s12: orientations / pixel-size extremes / origins / near-aligned transforms x CRS encodings x long and tiny rasters
# ---------------------------------------------------------------------------------------------------------
S12_TKINDS = ("nu", "nu-r", "rot", "shear", "south-up", "mirror-x", "rot180", "nonsquare", "tiny", "huge", "halfpx", "near-int",
              "offgrid", "scale-below-1", "rot0.05", "shear9e-4", "near-aligned-out", "near-aligned-in", "near-aligned-rel-out",
              "near-aligned-rel-in", "near-aligned-rel-out-10m", "near-aligned-rel-in-10m")
S12_PENDING = ()
S12_SHAPES = ((1, 1), (1, 4), (4, 1), (17, 31), (2, 2000), (2000, 2))
S12_ROUTES = ("1pass", "2pass", "layers")
INCLUDE_PENDING = True


def gen_s12(tier):
    tks = S12_TKINDS + (S12_PENDING if INCLUDE_PENDING else ())

    def g():
        if tier == "thorough":
            for tk in tks:
                for crs in CRSS:
                    for spec in CRS_SPECS:
                        for yx in S12_SHAPES:
                            for route in S12_ROUTES:
                                yield ("s12", tk, crs, spec, yx, route)
            return
        for tk in tks:  # product A: transforms x CRS x shapes x routes
            for crs in CRSS:
                for yx in S12_SHAPES:
                    for route in S12_ROUTES:
                        yield ("s12", tk, crs, "str", yx, route)
        for tk in ("nu", "rot"):  # product B: CRS encodings
            for crs in CRSS:
                for spec in CRS_SPECS[1:]:
                    for yx in ((1, 4), (17, 31)):
                        for route in S12_ROUTES:
                            yield ("s12", tk, crs, spec, yx, route)

    return g


def run_s12(case):
    _, tk, crs, spec, yx, route = case
    r = R(outcome=f"s12:{tk}:{crs}:{spec}:{shape_class(yx)}{'-long' if max(yx) > 64 else ''}:{route}")
    if route != "1pass" and max(yx) < 2:
        r.outcome += ":single-pixel-no-overview"
        route = "1pass"
    layout = "YX" if route != "layers" else ("SYX", 2)
    xx, data, A, exact, epsg, nodata, kw = build(yx, layout, "uint8", tk, crs, "special", spec=spec)
    ext = sub_overviews(xx, layout, "uint8", 1) if route == "layers" else None
    ovl = "ext" if ext is not None else ((2,) if route == "2pass" else ())
    cls = mkcls(yx, layout, tk, crs, "uint8", "special", "attr", route, "write_cog", 16, ovl)
    cls["geo"] = f"{tclass(tk)}:{shape_class(yx)}{'-long' if max(yx) > 64 else ''}:{route}"
    cls["crs"] = f"{crs}:given-as-{spec}:{route}"
    # "geo_im: xarray.DataArray with crs": an array without CRS may be refused; when it is written the file must not claim one
    run_write(r, str(case), xx, data, layout, A, exact, epsg, nodata, dest="mem", ext=ext, ovl=None if ext is not None else ovl,
              blocksize=16, cls=cls, may_refuse=REFUSALS + (rasterio.errors.CRSError, AttributeError) if spec == "nocrs" else (), **kw)
    return r


# ---------------------------------------------------------------------------------------------------------
# s13: overview levels larger than the image / strip-like images
# ---------------------------------------------------------------------------------------------------------
S13_SHAPES = ((1, 1), (1, 4), (2, 2), (3, 3), (17, 31), (1, 600), (513, 3))
S13_LEVELS = ((2,), (4,), (2, 4), (2, 4, 8), (32,), (64,), (2, 4, 8, 16, 32), (1024,))


def gen_s13(tier):
    def g():
        for yx in S13_SHAPES:
            for ovl in S13_LEVELS:
                for layout in ("YX", ("SYX", 2)):
                    for dest in ("mem", "file"):
                        yield ("s13", yx, ovl, layout, dest)

    return g


def run_s13(case):
    _, yx, ovl, layout, dest = case
    sizes = expected_levels(yx, ovl)
    n11 = sum(1 for sz in sizes if sz == (1, 1)) + (1 if tuple(yx) == (1, 1) else 0)
    # GDAL itself refuses a request that would hold more than one 1x1 level ("Too many overviews levels of 1x1 dimension")
    over = "gdal-limit" if n11 > 1 else "beyond-image" if max(ovl) > min(yx) else "within-image"
    r = R(outcome=f"s13:{shape_class(yx)}:{over}:{dest}")
    xx, data, A, exact, epsg, nodata, kw = build(yx, layout, "uint8", "nu", "32633", "special")
    cls = mkcls(yx, layout, "nu", "32633", "uint8", "special", "attr", f"2pass:{dest}", "write_cog", 16, ovl)
    cls["st"] += f":{over}"
    run_write(r, str(case), xx, data, layout, A, exact, epsg, nodata, dest=dest, ovl=ovl, blocksize=16, cls=cls,
              may_refuse=(rasterio.errors.OverviewCreationError,) if over == "gdal-limit" else (), **kw)
    return r


# ---------------------------------------------------------------------------------------------------------
# s14: block sizes: zero, tiny, not multiples of 16, far larger than the image, other number types
# ---------------------------------------------------------------------------------------------------------
S14_BLOCKS = {"0": 0, "1": 1, "15": 15, "17": 17, "31": 31, "250": 250, "1000": 1000, "np.int64(32)": np.int64(32),
              "np.int32(100)": np.int32(100), "16.0": 16.0}


def gen_s14(tier):
    def g():
        for b in S14_BLOCKS:
            for yx in ((1, 1), (17, 31), (33, 50), (64, 48)):
                for ovl in ((), (2,)):
                    for layout in ("YX", ("YXS", 3)):
                        for windowed in (False, True):
                            for dest in ("mem", "file"):
                                yield ("s14", b, yx, ovl, layout, windowed, dest)

    return g


def run_s14(case):
    _, b, yx, ovl, layout, windowed, dest = case
    bs = S14_BLOCKS[b]
    r = R(outcome=f"s14:block={b}:{shape_class(yx)}:ovr{len(ovl)}:win{int(windowed)}:{dest}")
    xx, data, A, exact, epsg, nodata, kw = build(yx, layout, "int16", "nu", "32633", "special", zeros=True)
    cls = mkcls(yx, layout, "nu", "32633", "int16", "special", "attr", ("2pass" if ovl else "1pass") + f":{dest}", "write_cog", b, ovl)
    cls["pix"] += f":win{int(windowed)}"
    refuse = REFUSALS if bs == 0 else ()
    run_write(r, str(case), xx, data, layout, A, exact, epsg, nodata, dest=dest, ovl=ovl, blocksize=bs, cls=cls,
              use_windowed_writes=windowed, may_refuse=refuse, **kw)
    return r


# ---------------------------------------------------------------------------------------------------------
# s15: the rest of the dtype menu: must read back identical when accepted; a refusal is not a violation
# ---------------------------------------------------------------------------------------------------------
REFUSALS = (TypeError, ValueError, rasterio.errors.RasterioError, rasterio.errors.RasterioIOError, rasterio._err.CPLE_BaseError)
S15_DTYPES = ("uint32", "int64", "uint64", "float16", "complex64", "complex128", "bool")


def gen_s15(tier):
    def g():
        for dtype in S15_DTYPES:
            for ndk in ("none", "special", "zero"):
                for route in ("1pass", "2pass", "layers"):
                    for layout in ("YX", ("SYX", 2), ("YXS", 3)):
                        for dest in ("mem", "file"):
                            yield ("s15", dtype, ndk, route, layout, dest)

    return g


def run_s15(case):
    _, dtype, ndk, route, layout, dest = case
    r = R(outcome=f"s15:{dtype}:{ndk}:{route}:{dest}")
    yx = (17, 31)
    if np.dtype(dtype).kind in "cb" and ndk == "special":
        ndk = "none"
    xx, data, A, exact, epsg, nodata, kw = build(yx, layout, dtype, "nu", "32633", ndk)
    ext = sub_overviews(xx, layout, dtype, 1) if route == "layers" else None
    ovl = "ext" if ext is not None else ((2,) if route == "2pass" else ())
    cls = mkcls(yx, layout, "nu", "32633", dtype, ndk, "attr", f"{route}:{dest}", "write_cog", 16, ovl)
    run_write(r, str(case), xx, data, layout, A, exact, epsg, nodata, dest=dest, ext=ext, ovl=None if ext is not None else ovl,
              blocksize=16, cls=cls, may_refuse=REFUSALS, **kw)
    return r


# ---------------------------------------------------------------------------------------------------------
# s16: the same pixels in another memory representation
# ---------------------------------------------------------------------------------------------------------
S16_MEM = ("C", "F", "strided", "negative-stride", "readonly", "dask")


def as_memory(data, mem):
    if mem == "C":
        return np.ascontiguousarray(data)
    if mem == "F":
        return np.asfortranarray(data)
    if mem == "strided":
        big = np.zeros(tuple(2 * n for n in data.shape), dtype=data.dtype)
        view = big[tuple(slice(None, None, 2) for _ in data.shape)]
        view[...] = data
        return view
    if mem == "negative-stride":
        return data[..., ::-1].copy()[..., ::-1]
    if mem == "readonly":
        out = data.copy()
        out.flags.writeable = False
        return out
    if mem == "dask":
        import dask.array as da  # pylint: disable=import-outside-toplevel

        return da.from_array(data.copy(), chunks=tuple(max(1, -(-n // 2)) for n in data.shape))
    raise ValueError(mem)


def gen_s16(tier):
    def g():
        for mem in S16_MEM:
            for layout in S3_LAYOUTS:
                for route in ("1pass", "2pass", "layers"):
                    for windowed in (False, True):
                        for dest in ("mem", "file"):
                            yield ("s16", mem, layout, route, windowed, dest)

    return g


def run_s16(case):
    _, mem, layout, route, windowed, dest = case
    r = R(outcome=f"s16:{mem}:{lk(layout)}:{route}:win{int(windowed)}:{dest}")
    yx = (33, 50)
    xx, data, A, exact, epsg, nodata, kw = build(yx, layout, "int16", "nu", "32633", "special", zeros=True)
    xx = xx.copy(data=as_memory(data, mem))
    ext = None
    if route == "layers":
        ext = [o.copy(data=as_memory(np.asarray(o.data), mem)) for o in sub_overviews(xx, layout, "int16", 2, zeros=True)]
    ovl = "ext" if ext is not None else ((2, 4) if route == "2pass" else ())
    cls = mkcls(yx, layout, "nu", "32633", "int16", "special", "attr", f"{route}:{dest}", "write_cog", 16, ovl)
    cls["pix"] += f":win{int(windowed)}:memory-{mem}"
    run_write(r, str(case), xx, data, layout, A, exact, epsg, nodata, dest=dest, ext=ext, ovl=None if ext is not None else ovl,
              blocksize=16, cls=cls, use_windowed_writes=windowed, may_refuse=REFUSALS if mem == "dask" else (), **kw)
    return r


# ---------------------------------------------------------------------------------------------------------
# s7: the block-size / layout helpers on a complete small integer domain
# ---------------------------------------------------------------------------------------------------------
S7_N = 600


def gen_s7(tier):
    def g():
        for b in range(1, S7_N + 1):
            yield ("adjust", b)
        for b in range(1, 131):
            yield ("norm", b)
        for yx in S1_SHAPES:
            for layout in S1_LAYOUTS:
                if layout == "YX" or layout[0] != "TYX":
                    yield ("yaxis", yx, layout)

    return g


def least16(v):
    return ceil_div(v, 16) * 16


def run_s7(case):
    kind = case[0]
    r = R(outcome=f"s7:{kind}")
    if kind == "adjust":
        b = case[1]
        if adjust_blocksize(b) != least16(b):
            r.fail("adjust_blocksize:no-dim", f"adjust_blocksize({b}) = {adjust_blocksize(b)}, least multiple of 16 covering it is {least16(b)}")
        for dim in range(0, S7_N + 1):
            got = adjust_blocksize(b, dim)
            cover = dim if 0 < dim < b else b  # a block never needs to exceed the image
            if got % 16 or got <= 0:
                r.fail("adjust_blocksize:not-multiple-of-16", f"adjust_blocksize({b}, {dim}) = {got}")
            elif got != least16(cover):
                r.fail("adjust_blocksize:not-least-cover:" + ("image-smaller" if 0 < dim < b else "block-fits"),
                       f"adjust_blocksize({b}, {dim}) = {got}, least multiple of 16 covering min(block, image) is {least16(cover)}")
        r.outcome += ":aligned" if b % 16 == 0 else ":rounded"
    elif kind == "norm":
        b = case[1]
        if norm_blocksize(b) != (least16(b), least16(b)):
            r.fail("norm_blocksize:int", f"norm_blocksize({b}) = {norm_blocksize(b)}")
        for b2 in range(1, 131):
            if norm_blocksize((b, b2)) != (least16(b), least16(b2)):
                r.fail("norm_blocksize:tuple", f"norm_blocksize(({b}, {b2})) = {norm_blocksize((b, b2))}")
    else:
        _, yx, layout = case
        shape = layout_shape(yx, layout)
        gbox = GeoBox(tuple(yx), transform_for("nu", False)[0], "EPSG:32633")
        r.outcome += f":{layout_class(yx, layout)}"
        if layout == "YX":
            want = ("YX", 0)
        elif layout[0] == "YXS":
            want = ("YXS", 0)
        elif shape[-1] in (3, 4) or shape[:2] == tuple(yx):
            r.outcome += ":documented-ambiguous"
            r.nontrivial = False
            return r  # documented shape-based rule: last size 3/4 means RGB(A); (bands, rows) == image shape
        else:
            want = ("SYX", 1)
        got = yaxis_from_shape(shape, gbox)
        if got != want:
            r.fail(f"yaxis_from_shape:{layout_class(yx, layout)}", f"yaxis_from_shape({shape}, gbox{yx}) = {got}, expected {want}")
    return r


# ---------------------------------------------------------------------------------------------------------
def slices(tier):
    return [
        e1.Slice("s1-layouts-transforms", gen_s1(tier), run_s1,
                 "shapes x band layouts (incl. cubes) x transforms x CRSs x {single pass, two-pass}; accessor .odc.to_cog"),
        e1.Slice("s2-dtype-nodata", gen_s2(tier), run_s2,
                 "dtypes x nodata value x nodata source x overview path x destination x final compression"),
        e1.Slice("s3-blocks-overviews-windows", gen_s3(tier), run_s3,
                 "shapes x layouts x block sizes x overview level lists x windowed x intermediate compression x destination"),
        e1.Slice("s4-external-overviews", gen_s4(tier), run_s4,
                 "shapes x layouts x number of supplied overviews x dtype x nodata x transform x API x destination"),
        e1.Slice("s4b-overview-options", gen_s4b(tier), run_s4b,
                 "computed/external overviews x layouts x blocksize x ovr_blocksize x windowed x intermediate x nodata source x dest"),
        e1.Slice("s5-existing-destination", gen_s5(tier), run_s5,
                 "destination {absent, COG, junk} x overwrite {False, True, default} x path type x write variant x layout", shards=32),
        e1.Slice("s6-default-overviews-512", gen_s6(tier), run_s6,
                 "shapes around the 512 px threshold x layouts x block sizes x overview levels {default, [], [2]} x windowed x destination"),
        e1.Slice("s6b-external-overviews-512", gen_s6b(tier), run_s6b,
                 "shapes around / above 512 px x layouts x number of supplied overviews x API x block size x windowed x destination"),
        e1.Slice("s8-ambient-gdal-config", gen_s8(tier), run_s8,
                 "ambient GDAL_DISABLE_READDIR_ON_OPEN {unset, EMPTY_DIR, TRUE, FALSE} (outer rasterio.Env during the write, readers "
                 "outside it) x shapes x layouts x windowed x destination x {no / computed overviews, supplied overviews x API x count}"),
        e1.Slice("s8b-caller-gdal-options", gen_s8b(tier), run_s8b,
                 "GDAL options the writers set themselves, pre-set by the caller {outer Env, process environment} x route x "
                 "ovr_blocksize x layout x destination; all of them back to the caller's value after the call", shards=32),
        e1.Slice("s9-entry-points", gen_s9(tier), run_s9,
                 "every option (one at a time and combined) x layouts x {fresh, lazily primed} - through write_cog, to_cog "
                 "(keyword / positional), .odc.to_cog, .odc.write_cog, file and memory, write_cog_layers - on ONE instance in sequence; "
                 "each result must equal a single write_cog(':mem:') of a fresh array; inputs unchanged"),
        e1.Slice("s10-nodata-routes", gen_s10(tier), run_s10,
                 "dtype x nodata {none, 0, special, NaN} x {attr, kwarg, both} x {python, numpy, float} x every overview route x "
                 "data {all nodata, isolated + whole-tile nodata + NaN} x destination"),
        e1.Slice("s11-sequences", gen_s11(tier), run_s11,
                 "two writes in sequence: route x route x {same destination + overwrite, different, memory/file mixed} x layout", shards=32),
        e1.Slice("s12-georef", gen_s12(tier), run_s12,
                 "orientations / pixel-size extremes / origins / near-aligned transforms x CRS x CRS encodings (incl. no EPSG code) x "
                 "shapes (single pixel ... 2000 px strips) x route"),
        e1.Slice("s13-oversized-levels", gen_s13(tier), run_s13,
                 "overview levels up to far beyond the image x tiny and strip-like shapes x layout x destination", shards=32),
        e1.Slice("s14-blocksizes", gen_s14(tier), run_s14,
                 "blocksize {0, 1, 15, 17, 31, 250, 1000, numpy ints, float} x shapes x overviews x layout x windowed x destination"),
        e1.Slice("s15-dtypes-extra", gen_s15(tier), run_s15,
                 "uint32 / int64 / uint64 / float16 / complex / bool x nodata x route x layout x destination (refusal allowed)", shards=32),
        e1.Slice("s16-memory-layout", gen_s16(tier), run_s16,
                 "pixels held C / Fortran ordered, strided, negative strides, read-only, dask-backed (refusal allowed) x layouts x route "
                 "x windowed x destination", shards=32),
        e1.Slice("s7-helpers", gen_s7(tier), run_s7,
                 "adjust_blocksize on [1,600]x[0,600], norm_blocksize on [1,130]^2, yaxis_from_shape on shapes x layouts", shards=32),
    ]


def main(ctx):
    ctx.rule = (
        "each slice is a complete product or a union of complete products; every case writes "
        "through write_cog / to_cog / write_cog_layers (function or .odc accessor) to memory or to a fresh temporary directory "
        "and is judged by an independent rasterio/GDAL decode (pixels, dtype, band count/order, transform, CRS, nodata) and a "
        "tifffile walk of the IFDs (tiled, tile sizes multiples of 16, one reduced IFD of size ceil(size/factor) per requested "
        "level, none by default under 512 px, defaults [2,4,8,16,32] from 512 px); existing destination: overwrite False/default "
        "=> IOError and byte-identical file, True => replaced. Clauses judged on EVERY call of every slice: the caller's arrays "
        "(values, attrs, encoding, coordinates) and option containers are unchanged; every GDAL option the writers set "
        "(GDAL_DISABLE_READDIR_ON_OPEN, GDAL_TIFF_OVR_BLOCKSIZE, GDAL_NUM_THREADS, NUM_THREADS) is back to the caller's value. "
        "s9: identical arguments through every entry point, on one instance in sequence, must give the file a single write_cog of a "
        "fresh array gives (bytes, else decoded pixels of all levels + georeferencing + IFD structure). "
        "non-trivial = every case that writes and decodes a file"
    )
    ctx.bounds = dict(
        s1_shapes=S1_SHAPES, layouts=[lk(x) for x in S1_LAYOUTS], transforms=TKINDS, crs=list(CRSS), dtypes=DTYPES,
        nodata=["none", "zero", "special(max / -128 / -9999 / 1.5e300)", "nan (floats)"], nodata_source=["attr", "kwarg", "both"],
        blocksizes=S3_BLOCKS, overview_levels=[list(o) if o is not None else None for o in s3_ovls(ctx.tier)],
        intermediate_compression=list(INTERMEDIATE), ovr_blocksize=[None, 64, 256], external_overviews=[0, 1, 2],
        ambient_gdal_config={READDIR: list(AMBIENT)}, s8_shapes=S8_SHAPES,
        s6_shapes=S6_SHAPES, s6b_shapes=S6B_SHAPES, s6_overview_levels=[None, [], [2]],
        data_patterns=["ramp (s1, s2, s4)", "ramp with an all-zero 16*2^k corner in every band + scattered valid zeros "
                       "(s3, s4b, s5, s6, s6b, s8*, s9, s11, s14, s16)", "all nodata / isolated + whole-tile nodata + NaN (s10)"],
        s9_options=list(S9_OPTS), s9_entry_points=["write_cog(':mem:')", "to_cog", "to_cog positional", ".odc.to_cog",
                                                   ".odc.write_cog(':mem:')", "write_cog(file)", ".odc.write_cog(Path)",
                                                   "write_cog_layers (default dst, ':mem:', file)", "write_cog(':mem:') again"],
        s10_routes=S10_ROUTES, nodata_encodings=["python", "numpy scalar", "float"], s12_transforms=S12_TKINDS, crs_encodings=CRS_SPECS,
        s12_shapes=S12_SHAPES, s13_shapes=S13_SHAPES, s13_levels=S13_LEVELS, s14_blocksizes=list(S14_BLOCKS), s15_dtypes=S15_DTYPES,
        s16_memory=S16_MEM, caller_gdal_options=[str(x) for x in S8B_SPECS], max_image_side_outside_s6=64, helper_domain=S7_N,
    )
    ctx.assumptions = [
        "rasterio/GDAL (opened on the result, independent of the writing handles) and tifffile are trusted decoders",
        "the band layout of a DataArray is given by its dimension names; write_cog documents no shape-based restriction, so a "
        "band-first cube (band, y, x) with n == ny == nx is inside the domain ('every supported shape, band layout')",
        "transforms with dyadic coefficients are compared with ==; the others by the displacement of the four image corners, which "
        "must stay within 16 ulp of the largest corner coordinate + 1e-9 pixel + 1e-10 pixel per pixel of raster size (the library "
        "documents in is_affine_st that shear/rotation terms up to 1e-10 of the pixel size count as axis aligned)",
        "a CRS given as a WKT whose parameters were edited while its trailing ID[\"EPSG\",n] was left in place is self-contradictory "
        "and not judged: OBSERVATION - the writer hands str(crs) (the WKT) to GDAL, whose GeoTIFF encoder trusts the ID node, so the "
        "file reads back as plain EPSG:n (checked for UTM 33N with the central meridian moved to 16 deg)",
        "inputs the statement does not call supported may be refused with an exception (outcome label 'refused-*'), but when they "
        "are written every clause applies: dtypes outside the uint8..float64 menu (uint32/int64/uint64/float16/complex64 are "
        "written and read back identical; bool and complex128 are refused by rasterio/GDAL), blocksize=0, dask-backed arrays, an "
        "overview request that GDAL refuses because more than one level would be 1x1, arrays without CRS (OBSERVATION: "
        "write_cog_layers raises AttributeError instead of the ValueError write_cog raises when there is no GeoBox at all)",
        "'ovr_blocksize: Size of internal tiles in overview images (defaults to blocksize)' is demanded where GDAL takes the value as "
        "it is (a power of two in [64, 4096]); for other values GDAL silently uses its own default (128) and only the multiple-of-16 "
        "clause applies",
        "overview levels larger than the image give levels of size ceil(size/factor) >= 1",
        "mixed dtypes between the image and supplied overviews, 4-D arrays and overview_levels given as numpy arrays are not enumerated",
        "'blocksize: Size of internal tiff tiles' is demanded of the full-resolution IFD only where unambiguous (multiple of "
        "16, not larger than the image side); overview IFDs only need tile sizes that are multiples of 16",
        "images with exactly one side under 512 px may have either no overviews or the default levels (the statement does not "
        "decide which side counts)",
        "the ambient GDAL configuration is varied in s8 (GDAL_DISABLE_READDIR_ON_OPEN, outer rasterio.Env) and s8b (each option the "
        "writers set, through an outer rasterio.Env or the process environment); asserted in force inside and absent outside; every "
        "other slice runs with the configuration the worker started with (GDAL_DISABLE_READDIR_ON_OPEN is removed from os.environ "
        "at import)",
        "content of computed overviews is not compared (the property constrains their number and size); supplied overviews must be "
        "stored as given",
    ]
    sl = slices(ctx.tier)
    if ctx.only:
        sl = [s for s in sl if any(s.name.startswith(o) for o in ctx.only)]
    e1.run_slices(ctx, sl)


def replay(slice_name, case, tier):
    return e1.replay(slices(tier), slice_name, case).fails
