"""C17 - ROI (slice) helpers agree with array slicing semantics.

E1: complete enumeration of small integer domains, judged by numpy indexing on arange(n) and by an
exact-integer reference model for the point envelope.
"""
from __future__ import annotations

import itertools
import math

import numpy as np

from vf import e1
from vf.core import R

PROPERTY = "C17"
LEVEL = "exploration"

from odc.geo import roi as M  # noqa: E402


def S(t):
    """case encoding -> slice or int"""
    if isinstance(t, tuple):
        return slice(*t)
    return t


def idxset(n, s):
    return tuple(np.arange(n)[S(s) if not isinstance(s, slice) else s].reshape(-1).tolist())


# ---------------------------------------------------------------------------------------------
# slice 1: normalisation + shape / empty / full on every slice with indices in [-n, n]
# ---------------------------------------------------------------------------------------------
NMAX = {"quick": 8, "thorough": 14}
_TIER = ["quick"]


def gen_norm():
    for n in range(0, NMAX[_TIER[0]]):
        vals = [None] + list(range(-n, n + 1))
        for a in vals:
            for b in vals:
                for step in (None, 1):
                    yield ("slice", n, (a, b, step))
        for i in range(-n, n):
            yield ("int", n, i)


def run_norm(case):
    kind, n, enc = case
    s = S(enc)
    X = np.arange(n)
    want = X[s]
    want = want.reshape(-1)
    r = R(outcome=f"{kind}:len{min(len(want), 3)}")
    ns = M.roi_normalise(s, n)
    tag = f"{kind}"
    if not isinstance(ns, slice) or ns.start is None or ns.stop is None:
        return r.fail(f"roi_normalise:not-normalised:{tag}", f"roi_normalise({s},{n}) -> {ns}")
    if ns.start < 0 or ns.stop < 0:
        return r.fail(f"roi_normalise:negative:{tag}", f"roi_normalise({s},{n}) -> {ns}")
    if X[ns].tolist() != want.tolist():
        r.fail(f"roi_normalise:elements:{tag}", f"X[{ns}]={X[ns].tolist()} but X[{s}]={want.tolist()} (n={n})")
    if kind == "slice" and ns.step != s.step:
        r.fail("roi_normalise:step", f"step changed {s} -> {ns}")
    # also through the tuple form and with shape given as a 1-tuple
    (ns2,) = M.roi_normalise((s,), (n,))
    if ns2 != ns or M.roi_normalise(s, (n,)) != ns:
        r.fail("roi_normalise:tuple-form", f"tuple form differs: {ns2} vs {ns}")
    # shape / empty / full of the normalised slice
    shp = M.roi_shape(ns)
    if shp != (len(want),):
        r.fail(
            "roi_shape:" + ("reversed" if ns.stop < ns.start else "forward"),
            f"roi_shape({ns})={shp} but len(X[{s}])={len(want)} (n={n})",
        )
    emp = M.roi_is_empty(ns)
    if emp != (len(want) == 0):
        r.fail("roi_is_empty", f"roi_is_empty({ns})={emp}, len={len(want)}")
    full = M.roi_is_full(ns, n)
    if full != (len(want) == n):
        r.fail("roi_is_full:normalised", f"roi_is_full({ns},{n})={full}, selects {len(want)} of {n}")
    # raw slices whose fields are None or non-negative are accepted by shape/full directly
    if kind == "slice" and all(v is None or v >= 0 for v in enc[:2]):
        full = M.roi_is_full(s, n)
        if full != (len(want) == n):
            r.fail("roi_is_full:raw", f"roi_is_full({s},{n})={full}, selects {len(want)} of {n}")
        if s.stop is not None:
            if M.roi_shape(s) != (len(want),):
                r.fail(
                    "roi_shape:raw:" + ("reversed" if (s.start or 0) > s.stop else "forward"),
                    f"roi_shape({s})={M.roi_shape(s)} but len={len(want)}",
                )
    if kind == "int":
        if M.roi_shape(s) != (1,):
            r.fail("roi_shape:int", f"roi_shape({s})")
        if M.roi_is_full(s, n) != (n == 1):
            r.fail("roi_is_full:int", f"roi_is_full({s},{n})")
    return r


# ---------------------------------------------------------------------------------------------
# slice 2: 3-way and 2-way intersection over all pairs on [0, 9]
# ---------------------------------------------------------------------------------------------
N2 = 10


def gen_pairs():
    one = [(a, b) for a in range(N2) for b in range(N2)]  # includes reversed (empty) slices
    one_i = one + list(range(0, N2 - 1))
    for a in one_i:
        for b in one_i:
            yield (a, b)


def _cls(a, b):
    def k(s):
        if isinstance(s, int):
            return "int"
        return "rev" if s[0] > s[1] else ("empty" if s[0] == s[1] else "fwd")

    return f"{k(a)}-{k(b)}"


def run_pairs(case):
    a, b = case
    sa, sb = S(a), S(b)
    X = np.arange(N2 + 2)
    A = X[sa].reshape(-1)
    B = X[sb].reshape(-1)
    common = sorted(set(A.tolist()) & set(B.tolist()))
    r = R(outcome=f"{_cls(a, b)}:{'overlap' if common else 'disjoint'}", nontrivial=True)
    a_, b_, ab_ = M.slice_intersect3(sa, sb)
    va, vb, vab = A[a_].tolist(), B[b_].tolist(), X[ab_].tolist()
    c = _cls(a, b)
    if not (va == vb == vab):
        r.fail(f"slice_intersect3:law:{c}", f"a={sa} b={sb}: X[a][a']={va} X[b][b']={vb} X[ab']={vab}")
    if vab != common:
        r.fail(f"slice_intersect3:common:{c}", f"a={sa} b={sb}: X[ab']={vab} common={common}")
    # N-d form agrees with 1-d form
    aa, bb, cc = M.roi_intersect3((sa, sb), (sb, sa))
    if aa[0] != a_ or bb[0] != b_ or cc[0] != ab_:
        r.fail("roi_intersect3:nd", f"{aa},{bb},{cc} vs {a_},{b_},{ab_}")
    i2 = M.roi_intersect(sa, sb)
    if X[i2].tolist() != common:
        r.fail(f"roi_intersect:common:{c}", f"a={sa} b={sb}: roi_intersect={i2} selects {X[i2].tolist()} common={common}")
    if M.roi_is_empty(i2) != (len(common) == 0):
        r.fail(f"roi_intersect:empty:{c}", f"a={sa} b={sb}: {i2} empty={M.roi_is_empty(i2)} common={common}")
    (t0, t1) = M.roi_intersect((sa, sb), (sb, sa))
    if t0 != i2 or X[t1].tolist() != common:
        r.fail("roi_intersect:nd", f"{t0},{t1} vs {i2}")
    return r


# ---------------------------------------------------------------------------------------------
# slice 3: pad, scale down/up, centre, boundary
# ---------------------------------------------------------------------------------------------
def gen_pad():
    for n in range(0, NMAX[_TIER[0]]):
        vals = [None] + list(range(-n, n + 1))
        for a in vals:
            for b in vals:
                for pad in range(0, 4):
                    yield (n, (a, b), pad)
        # integer indices (every valid one, negative ones included): the element itself must stay selected
        for i in range(-n, n):
            for pad in (0, 1, 2, 3, n, n + 1):
                yield (n, i, pad)


def run_pad(case):
    n, enc, pad = case
    s = S(enc)
    X = np.arange(n)
    got = M.roi_pad(s, pad, n)
    if isinstance(enc, int):
        r = R(outcome=f"pad:int:{'neg' if enc < 0 else 'pos'}:{'last' if enc in (-1, n - 1) else 'first' if enc in (0, -n) else 'mid'}")
        k = int(X[enc])  # numpy decides which element an integer index selects
        want = slice(max(0, k - pad), min(n, k + 1 + pad))
        cls = "int-neg" if enc < 0 else "int"
        if got != want:
            r.fail(f"roi_pad:value:{cls}", f"roi_pad({enc},{pad},{n})={got} want {want}")
        if not isinstance(got, slice) or k not in X[got].tolist():
            r.fail(f"roi_pad:shrinks:{cls}", f"roi_pad({enc},{pad},{n})={got} no longer selects element {k}")
        nd = M.roi_pad((enc, slice(0, n), enc), pad, (n, n, n))
        if nd[0] != got or nd[2] != got:
            r.fail(f"roi_pad:nd:{cls}", f"roi_pad(({enc}, 0:{n}, {enc}),{pad})={nd} vs 1-d {got}")
        return r
    ns = M.roi_normalise(s, n)
    r = R(outcome="pad")
    want = slice(max(0, ns.start - pad), min(n, ns.stop + pad))
    if got != want:
        r.fail("roi_pad:value", f"roi_pad({s},{pad},{n})={got} want {want}")
    if not (0 <= got.start <= n and 0 <= got.stop <= n):
        r.fail("roi_pad:outside", f"roi_pad({s},{pad},{n})={got}")
    if not set(X[s].tolist()) <= set(X[got].tolist()):
        r.fail("roi_pad:shrinks", f"roi_pad({s},{pad},{n})={got} drops elements")
    (g2, g3) = M.roi_pad((s, s), pad, (n, n))
    if g2 != got or g3 != got or M.roi_pad(s, pad, (n,)) != got:
        r.fail("roi_pad:nd", f"{g2},{g3} vs {got}")
    return r


def gen_scale():
    for ny0 in range(0, 13):
        for ny1 in range(ny0, 13):
            for nx0, nx1 in ((0, 1), (3, 11), (5, 5), (2, 12)):
                for scale in range(1, 6):
                    yield ((ny0, ny1), (nx0, nx1), scale)


def run_scale(case):
    ey, ex, scale = case
    roi = (S(ey), S(ex))
    r = R(outcome="scale", nontrivial=ey[0] != ey[1])
    d = M.scaled_down_roi(roi, scale)
    u = M.scaled_up_roi(d, scale)
    for ax, (o, dd, uu) in enumerate(zip(roi, d, u)):
        if dd.start != o.start // scale or dd.stop != -((-o.stop) // scale):
            r.fail("scaled_down_roi:value", f"{o}/{scale} -> {dd}")
        if not (uu.start <= o.start and uu.stop >= o.stop):
            r.fail("scaled_up_down:contains", f"{o} -> {dd} -> {uu} (scale {scale})")
        if not (o.start - uu.start < scale and uu.stop - o.stop < scale):
            r.fail("scaled_up_down:excess", f"{o} -> {dd} -> {uu} (scale {scale})")
        if uu.start != dd.start * scale or uu.stop != dd.stop * scale:
            r.fail("scaled_up_roi:value", f"{dd}*{scale} -> {uu}")
    shape = (12, 11)
    uc = M.scaled_up_roi(d, scale, shape)
    for uu, cc, n in zip(u, uc, shape):
        if cc != slice(min(n, uu.start), min(n, uu.stop)):
            r.fail("scaled_up_roi:clamp", f"{uu} clamp {n} -> {cc}")
    shp = (ey[1], ex[1], ey[0])
    got = M.scaled_down_shape(shp, scale)
    want = tuple(-((-v) // scale) for v in shp)
    if got != want:
        r.fail("scaled_down_shape", f"{shp}/{scale} -> {got} want {want}")
    # centre
    cy, cx = M.roi_center(roi)
    if cy != (ey[0] + ey[1]) / 2 or cx != (ex[0] + ex[1]) / 2 or M.roi_center(roi[0]) != cy:
        r.fail("roi_center", f"{roi} -> {(cy, cx)}")
    if ey[1] > ey[0]:
        idx = np.arange(20)[roi[0]]
        if cy != float(idx.mean()) + 0.5:
            r.fail("roi_center:mean", f"{roi[0]} -> {cy}")
    # boundary points
    for pps in (2, 3, 4):
        pts = M.roi_boundary(roi, pps)
        xs, ys = pts[:, 0].tolist(), pts[:, 1].tolist()
        on_edge = all(
            (x in (ex[0], ex[1]) and ey[0] <= y <= ey[1]) or (y in (ey[0], ey[1]) and ex[0] <= x <= ex[1])
            for x, y in zip(xs, ys)
        )
        corners = {(ex[0], ey[0]), (ex[1], ey[0]), (ex[0], ey[1]), (ex[1], ey[1])}
        if not on_edge or not corners <= set(zip(xs, ys)):
            r.fail("roi_boundary", f"{roi} pps={pps}: {pts.tolist()}")
        if len(xs) != 4 * (pps - 1):
            r.fail("roi_boundary:count", f"{roi} pps={pps}: {len(xs)} points")
    return r


# ---------------------------------------------------------------------------------------------
# slice 4: N-d tuples
# ---------------------------------------------------------------------------------------------
def gen_nd():
    n = (4, 3, 2)
    one = {
        4: [(None, None), (1, 3), (-3, -1), (2, 2), (0, 4), -1, 2],
        3: [(None, 2), (-2, None), (1, 1), 0, -3],
        2: [(None, None), (-1, None), (0, 1), 1],
    }
    for a in one[4]:
        yield (n[:2], (a,))  # index tuples shorter than the array rank apply to the LEADING axes (numpy semantics)
        yield (n, (a,))
        for b in one[3]:
            yield (n[:2], (a, b))
            yield (n, (a, b))
            for c in one[2]:
                yield (n, (a, b, c))


def run_nd(case):
    n, enc = case
    roi = tuple(S(e) for e in enc)
    X = np.arange(int(np.prod(n))).reshape(n)
    short = len(roi) < len(n)
    r = R(outcome=f"nd{len(n)}" + (f":short{len(roi)}" if short else ""))
    want = X[roi]
    nr = M.roi_normalise(roi, n)
    if len(nr) != len(roi):
        return r.fail("roi_normalise:nd:rank", f"{roi} on {n} -> {nr}")
    got = X[nr]
    tag = ":short-tuple" if short else ""
    # integer indices become length-1 slices: compare as flat element lists
    if got.reshape(-1).tolist() != want.reshape(-1).tolist():
        r.fail("roi_normalise:nd" + tag, f"{roi} on {n} -> {nr}: selects {got.shape} elements, original selects {want.shape}")
    if M.roi_shape(nr) != got.shape[: len(nr)]:
        r.fail("roi_shape:nd" + tag, f"{nr}: {M.roi_shape(nr)} vs {got.shape}")
    if M.roi_is_empty(nr) != (got.size == 0):
        r.fail("roi_is_empty:nd" + tag, f"{nr}")
    if not short and M.roi_is_full(nr, n) != (got.shape == X.shape):
        r.fail("roi_is_full:nd", f"{nr} {n}: {M.roi_is_full(nr, n)}")
    return r


# ---------------------------------------------------------------------------------------------
# slice 5: envelope of sample points
# ---------------------------------------------------------------------------------------------
PTS = [-1e300, -1e19, -(2.0**63), -1e12, -(2.0**31) - 1, -1.0, 0.0, 0.5, 5.0, 99.5, 100.0, 2.0**31, 1e12, 2.0**63, 1e19, 1e300,
       math.nan, math.inf, -math.inf]


def gen_pts():
    pts1 = [(x, y) for x in PTS for y in (0.0, 5.0, 99.5, -1.0, 2.0**31, math.nan, -math.inf)]
    pts_small = [(x, y) for x in (-1e300, -(2.0**63), -1e12, -1.0, 0.5, 5.0, 100.0, 2.0**31, 2.0**63, 1e300, math.nan)
                 for y in (0.0, 5.0, 1e12, -1e19)]
    for shape in ((100, 100), (1, 1), (7, 200)):
        for padding in (0, 1, 2, 1024):
            for align in (None, 3, 4, 16):
                for p in pts1:
                    yield (shape, padding, align, (p,))
                for p, q in itertools.combinations(pts_small, 2):
                    yield (shape, padding, align, (p, q))
    for p, q, s in itertools.combinations(pts_small, 3):
        yield ((100, 100), 1, None, (p, q, s))
        yield ((100, 100), 0, 4, (p, q, s))


def _adown(x, a):
    return x - (x % a)


def _aup(x, a):
    return _adown(x + a - 1, a)


def run_pts(case):
    shape, padding, align, pts = case
    ny, nx = shape
    xy = np.asarray(pts, dtype="float64").reshape(-1, 2)
    fin = [(x, y) for x, y in pts if math.isfinite(x) and math.isfinite(y)]
    big = any(abs(v) >= 2**31 - 64 for p in fin for v in p)
    huge = any(abs(v) >= 2.0**62 for p in fin for v in p)
    r = R(outcome=f"fin{len(fin)}:{'huge' if huge else 'big' if big else 'small'}:pad{min(padding, 3)}:al{align}", nontrivial=len(fin) > 0)
    xy0 = xy.copy()
    got = M.roi_from_points(xy, shape, padding=padding, align=align)
    if not np.array_equal(xy, xy0, equal_nan=True):
        r.fail("roi_from_points:input-array-modified", f"{case}: caller's points changed to {xy.tolist()}")
    # history: the same array is used again for a larger image; the answer must be the one a fresh copy gives
    shape2 = (ny * 3 + 1, nx * 2 + 5)
    again = M.roi_from_points(xy, shape2, padding=padding, align=align)
    fresh = M.roi_from_points(xy0.copy(), shape2, padding=padding, align=align)
    if again != fresh:
        r.fail("roi_from_points:history-dependent", f"{case}: second call on the same array for image {shape2} gives {again}, "
                                                     f"a fresh copy of the points gives {fresh}")
    if not fin:
        if got != (slice(0, 0), slice(0, 0)):
            r.fail("roi_from_points:nonfinite", f"{pts} -> {got}")
        return r
    # exact-integer reference model
    want = []
    for ax, n in ((1, ny), (0, nx)):
        lo = math.floor(min(p[ax] for p in fin)) - padding
        hi = math.ceil(max(p[ax] for p in fin)) + padding
        if align is not None:
            lo, hi = _adown(lo, align), _aup(hi, align)
        want.append(slice(min(max(lo, 0), n), min(max(hi, 0), n)))
    want = tuple(want)
    cls = "beyond-int64" if huge else "beyond-int32" if big else "int32-range"
    for s_, n in zip(got, (ny, nx)):
        if not (0 <= s_.start <= s_.stop <= n):
            r.fail(f"roi_from_points:outside-or-reversed:{cls}", f"{case} -> {got}")
    for x, y in fin:
        if 0 <= x <= nx and 0 <= y <= ny:
            if not (got[1].start <= x <= got[1].stop and got[0].start <= y <= got[0].stop):
                r.fail(f"roi_from_points:misses-point:{cls}", f"{case} -> {got} misses {(x, y)}")
    if got != want and not r.fails:
        r.fail(f"roi_from_points:envelope:{cls}", f"{case} -> {got}, exact-integer model {want}")
    return r


def slices(tier):
    _TIER[0] = tier
    return [
        e1.Slice("normalise", gen_norm, run_norm, "n in 0..7, every slice(a,b) a,b in {None}+[-n,n], every int index"),
        e1.Slice("intersect", gen_pairs, run_pairs, "all ordered pairs of slices/ints on [0,9] incl. reversed"),
        e1.Slice("pad", gen_pad, run_pad, "n in 0..7 x every slice x pad 0..3"),
        e1.Slice("scale-center-boundary", gen_scale, run_scale, "all y-slices on [0,12] x 4 x-slices x scale 1..5"),
        e1.Slice("nd", gen_nd, run_nd, "2-d and 3-d tuples from a sub-alphabet"),
        e1.Slice("from-points", gen_pts, run_pts, "points from 13-value alphabet incl. nan/inf/beyond int32; 1..3 points"),
    ]


def main(ctx):
    ctx.rule = (
        "complete Cartesian products of small integer domains; a case is non-trivial when the "
        "operand selects something / at least one finite point; distinct by (slice, case) hash"
    )
    ctx.bounds = {"n": f"0..{NMAX[ctx.tier] - 1}", "pairs_on": "[0,9]", "pad": "0..3", "scale": "1..5",
                  "point_alphabet": [repr(p) for p in PTS]}
    ctx.assumptions = [
        "numpy indexing on arange(n) is the reference semantics",
        "out-of-range indices (|i|>n) are outside the property's quantifier and not enumerated",
        "roi_shape / roi_is_full are applied to normalised slices and to raw slices whose fields are None or >= 0",
    ]
    sl = slices(ctx.tier)
    if ctx.only:
        sl = [s for s in sl if any(s.name.startswith(o) for o in ctx.only)]
    e1.run_slices(ctx, sl)


def replay(slice_name, case, tier):
    return e1.replay(slices(tier), slice_name, case).fails
