"""C08 - a GeoBox built from a region covers it and is snapped as requested.

E1: complete Cartesian products over region position / span (in pixels, straddling every tolerance),
resolution (either sign per axis), anchor, tight, tol and requested shapes, executed on the real
``GeoBox.from_bbox`` / ``GeoBox.from_geopolygon`` / ``GeoBox.zoom_to(resolution=)``.

Oracle: exact rational arithmetic (``fractions.Fraction``) on the binary64 inputs and on the binary64
numbers read back from the resulting affine.  Covering, minimality and alignment are statements
about real numbers; where the implementation's own binary64 rounding may legitimately move an edge
by a few ulp the DESIGN section 3 "R" tolerance ``1e-9*(|value| + pixel)`` (world units) is added to
the comparison - nothing else is tolerated.
"""
from __future__ import annotations

import itertools
from fractions import Fraction as Fr

from vf import e1
from vf.core import R

PROPERTY = "C08"
LEVEL = "exploration"

import pyproj  # noqa: E402

from odc.geo import geom  # noqa: E402
from odc.geo.geobox import GeoBox  # noqa: E402
from odc.geo.geom import BoundingBox  # noqa: E402
from odc.geo.types import AnchorEnum, resxy_, xy_  # noqa: E402
from affine import Affine  # noqa: E402

E9 = Fr(1, 10**9)
CRS0 = "epsg:3857"


def eps(v, p):
    """DESIGN section 3, alphabet R: 1e-9 * (|value| + pixel size), world units."""
    return E9 * (abs(v) + p)


# ---------------------------------------------------------------------------------------------
# anchors / resolutions: case encoding -> (argument handed to the library, expected meaning)
# ---------------------------------------------------------------------------------------------
def anchor_arg(enc):
    """-> (value passed as anchor=, expected (ax, ay) pixel fractions or None for no snapping, class)"""
    if isinstance(enc, tuple):
        if enc[0] == "xy":
            _, ax, ay = enc
            return xy_(ax, ay), (ax, ay), "xy"
        if enc[0] == "enum":
            e = AnchorEnum[enc[1]]
            return e, {"EDGE": (0.0, 0.0), "CENTER": (0.5, 0.5), "FLOATING": None}[enc[1]], enc[1].lower()
        raise ValueError(enc)
    if isinstance(enc, str):
        return enc, {"edge": (0.0, 0.0), "default": (0.0, 0.0), "center": (0.5, 0.5),
                     "centre": (0.5, 0.5), "floating": None}[enc], \
            {"default": "edge", "centre": "center"}.get(enc, enc)
    # a bare number: that fraction on both axes (0 == edge, 0.5 == centre)
    f = float(enc)
    return enc, (f, f), ("edge" if f == 0 else "center" if f == 0.5 else "frac")


def res_arg(enc):
    """-> (value passed as resolution=, expected (rx, ry))"""
    if enc[0] == "xy":
        return resxy_(enc[1], enc[2]), (float(enc[1]), float(enc[2]))
    if enc[0] == "s":  # bare number: square pixels, Y inverted
        return enc[1], (float(enc[1]), -float(enc[1]))
    raise ValueError(enc)


# ---------------------------------------------------------------------------------------------
# the oracle (one axis at a time, exact rationals)
# ---------------------------------------------------------------------------------------------
def _edge_state(u_lo, u_hi, e_lo, e_hi):
    if u_lo > e_lo or u_hi > e_hi:
        return "shrunk"  # part of the region (within tol) left uncovered
    if u_lo < -e_lo or u_hi < -e_hi:
        return "grown"
    return "exact"


def axis_res(r, kp, ax, x0, x1, rq, a, tol, c, n, ro, what, check_size=True):
    """Resolution-driven construction, one axis.

    x0 <= x1: region (exact); rq: requested signed pixel size; a: anchor fraction or None (no
    snapping); c, n, ro: origin coordinate, pixel count and signed pixel size of the result.
    """
    sgn = "pos" if rq > 0 else "neg"
    snap = "floating" if a is None else "snapped"
    kk = f"{ax}:{sgn}:{kp}"
    if check_size and ro != rq:
        r.fail(f"pixel-size:{kk}", f"{what}: {ax} pixel size {ro!r}, requested {rq!r}")
        return f"{sgn}:badsize"
    if not isinstance(n, int) or n < 1:
        r.fail(f"pixel-count:{kk}", f"{what}: {ax} has {n!r} pixels")
        return f"{sgn}:n0"
    X0, X1, P, C, T = Fr(x0), Fr(x1), abs(Fr(ro)), Fr(c), Fr(tol)
    far = C + n * Fr(ro)
    lo, hi = min(C, far), max(C, far)
    e_lo, e_hi = eps(X0, P), eps(X1, P)
    u_lo, u_hi = lo - X0, X1 - hi  # > 0: that much of the region is not covered
    # covers the region except at most tol of a pixel per side
    if u_lo > T * P + e_lo:
        r.fail(f"uncovered:low-side:{kk}",
               f"{what}: {ax} low edge {float(lo)!r} leaves {float(u_lo / P):.9g} px of the region "
               f"[{float(X0)!r}, {float(X1)!r}] uncovered (tol={tol})")
    if u_hi > T * P + e_hi:
        r.fail(f"uncovered:high-side:{kk}",
               f"{what}: {ax} high edge {float(hi)!r} leaves {float(u_hi / P):.9g} px of the region "
               f"[{float(X0)!r}, {float(X1)!r}] uncovered (tol={tol})")
    # less than (1 + tol) px larger than necessary per side (a one pixel result cannot shrink)
    if n > 1:
        if -u_lo >= (1 + T) * P + e_lo:
            r.fail(f"excess:low-side:{kk}",
                   f"{what}: {ax} low edge {float(lo)!r} is {float(-u_lo / P):.9g} px beyond the region "
                   f"[{float(X0)!r}, {float(X1)!r}] (n={n}, tol={tol})")
        if -u_hi >= (1 + T) * P + e_hi:
            r.fail(f"excess:high-side:{kk}",
                   f"{what}: {ax} high edge {float(hi)!r} is {float(-u_hi / P):.9g} px beyond the region "
                   f"[{float(X0)!r}, {float(X1)!r}] (n={n}, tol={tol})")
    if a is None:
        # snapping off: the grid is not moved, it starts on the region's edge
        org = X0 if ro > 0 else X1
        if abs(C - org) > eps(org, P):
            r.fail(f"floating-origin:{kk}",
                   f"{what}: snapping is off but {ax} origin {c!r} is {float((C - org) / P):.9g} px away "
                   f"from the region edge {float(org)!r}")
    else:
        q = C / P - Fr(a)
        d = abs(q - round(q)) * P
        if d > eps(C, P):
            r.fail(f"alignment:{kk}",
                   f"{what}: {ax} pixel edges sit at fraction {float((C / P) % 1):.9g} of a pixel from "
                   f"the CRS origin, requested {a!r} (origin {c!r}, pixel {float(P)!r})")
    return f"{sgn}:{snap}:{'n1' if n == 1 else 'n+'}:{_edge_state(u_lo, u_hi, e_lo, e_hi)}"


def axis_shape(r, kp, ax, x0, x1, nreq, want_neg, a, c, n, ro, what):
    """Shape-driven construction, one axis."""
    kk = f"{ax}:{kp}"
    if n != nreq:
        r.fail(f"shape:{kk}", f"{what}: {ax} has {n} pixels, requested {nreq}")
        return "badshape"
    X0, X1, C, RO = Fr(x0), Fr(x1), Fr(c), Fr(ro)
    pexp = (X1 - X0) / nreq
    P = abs(RO)
    if (ro < 0) != want_neg or ro == 0:
        r.fail(f"orientation:{kk}", f"{what}: {ax} pixel size {ro!r} has the wrong sign")
        return "badsign"
    if abs(P - pexp) > eps(pexp, pexp):
        r.fail(f"pixel-size:{kk}",
               f"{what}: {ax} pixel size {ro!r} but span/shape = {float(pexp)!r}")
        return "badsize"
    far = C + n * RO
    lo, hi = min(C, far), max(C, far)
    e_lo, e_hi = eps(X0, P), eps(X1, P)
    d_lo, d_hi = lo - X0, hi - X1
    if a is None:
        if abs(d_lo) > e_lo or abs(d_hi) > e_hi:
            r.fail(f"displaced-without-snapping:{kk}",
                   f"{what}: snapping is off but {ax} extent [{float(lo)!r}, {float(hi)!r}] differs "
                   f"from the region [{float(X0)!r}, {float(X1)!r}]")
        return "floating"
    if abs(d_lo) >= P + e_lo or abs(d_hi) >= P + e_hi:
        r.fail(f"displacement:{kk}",
               f"{what}: {ax} extent [{float(lo)!r}, {float(hi)!r}] is displaced by "
               f"{float(d_lo / P):.9g} px from the region [{float(X0)!r}, {float(X1)!r}]")
    q = C / P - Fr(a)
    d = abs(q - round(q)) * P
    tol_al = eps(C, P)
    if d > tol_al:
        r.fail(f"alignment:{kk}",
               f"{what}: {ax} pixel edges sit at fraction {float((C / P) % 1):.9g} of a pixel from "
               f"the CRS origin, requested {a!r} (origin {c!r}, pixel {float(P)!r})")
    if 4 * tol_al >= P:
        return "snapped:unresolvable"  # origin/pixel > 2.5e8: the R tolerance exceeds a quarter pixel
    return "snapped:moved" if abs(d_lo) > e_lo else "snapped:inplace"


def judge(r, fn, gbox, region, mode, req, axy, tol, aclass, what, crs=None):
    """Judge one constructed GeoBox; returns the outcome label."""
    x0, y0, x1, y1 = region
    A = gbox.affine
    ny, nx = gbox.shape
    if A.b != 0 or A.d != 0:
        r.fail(f"{fn}:rotated", f"{what}: affine {tuple(A)[:6]} is not axis aligned")
        return "rotated"
    if crs is not None and gbox.crs != crs:
        r.fail(f"{fn}:crs", f"{what}: crs {gbox.crs} expected {crs}")
    ax_, ay_ = (None, None) if axy is None else axy
    kp = f"{aclass}:{fn}:{mode}"
    if mode == "res":
        rx, ry = req
        lx = axis_res(r, kp, "x", x0, x1, rx, ax_, tol, A.c, nx, A.a, what)
        ly = axis_res(r, kp, "y", y0, y1, ry, ay_, tol, A.f, ny, A.e, what)
    elif mode == "shape":
        qy, qx = req
        lx = axis_shape(r, kp, "x", x0, x1, qx, False, ax_, A.c, nx, A.a, what)
        ly = axis_shape(r, kp, "y", y0, y1, qy, True, ay_, A.f, ny, A.e, what)
    elif mode == "int":
        # a bare number: that many pixels along the longest side, square pixels, Y inverted;
        # everything else as for the resolution this implies
        N = req
        sx, sy = Fr(x1) - Fr(x0), Fr(y1) - Fr(y0)
        pexp = max(sx, sy) / N
        bad = False
        for axn, ro, neg in (("x", A.a, False), ("y", A.e, True)):
            if (ro < 0) != neg or abs(abs(Fr(ro)) - pexp) > eps(pexp, pexp):
                r.fail(f"pixel-size:{axn}:{kp}",
                       f"{what}: {axn} pixel size {ro!r}; longest side / {N} = {float(pexp)!r}")
                bad = True
        if bad:
            return "int:badsize"
        lx = axis_res(r, kp, "x", x0, x1, A.a, ax_, tol, A.c, nx, A.a, what, check_size=False)
        ly = axis_res(r, kp, "y", y0, y1, A.e, ay_, tol, A.f, ny, A.e, what, check_size=False)
        nl = nx if sx >= sy else ny
        lx = f"long{'=N' if nl == N else '=N+1' if nl == N + 1 else '?'} {lx}"
    else:
        raise ValueError(mode)
    return f"{fn}:{mode} x[{lx}] y[{ly}]"


# ---------------------------------------------------------------------------------------------
# alphabets
# ---------------------------------------------------------------------------------------------
# position of the low edge and span of the region, in pixels (values straddling every tolerance)
LEFT_Q = (0.0, 0.2, -0.2, 3.0, 2.996, 3.004, -7.5, 1000.3, -1e6 + 0.4, 1e7 + 0.3)
SPAN_Q = (0.0, 0.005, 0.1, 0.99, 0.995, 1.0, 1.004, 1.0099, 1.0101, 2.004, 2.5, 7.0, 100.5, 12345.678, 2e6)
RES_Q = tuple(s * v for v in (1.0, 10.0, 0.25, 30.0, 0.1, 1 / 3) for s in (1, -1))
ANCHOR_Q = ("edge", "center", 0.25, 0.9, ("xy", 0.1, 0.7), "floating")
TOL_Q = (0.0, 1e-6, 0.01, 0.1)
TIGHT = (False, True)
# the other axis: (low edge [px], span [px], signed pixel size)
SEC_Q = ((-7.5, 2.5, -30.0), (1000.3, 1.004, 0.1), (0.2, 7.0, -1 / 3))

LEFT_T = LEFT_Q + (2.95, 3.05, 3 - 5e-7, 3 + 5e-7, -3.004, 123456.7)
SPAN_T = SPAN_Q + (5e-7, 1 + 5e-7, 1 + 2e-6, 1.09, 1.11, 33.333)
RES_T = RES_Q + tuple(s * v for v in (0.01, 1000.0, 1 / 7) for s in (1, -1))
ANCHOR_T = ANCHOR_Q + (("xy", 0.0, 0.5), ("xy", 0.999, 1e-9), 1e-7)
TOL_T = TOL_Q + (1e-3, 0.3)
SEC_T = SEC_Q + ((2.996, 1.0101, -1.0),)


def _axis(L, S, p):
    """region edges on one axis from position/span in pixels: plain binary64 arithmetic; the
    oracle uses the two resulting binary64 numbers exactly"""
    lo = L * p
    return lo, lo + S * p


def _what(fn, **kw):
    return fn + "(" + ", ".join(f"{k}={v!r}" for k, v in kw.items()) + ")"


# ---------------------------------------------------------------------------------------------
# slice 1: from_bbox, resolution-driven
# ---------------------------------------------------------------------------------------------
def gen_bbox_res(tier):
    t = tier == "thorough"
    LEFT, SPAN, RES = (LEFT_T, SPAN_T, RES_T) if t else (LEFT_Q, SPAN_Q, RES_Q)
    ANC, TOL, SEC = (ANCHOR_T, TOL_T, SEC_T) if t else (ANCHOR_Q, TOL_Q, SEC_Q)
    return itertools.product(("x", "y"), LEFT, SPAN, RES, range(len(SEC)), ANC, TIGHT, TOL)


def run_bbox_res(case):
    prim, L, S, res, si, aenc, tight, tol = case
    L2, S2, res2 = SEC_T[si]
    a = _axis(L, S, abs(res))
    b = _axis(L2, S2, abs(res2))
    if prim == "x":
        (x0, x1), (y0, y1), rx, ry = a, b, res, res2
    else:
        (x0, x1), (y0, y1), rx, ry = b, a, res2, res
    aarg, axy, aclass = anchor_arg(aenc)
    if tight:
        axy, aclass = None, "tight"
    bbox = (x0, y0, x1, y1)
    what = _what("from_bbox", bbox=bbox, resolution=(rx, ry), anchor=aenc, tight=tight, tol=tol)
    r = R()
    g = GeoBox.from_bbox(bbox, CRS0, resolution=resxy_(rx, ry), anchor=aarg, tight=tight, tol=tol)
    r.outcome = judge(r, "from_bbox", g, bbox, "res", (rx, ry), axy, tol, aclass, what, crs=CRS0)
    return r


# ---------------------------------------------------------------------------------------------
# slice 2: from_bbox, shape-driven (tuple) ; region in world units
# ---------------------------------------------------------------------------------------------
LEFT_W = (0.0, 0.2, -0.2, 3.0, -7.5, 1000.3, -1e6 + 0.4, 1e7 + 0.3)
SPAN_W = (0.005, 0.1, 0.99, 1.0, 1.004, 2.5, 7.0, 100.5, 12345.678, 2e6)
UNIT_W = (1.0, 30.0, 0.1, 1 / 3)
SHAPES_Q = ((1, 1), (3, 5), (7, 2))
SHAPES_T = SHAPES_Q + ((1, 4), (256, 256), (1000, 33))
SEC_W = ((-7.5, 2.5), (1000.3, 100.5), (0.2, 0.99))


def gen_bbox_shape(tier):
    t = tier == "thorough"
    SH = SHAPES_T if t else SHAPES_Q
    ANC, TOL = (ANCHOR_T, TOL_T) if t else (ANCHOR_Q, (0.0, 0.01))
    return itertools.product(("x", "y"), LEFT_W, SPAN_W, UNIT_W, range(len(SEC_W)), SH, ANC, TIGHT, TOL)


def run_bbox_shape(case):
    prim, L, S, u, si, shape, aenc, tight, tol = case
    L2, S2 = SEC_W[si]
    a = _axis(L, S, u)
    b = _axis(L2, S2, u)
    (x0, x1), (y0, y1) = (a, b) if prim == "x" else (b, a)
    aarg, axy, aclass = anchor_arg(aenc)
    if tight:
        axy, aclass = None, "tight"
    bbox = (x0, y0, x1, y1)
    what = _what("from_bbox", bbox=bbox, shape=shape, anchor=aenc, tight=tight, tol=tol)
    r = R()
    g = GeoBox.from_bbox(bbox, CRS0, shape=shape, anchor=aarg, tight=tight, tol=tol)
    r.outcome = judge(r, "from_bbox", g, bbox, "shape", shape, axy, tol, aclass, what, crs=CRS0)
    return r


# ---------------------------------------------------------------------------------------------
# slice 3: from_bbox, a bare number as shape
# ---------------------------------------------------------------------------------------------
LEFT_I = (0.0, -0.2, 2.996, 1000.3, -1e6 + 0.4)
SPAN_I = (0.005, 0.99, 1.0, 1.004, 2.5, 7.0, 100.5, 12345.678)
NS_Q = (1, 10, 300)
NS_T = NS_Q + (3, 7, 4096)


def gen_bbox_int(tier):
    t = tier == "thorough"
    ANC, TOL = (ANCHOR_T, TOL_T) if t else (ANCHOR_Q, TOL_Q)
    UN = UNIT_W if t else (0.1,)
    return itertools.product(LEFT_I[:4], SPAN_I, LEFT_I[1:], SPAN_I, UN, NS_T if t else NS_Q, ANC, TIGHT, TOL)


def run_bbox_int(case):
    Lx, Sx, Ly, Sy, u, N, aenc, tight, tol = case
    x0, x1 = _axis(Lx, Sx, u)
    y0, y1 = _axis(Ly, Sy, u)
    aarg, axy, aclass = anchor_arg(aenc)
    if tight:
        axy, aclass = None, "tight"
    bbox = (x0, y0, x1, y1)
    what = _what("from_bbox", bbox=bbox, shape=N, anchor=aenc, tight=tight, tol=tol)
    r = R()
    g = GeoBox.from_bbox(bbox, CRS0, shape=N, anchor=aarg, tight=tight, tol=tol)
    r.outcome = judge(r, "from_bbox", g, bbox, "int", N, axy, tol, aclass, what, crs=CRS0)
    return r


# ---------------------------------------------------------------------------------------------
# slice 4: every spelling of anchor / resolution / bbox
# ---------------------------------------------------------------------------------------------
ANCHOR_SPELL = (
    "default", "edge", 0, 0.0, ("enum", "EDGE"), ("xy", 0.0, 0.0),
    "center", "centre", 0.5, ("enum", "CENTER"), ("xy", 0.5, 0.5),
    0.25, ("xy", 0.25, 0.25), ("xy", 0.0, 0.5), ("xy", 0.5, 0.0), ("xy", 0.7, 0.1),
    "floating", ("enum", "FLOATING"), None,
)
RES_SPELL = (("s", 10), ("s", 10.0), ("s", -10.0), ("s", 0.1), ("xy", 10, -10), ("xy", 0.1, 0.1),
             ("xy", -1 / 3, 1 / 3), ("xy", 30.0, -10.0))
BBOX_FORM = ("tuple+crs", "bbox-with-crs", "bbox-no-crs+crs", "tuple-no-crs", "bbox-no-crs")
REGION_SPELL = ((0.2, 1000.3, 7.0, 2.5), (-7.5, 2.996, 1.004, 100.5), (3.0, -0.2, 0.005, 1.0099))


def gen_spell(tier):
    return itertools.product(BBOX_FORM, RES_SPELL + (("shape", (3, 5)), ("shape", 10)), ANCHOR_SPELL,
                             TIGHT, REGION_SPELL, (0.01,) if tier != "thorough" else (0.01, 0.0))


def run_spell(case):
    form, renc, aenc, tight, (Lx, Ly, Sx, Sy), tol = case
    if renc[0] == "shape":
        mode = "shape" if isinstance(renc[1], tuple) else "int"
        req = renc[1]
        p = 30.0
        kw = dict(shape=req)
    else:
        mode = "res"
        rarg, req = res_arg(renc)
        p = abs(req[0])
        kw = dict(resolution=rarg)
    x0, x1 = _axis(Lx, Sx, p)
    y0, y1 = _axis(Ly, Sy, abs(req[1]) if mode == "res" else p)
    bbox = (x0, y0, x1, y1)
    if aenc is None:  # argument left out: documented default snaps pixel edges to the axes
        axy, aclass = (0.0, 0.0), "edge"
    else:
        aarg, axy, aclass = anchor_arg(aenc)
        kw["anchor"] = aarg
    if tight:
        axy, aclass = None, "tight"
    crs = CRS0
    if form == "tuple+crs":
        args = (bbox, CRS0)
    elif form == "bbox-with-crs":
        args = (BoundingBox(*bbox, crs=CRS0),)
    elif form == "bbox-no-crs+crs":
        args = (BoundingBox(*bbox), CRS0)
    elif form == "tuple-no-crs":
        args, crs = (bbox,), "epsg:4326"
    else:
        args, crs = (BoundingBox(*bbox),), "epsg:4326"
    what = _what("from_bbox", form=form, bbox=bbox, req=renc, anchor=aenc, tight=tight, tol=tol)
    r = R()
    g = GeoBox.from_bbox(*args, tight=tight, tol=tol, **kw)
    r.outcome = judge(r, "from_bbox", g, bbox, mode, req, axy, tol, aclass, what, crs=crs)
    return r


# ---------------------------------------------------------------------------------------------
# slice 5: from_geopolygon, polygon in the CRS of the result
# ---------------------------------------------------------------------------------------------
def _poly(kind, x0, y0, x1, y1):
    """-> (list of raw vertices, builder of the odc-geo geometry).  Every kind touches all four
    sides of [x0,x1]x[y0,y1]; the oracle's region is min/max over the raw vertex list."""
    xm, ym = x0 + (x1 - x0) * 0.375, y0 + (y1 - y0) * 0.625
    if kind == "box":
        pts = [(x0, y0), (x0, y1), (x1, y1), (x1, y0), (x0, y0)]
        return pts, lambda crs: geom.polygon(pts, crs)
    if kind == "tri":
        pts = [(x0, y0), (x1, ym), (xm, y1), (x0, y0)]
        return pts, lambda crs: geom.polygon(pts, crs)
    if kind == "diamond":
        pts = [(x0, ym), (xm, y1), (x1, ym), (xm, y0), (x0, ym)]
        return pts, lambda crs: geom.polygon(pts, crs)
    if kind == "multi":
        a = [(x0, y0), (x0, ym), (xm, ym), (xm, y0), (x0, y0)]
        b = [(xm, ym), (xm, y1), (x1, y1), (x1, ym), (xm, ym)]
        return a + b, lambda crs: geom.multipolygon([[a], [b]], crs)
    if kind == "line":
        pts = [(x0, y1), (xm, y0), (x1, ym)]
        return pts, lambda crs: geom.line(pts, crs)
    raise ValueError(kind)


def _vbox(pts):
    xs = [p[0] for p in pts]
    ys = [p[1] for p in pts]
    return (min(xs), min(ys), max(xs), max(ys))


KINDS = ("box", "tri", "diamond", "multi", "line")
POLY_REQ = (("xy", 10.0, -10.0), ("xy", 0.1, 0.1), ("xy", -1 / 3, 30.0), ("s", 0.25), ("xy", 30.0, -10.0),
            ("shape", (3, 5)), ("shape", (7, 2)), ("shape", 10))
POLY_L = (0.2, -7.5, 2.996, 1000.3, 1e7 + 0.3)
POLY_S = (0.005, 0.995, 1.0, 1.0101, 7.0, 100.5)
# deprecated align= is given in CRS units (below the pixel size); the case holds pixel fractions
ALIGN_Q = ((0.0, 0.0), (0.5, 0.5), (0.3, 0.0), (0.25, 0.9))


def gen_poly(tier):
    t = tier == "thorough"
    for kind, req, Lx, Sx, (Ly, Sy), aenc, tight, tol in itertools.product(
            KINDS, POLY_REQ, POLY_L, POLY_S, ((3.004, 2.5), (-1e6 + 0.4, 1.004)) + (((0.0, 12345.678),) if t else ()),
            ANCHOR_T if t else ANCHOR_Q, TIGHT, TOL_Q if t else (0.0, 0.01)):
        yield (kind, req, Lx, Sx, Ly, Sy, ("anchor", aenc), tight, tol)
    # deprecated align=
    for kind, req, Lx, Sx, al, tight in itertools.product(
            KINDS, POLY_REQ[:5], POLY_L, POLY_S, ALIGN_Q, TIGHT):
        yield (kind, req, Lx, Sx, 3.004, 2.5, ("align", al), tight, 0.01)


def run_poly(case):
    kind, renc, Lx, Sx, Ly, Sy, (how, aenc), tight, tol = case
    if renc[0] == "shape":
        mode = "shape" if isinstance(renc[1], tuple) else "int"
        req = renc[1]
        px = py = 30.0
        kw = dict(shape=req)
    else:
        mode = "res"
        rarg, req = res_arg(renc)
        px, py = abs(req[0]), abs(req[1])
        kw = dict(resolution=rarg)
    x0, x1 = _axis(Lx, Sx, px)
    y0, y1 = _axis(Ly, Sy, py)
    pts, build = _poly(kind, x0, y0, x1, y1)
    region = _vbox(pts)
    if how == "anchor":
        aarg, axy, aclass = anchor_arg(aenc)
        kw["anchor"] = aarg
    else:
        # align is "anchor but in CRS units": aenc holds pixel fractions, hand over CRS units
        fx, fy = aenc
        kw["align"] = xy_(fx * px, fy * py)
        axy = (Fr(fx * px) / Fr(px), Fr(fy * py) / Fr(py))
        aclass = "align"
    if tight:
        axy, aclass = None, "tight"
    what = _what("from_geopolygon", kind=kind, vertices=pts, req=renc, how=how, anchor=aenc, tight=tight, tol=tol)
    r = R()
    g = GeoBox.from_geopolygon(build(CRS0), tight=tight, tol=tol, **kw)
    r.outcome = judge(r, "from_geopolygon", g, region, mode, req, axy, tol, aclass, what, crs=CRS0) + f" {kind}"
    return r


# ---------------------------------------------------------------------------------------------
# slice 6: from_geopolygon into another CRS (and the "utm" spelling of from_bbox)
# ---------------------------------------------------------------------------------------------
# (source crs, destination argument, expected destination, resolutions, regions in the source crs)
XCRS = (
    ("epsg:4326", "epsg:3857", "epsg:3857", (("s", 10.0), ("xy", 1000.0, 1000.0), ("xy", -30.0, -30.0)),
     ((14.1, 40.2, 14.6, 40.7), (-70.25, -33.5, -70.2499, -33.4999), (0.0, 0.0, 0.001, 3.0))),
    ("epsg:4326", "epsg:32633", "epsg:32633", (("s", 10.0), ("xy", 30.0, -30.0), ("xy", 250.0, 250.0)),
     ((14.1, 40.2, 14.6, 40.7), (15.0, 0.0, 15.0003, 0.0002), (12.5, 60.0, 17.5, 60.3))),
    ("epsg:4326", "utm", "epsg:32633", (("s", 10.0), ("xy", -100.0, 100.0)),
     ((14.1, 40.2, 14.6, 40.7), (13.0, 55.0, 13.01, 55.3))),
    ("epsg:4326", "utm", "epsg:32719", (("s", 30.0),),
     ((-70.25, -33.5, -70.2, -33.4),)),
    ("epsg:3857", "epsg:4326", "epsg:4326", (("s", 0.01), ("xy", 1 / 3600, -1 / 3600), ("xy", 0.1, 0.1)),
     ((1569604.0, 4895303.0, 1625264.0, 4968048.0), (-7820000.0, -3960000.0, -7819990.0, -3959000.0))),
    ("epsg:32633", "epsg:3857", "epsg:3857", (("s", 10.0), ("xy", 10.0, 10.0)),
     ((423000.4, 4450000.2, 466000.9, 4506000.1),)),
)
_TR = {}


def _fresh_transform(src, dst, pts):
    k = (src, dst)
    if k not in _TR:
        _TR[k] = pyproj.Transformer.from_crs(pyproj.CRS.from_user_input(src), pyproj.CRS.from_user_input(dst),
                                             always_xy=True)
    return [_TR[k].transform(x, y) for x, y in pts]


def gen_xcrs(tier):
    t = tier == "thorough"
    for i, (_, dst_arg, _, ress, regs) in enumerate(XCRS):
        reqs = tuple(ress) + (("shape", (3, 5)), ("shape", 10))
        if dst_arg == "utm" and not t:
            # guessing the UTM zone costs ~70 ms per call (CRS database query): smaller product
            yield from itertools.product((i,), range(len(regs)), ("box", "tri"), reqs,
                                         ("edge", ("xy", 0.1, 0.7), "floating"), TIGHT, (0.01,))
        else:
            yield from itertools.product((i,), range(len(regs)), KINDS, reqs, ANCHOR_T if t else ANCHOR_Q, TIGHT,
                                         TOL_Q if t else (0.0, 0.01))


def run_xcrs(case):
    i, ri, kind, renc, aenc, tight, tol = case
    src, dst_arg, dst, _, regs = XCRS[i]
    pts, build = _poly(kind, *regs[ri])
    region = _vbox(_fresh_transform(src, dst, pts))
    if renc[0] == "shape":
        mode = "shape" if isinstance(renc[1], tuple) else "int"
        req = renc[1]
        kw = dict(shape=req)
    else:
        mode = "res"
        rarg, req = res_arg(renc)
        kw = dict(resolution=rarg)
    aarg, axy, aclass = anchor_arg(aenc)
    if tight:
        axy, aclass = None, "tight"
    what = _what("from_geopolygon", src=src, crs=dst_arg, kind=kind, vertices=pts, req=renc, anchor=aenc,
                 tight=tight, tol=tol)
    r = R()
    g = GeoBox.from_geopolygon(build(src), crs=dst_arg, anchor=aarg, tight=tight, tol=tol, **kw)
    r.outcome = judge(r, "from_geopolygon-crs", g, region, mode, req, axy, tol, aclass, what, crs=dst) + f" {kind}"
    if kind == "box" and dst_arg == "utm" and src == "epsg:4326":
        # same region through from_bbox(tuple, "utm"): lon/lat box reprojected to the UTM zone
        g2 = GeoBox.from_bbox(regs[ri], "utm", anchor=aarg, tight=tight, tol=tol, **kw)
        what2 = _what("from_bbox", bbox=regs[ri], crs="utm", req=renc, anchor=aenc, tight=tight, tol=tol)
        judge(r, "from_bbox-utm", g2, region, mode, req, axy, tol, aclass, what2, crs=dst)
    return r


# ---------------------------------------------------------------------------------------------
# slice 7: zoom_to(resolution=) of a GeoBox of any orientation (incl. rotated / sheared)
# ---------------------------------------------------------------------------------------------
Z_ORG = (0.0, 0.2, -7.5, 1000.3, -1e6 + 0.4, 1e7 + 0.3)
Z_PIX = (1.0, 30.0, 0.1, 1 / 3)
Z_SGN = ((1, -1), (1, 1), (-1, -1), (-1, 1), "rot30", "shear")
Z_SHAPE = ((1, 1), (3, 5), (7, 2), (100, 33))
Z_RATIO = (0.1, 1 / 3, 0.5, 0.99, 0.995, 1.0, 1.004, 1.0099, 1.0101, 2.0, 2.5, 3.0, 7.0, 100.5)
Z_FORM = ("scalar", "scalar-neg", "++", "--", "-+", "aniso")


def gen_zoom(tier):
    t = tier == "thorough"
    return itertools.product(Z_ORG, Z_PIX, Z_SGN, Z_SHAPE + (((1000, 1), (4096, 4096)) if t else ()),
                             Z_RATIO + ((1e-3, 0.9, 1.5, 33.333, 1e4) if t else ()), Z_FORM, (CRS0, None))


def run_zoom(case):
    org, pix, orient, shape, ratio, form, crs = case
    ny, nx = shape
    cx, cy = org * pix, -org * pix + 0.5 * pix
    if orient == "rot30":
        A = Affine.translation(cx, cy) * Affine.rotation(30.0) * Affine.scale(pix, -pix)
    elif orient == "shear":
        A = Affine.translation(cx, cy) * Affine.shear(15.0, 0.0) * Affine.scale(pix, -pix)
    else:
        sx, sy = orient
        A = Affine(sx * pix, 0.0, cx, 0.0, sy * pix, cy)
    base = GeoBox(shape, A, crs)
    q = pix * ratio
    renc = {"scalar": ("s", q), "scalar-neg": ("s", -q), "++": ("xy", q, q), "--": ("xy", -q, -q),
            "-+": ("xy", -q, q), "aniso": ("xy", q, -q / 3)}[form]
    rarg, req = res_arg(renc)
    # the region is the bounding box of the footprint of the base GeoBox: its four corners mapped
    # through the six binary64 coefficients of its affine, exactly
    a_, b_, c_, d_, e_, f_ = (Fr(v) for v in tuple(A)[:6])
    cxs = [a_ * i + b_ * j + c_ for i in (0, nx) for j in (0, ny)]
    cys = [d_ * i + e_ * j + f_ for i in (0, nx) for j in (0, ny)]
    region = (min(cxs), min(cys), max(cxs), max(cys))
    what = _what("zoom_to", base_shape=shape, base_affine=tuple(A)[:6], resolution=renc, crs=crs)
    r = R()
    g = base.zoom_to(resolution=rarg)
    # documented defaults of from_bbox apply: tol = 1/100 of a (new) pixel; no snapping
    r.outcome = judge(r, "zoom_to", g, region, "res", req, None, 0.01, "tight", what)
    if isinstance(orient, str):
        r.outcome += " " + orient
    if g.crs != base.crs:
        r.fail("zoom_to:crs", f"{what}: crs {g.crs} expected {base.crs}")
    return r


# ---------------------------------------------------------------------------------------------
def slices(tier):
    def S(name, gen, run, note):
        return e1.Slice(name, (lambda g=gen: g(tier)), run, note)

    return [
        S("bbox-res", gen_bbox_res, run_bbox_res,
          "from_bbox(resolution=): one axis over position x span x signed pixel size, the other from a short "
          "list, both orders; x anchor x tight x tol"),
        S("bbox-shape", gen_bbox_shape, run_bbox_shape,
          "from_bbox(shape=(ny,nx)): region position x span x unit, x shape x anchor x tight x tol"),
        S("bbox-int", gen_bbox_int, run_bbox_int,
          "from_bbox(shape=N): x-region x y-region (all aspect classes) x N x anchor x tight x tol"),
        S("spellings", gen_spell, run_spell,
          "every spelling of anchor (str/number/enum/XY/omitted), resolution (number/Resolution) and bbox "
          "(tuple/BoundingBox, with/without crs)"),
        S("polygon", gen_poly, run_poly,
          "from_geopolygon in the polygon's own CRS: 5 geometry kinds x request x region x anchor|align x tight x tol"),
        S("polygon-crs", gen_xcrs, run_xcrs,
          "from_geopolygon(crs=other) incl. 'utm' (and from_bbox(..., 'utm')): region = fresh pyproj transform "
          "of the vertices"),
        S("zoom-res", gen_zoom, run_zoom,
          "GeoBox.zoom_to(resolution=) of boxes of every orientation (4 axis aligned, rotated, sheared): region = "
          "exact bounding box of the footprint"),
    ]


def main(ctx):
    t = ctx.tier == "thorough"
    ctx.rule = (
        "complete Cartesian products (unions of products for the polygon slices); every case constructs one "
        "GeoBox with the real code and judges both axes in exact rationals; distinct by (slice, case) hash"
    )
    ctx.bounds = {
        "low_edge_px": list(LEFT_T if t else LEFT_Q), "span_px": list(SPAN_T if t else SPAN_Q),
        "pixel_size": list(RES_T if t else RES_Q), "anchor": [repr(a) for a in (ANCHOR_T if t else ANCHOR_Q)],
        "tol": list(TOL_T if t else TOL_Q), "tight": [False, True],
        "shapes": [list(s) for s in (SHAPES_T if t else SHAPES_Q)], "int_shapes": list(NS_T if t else NS_Q),
        "max_abs_coordinate_px": 1e7, "max_span_px": 2e6,
    }
    ctx.assumptions = [
        "region edges are the binary64 numbers handed to the library (right = left + span*pixel evaluated in "
        "binary64); the oracle converts inputs and the affine read back to exact rationals",
        "comparisons carry the DESIGN s.3 R tolerance 1e-9*(|coordinate| + pixel) for the implementation's own "
        "binary64 rounding (x/res, k*res, +offset); tol itself is applied exactly: uncovered <= tol*pixel per side",
        "minimality (< (1+tol) pixel excess per side) is demanded when the axis has more than one pixel: a GeoBox "
        "has at least one pixel, and for one pixel the clause follows from covering except for a zero-span region "
        "on a grid line",
        "snapping off (tight=True / anchor floating): the result starts exactly on the region's edge on the origin "
        "side (docstring 'tight=True turns off pixel snapping', snap_grid 'None - don't snap'; asserted by the "
        "repo's own test_from_bbox); this is the observable meaning of 'not snapped'",
        "anchor fractions are taken in [0,1) as snap_grid documents; the alignment clause is edges == (k+anchor)*pixel "
        "for either sign of the resolution",
        "shape-driven construction: zero-span regions are outside the domain (pixel size would be 0); with snapping "
        "the clause is |displacement| < 1 pixel per side plus alignment; the covering clause is not demanded there "
        "(the property does not state it)",
        "a bare number as shape: longest side / N gives the (square, Y-inverted) pixel size, then every "
        "resolution-driven clause applies; the pixel count along the longest side is recorded, not demanded",
        "from_geopolygon(crs=other): to_crs adds no vertices by default, so the region is the bounding box of the "
        "vertices transformed by a fresh pyproj.Transformer; curvature of edges is the subject of C07/C11",
        "zoom_to(resolution=): the region is the bounding box of the four corners of the source GeoBox (exact, from "
        "its affine); tol is the documented default 0.01 of a new pixel; the result is not snapped (tight)",
    ]
    sl = slices(ctx.tier)
    if ctx.only:
        sl = [s for s in sl if any(s.name.startswith(o) for o in ctx.only)]
    e1.run_slices(ctx, sl)


def replay(slice_name, case, tier):
    return e1.replay(slices(tier), slice_name, case).fails
