"""C08 - a GeoBox built from a region covers it and is snapped as requested.

E1: complete Cartesian products over region position / span (in pixels, straddling every tolerance),
resolution (either sign per axis), anchor, tight, tol and requested shapes, executed on the real
``GeoBox.from_bbox`` / ``GeoBox.from_geopolygon`` / ``GeoBox.zoom_to(resolution=)``.

Oracle: exact rational arithmetic (``fractions.Fraction``) on the binary64 inputs and on the binary64
numbers read back from the resulting affine.  Covering, minimality and alignment are statements
about real numbers; the implementation's own binary64 rounding (x/res, k*res, +offset: a handful of
roundings, each half an ulp of a coordinate) may legitimately move an edge, so every comparison
carries ``8 ulp(largest coordinate involved) + 1e-9 pixel`` - nothing else is tolerated.  (The
DESIGN section 3 "R" tolerance 1e-9*|coordinate| is NOT used: at 5e5 m it is a hundred pixels of a
4.5e-6 grid.)

Besides the judged clauses there are differential clauses: the same value in another encoding, the
same request through another entry point, and the same request after a history of other operations
on the same objects must give the identical GeoBox.
"""
from __future__ import annotations

import itertools
from fractions import Fraction as Fr

from vf import e1
from vf.core import R

PROPERTY = "C08"
LEVEL = "exploration"

import numpy as np  # noqa: E402
import pyproj  # noqa: E402
import shapely.geometry  # noqa: E402

from odc.geo import geom  # noqa: E402
from odc.geo import geobox as gbx  # noqa: E402
from odc.geo.geobox import GeoBox  # noqa: E402
from odc.geo.geom import BoundingBox  # noqa: E402
from odc.geo.crs import CRS  # noqa: E402
from odc.geo.types import AnchorEnum, resxy_, wh_, xy_  # noqa: E402
from affine import Affine  # noqa: E402

E9 = Fr(1, 10**9)
U49 = Fr(1, 2**49)
CRS0 = "epsg:3857"


def slack(m, p):
    """Room for the implementation's own binary64 rounding: 8 ulp of the largest coordinate
    involved (m) plus 1e-9 of a pixel (p)."""
    return U49 * m + E9 * p


# ---------------------------------------------------------------------------------------------
# anchors / resolutions: case encoding -> (argument handed to the library, expected meaning)
# ---------------------------------------------------------------------------------------------
def anchor_arg(enc):
    """-> (value passed as anchor=, expected (ax, ay) pixel fractions or None for no snapping, class)"""
    if isinstance(enc, tuple):
        if enc[0] == "xy":
            _, ax, ay = enc
            return xy_(ax, ay), (ax, ay), "xy"
        if enc[0] == "np":  # numpy double: a float subclass
            return np.float64(enc[1]), (enc[1], enc[1]), ("edge" if enc[1] == 0 else "center" if enc[1] == 0.5 else "frac")
        if enc[0] == "xyi":  # XY of python ints
            return xy_(int(enc[1]), int(enc[2])), (float(enc[1]), float(enc[2])), "xy"
        if enc[0] == "enum":
            e = AnchorEnum[enc[1]]
            return e, {"EDGE": (0.0, 0.0), "CENTER": (0.5, 0.5), "FLOATING": None}[enc[1]], enc[1].lower()
        raise ValueError(enc)
    if isinstance(enc, str):
        return enc, {"edge": (0.0, 0.0), "default": (0.0, 0.0), "center": (0.5, 0.5),
                     "centre": (0.5, 0.5), "floating": None}[enc], \
            {"default": "edge", "centre": "center"}.get(enc, enc)
    # a bare number: that fraction on both axes (0 == edge, 0.5 == centre)
    f = float(enc)
    return enc, (f, f), ("edge" if f == 0 else "center" if f == 0.5 else "frac")


def res_arg(enc):
    """-> (value passed as resolution=, expected (rx, ry))"""
    if enc[0] == "xy":
        return resxy_(enc[1], enc[2]), (float(enc[1]), float(enc[2]))
    if enc[0] == "s":  # bare number: square pixels, Y inverted
        return enc[1], (float(enc[1]), -float(enc[1]))
    raise ValueError(enc)


# ---------------------------------------------------------------------------------------------
# the oracle (one axis at a time, exact rationals)
# ---------------------------------------------------------------------------------------------
def _edge_state(u_lo, u_hi, e_lo, e_hi):
    if u_lo > e_lo or u_hi > e_hi:
        return "shrunk"  # part of the region (within tol) left uncovered
    if u_lo < -e_lo or u_hi < -e_hi:
        return "grown"
    return "exact"


def axis_res(r, kp, ax, x0, x1, rq, a, tol, c, n, ro, what, check_size=True, m0=0):
    """Resolution-driven construction, one axis.

    x0 <= x1: region (exact); rq: requested signed pixel size; a: anchor fraction or None (no
    snapping); c, n, ro: origin coordinate, pixel count and signed pixel size of the result.
    """
    sgn = "pos" if rq > 0 else "neg"
    snap = "floating" if a is None else "snapped"
    kk = f"{ax}:{sgn}:{kp}"
    if check_size and ro != rq:
        r.fail(f"pixel-size:{kk}", f"{what}: {ax} pixel size {ro!r}, requested {rq!r}")
        return f"{sgn}:badsize"
    if not isinstance(n, int) or n < 1:
        r.fail(f"pixel-count:{kk}", f"{what}: {ax} has {n!r} pixels")
        return f"{sgn}:n0"
    X0, X1, P, C, T = Fr(x0), Fr(x1), abs(Fr(ro)), Fr(c), Fr(tol)
    far = C + n * Fr(ro)
    lo, hi = min(C, far), max(C, far)
    e_lo = e_hi = e = slack(max(abs(X0), abs(X1), abs(C), abs(far), m0), P)
    u_lo, u_hi = lo - X0, X1 - hi  # > 0: that much of the region is not covered
    # covers the region except at most tol of a pixel per side
    if u_lo > T * P + e_lo:
        r.fail(f"uncovered:low-side:{kk}",
               f"{what}: {ax} low edge {float(lo)!r} leaves {float(u_lo / P):.9g} px of the region "
               f"[{float(X0)!r}, {float(X1)!r}] uncovered (tol={tol})")
    if u_hi > T * P + e_hi:
        r.fail(f"uncovered:high-side:{kk}",
               f"{what}: {ax} high edge {float(hi)!r} leaves {float(u_hi / P):.9g} px of the region "
               f"[{float(X0)!r}, {float(X1)!r}] uncovered (tol={tol})")
    # less than (1 + tol) px larger than necessary per side (a one pixel result cannot shrink)
    if n > 1:
        if -u_lo >= (1 + T) * P + e_lo:
            r.fail(f"excess:low-side:{kk}",
                   f"{what}: {ax} low edge {float(lo)!r} is {float(-u_lo / P):.9g} px beyond the region "
                   f"[{float(X0)!r}, {float(X1)!r}] (n={n}, tol={tol})")
        if -u_hi >= (1 + T) * P + e_hi:
            r.fail(f"excess:high-side:{kk}",
                   f"{what}: {ax} high edge {float(hi)!r} is {float(-u_hi / P):.9g} px beyond the region "
                   f"[{float(X0)!r}, {float(X1)!r}] (n={n}, tol={tol})")
    if a is None:
        # snapping off: the grid is not moved, it starts on the region's edge
        org = X0 if ro > 0 else X1
        if abs(C - org) > e:
            r.fail(f"floating-origin:{kk}",
                   f"{what}: snapping is off but {ax} origin {c!r} is {float((C - org) / P):.9g} px away "
                   f"from the region edge {float(org)!r}")
    else:
        q = C / P - Fr(a)
        d = abs(q - round(q)) * P
        if d > e:
            r.fail(f"alignment:{kk}",
                   f"{what}: {ax} pixel edges sit at fraction {float((C / P) % 1):.9g} of a pixel from "
                   f"the CRS origin, requested {a!r} (origin {c!r}, pixel {float(P)!r})")
    return f"{sgn}:{snap}:{'n1' if n == 1 else 'n+'}:{_edge_state(u_lo, u_hi, e_lo, e_hi)}"


def axis_shape(r, kp, ax, x0, x1, nreq, want_neg, a, c, n, ro, what):
    """Shape-driven construction, one axis."""
    kk = f"{ax}:{kp}"
    if n != nreq:
        r.fail(f"shape:{kk}", f"{what}: {ax} has {n} pixels, requested {nreq}")
        return "badshape"
    X0, X1, C, RO = Fr(x0), Fr(x1), Fr(c), Fr(ro)
    pexp = (X1 - X0) / nreq
    P = abs(RO)
    if (ro < 0) != want_neg or ro == 0:
        r.fail(f"orientation:{kk}", f"{what}: {ax} pixel size {ro!r} has the wrong sign")
        return "badsign"
    if abs(P - pexp) > pexp / 2**50:  # two correctly rounded operations: (x1 - x0) / n
        r.fail(f"pixel-size:{kk}",
               f"{what}: {ax} pixel size {ro!r} but span/shape = {float(pexp)!r}")
        return "badsize"
    far = C + n * RO
    lo, hi = min(C, far), max(C, far)
    e_lo = e_hi = slack(max(abs(X0), abs(X1), abs(C), abs(far)), P)
    d_lo, d_hi = lo - X0, hi - X1
    if a is None:
        if abs(d_lo) > e_lo or abs(d_hi) > e_hi:
            r.fail(f"displaced-without-snapping:{kk}",
                   f"{what}: snapping is off but {ax} extent [{float(lo)!r}, {float(hi)!r}] differs "
                   f"from the region [{float(X0)!r}, {float(X1)!r}]")
        return "floating"
    if abs(d_lo) >= P + e_lo or abs(d_hi) >= P + e_hi:
        r.fail(f"displacement:{kk}",
               f"{what}: {ax} extent [{float(lo)!r}, {float(hi)!r}] is displaced by "
               f"{float(d_lo / P):.9g} px from the region [{float(X0)!r}, {float(X1)!r}]")
    q = C / P - Fr(a)
    d = abs(q - round(q)) * P
    tol_al = e_lo
    if d > tol_al:
        r.fail(f"alignment:{kk}",
               f"{what}: {ax} pixel edges sit at fraction {float((C / P) % 1):.9g} of a pixel from "
               f"the CRS origin, requested {a!r} (origin {c!r}, pixel {float(P)!r})")
    if 4 * tol_al >= P:
        return "snapped:unresolvable"  # origin/pixel > 2**47: rounding slack exceeds a quarter pixel
    return "snapped:moved" if abs(d_lo) > e_lo else "snapped:inplace"


def judge(r, fn, gbox, region, mode, req, axy, tol, aclass, what, crs=None, m0=0):
    """Judge one constructed GeoBox; returns the outcome label."""
    x0, y0, x1, y1 = region
    A = gbox.affine
    ny, nx = gbox.shape
    if A.b != 0 or A.d != 0:
        r.fail(f"{fn}:rotated", f"{what}: affine {tuple(A)[:6]} is not axis aligned")
        return "rotated"
    if crs is not None and gbox.crs != crs:
        r.fail(f"{fn}:crs", f"{what}: crs {gbox.crs} expected {crs}")
    ax_, ay_ = (None, None) if axy is None else axy
    kp = f"{aclass}:{fn}:{mode}"
    if mode == "res":
        rx, ry = req
        lx = axis_res(r, kp, "x", x0, x1, rx, ax_, tol, A.c, nx, A.a, what, m0=m0)
        ly = axis_res(r, kp, "y", y0, y1, ry, ay_, tol, A.f, ny, A.e, what, m0=m0)
    elif mode == "shape":
        qy, qx = req
        lx = axis_shape(r, kp, "x", x0, x1, qx, False, ax_, A.c, nx, A.a, what)
        ly = axis_shape(r, kp, "y", y0, y1, qy, True, ay_, A.f, ny, A.e, what)
    elif mode == "int":
        # a bare number: that many pixels along the longest side, square pixels, Y inverted;
        # everything else as for the resolution this implies
        N = req
        sx, sy = Fr(x1) - Fr(x0), Fr(y1) - Fr(y0)
        pexp = max(sx, sy) / N
        bad = False
        for axn, ro, neg in (("x", A.a, False), ("y", A.e, True)):
            if (ro < 0) != neg or abs(abs(Fr(ro)) - pexp) > pexp / 2**50:
                r.fail(f"pixel-size:{axn}:{kp}",
                       f"{what}: {axn} pixel size {ro!r}; longest side / {N} = {float(pexp)!r}")
                bad = True
        if bad:
            return "int:badsize"
        lx = axis_res(r, kp, "x", x0, x1, A.a, ax_, tol, A.c, nx, A.a, what, check_size=False)
        ly = axis_res(r, kp, "y", y0, y1, A.e, ay_, tol, A.f, ny, A.e, what, check_size=False)
        nl = nx if sx >= sy else ny
        lx = f"long{'=N' if nl == N else '=N+1' if nl == N + 1 else '?'} {lx}"
    else:
        raise ValueError(mode)
    return f"{fn}:{mode} x[{lx}] y[{ly}]"


def views_agree(r, fn, g, what):
    """boundingbox / extent of a result describe the footprint given by ITS OWN shape and affine."""
    A = g.affine
    ny, nx = g.shape
    xs = sorted((Fr(A.c), Fr(A.c) + nx * Fr(A.a)))
    ys = sorted((Fr(A.f), Fr(A.f) + ny * Fr(A.e)))
    want = (xs[0], ys[0], xs[1], ys[1])
    e = slack(max(abs(v) for v in want), 0)
    for name, bb in (("boundingbox", g.boundingbox), ("extent", g.extent.boundingbox)):
        if any(abs(Fr(float(v)) - w) > e for v, w in zip(bb.bbox, want)):
            r.fail(f"{fn}:result-{name}-stale",
                   f"{what}: result {g.shape.yx} {tuple(A)[:6]} reports {name} {tuple(bb.bbox)}, its own "
                   f"footprint is {tuple(float(w) for w in want)}")


def same(r, key, g, g2, what):
    """Differential clause: two routes to the same request must give the identical GeoBox."""
    if g2.shape != g.shape or tuple(g2.affine)[:6] != tuple(g.affine)[:6] or g2.crs != g.crs:
        r.fail(f"differs:{key}",
               f"{what} -> {g.shape.yx} {tuple(g.affine)[:6]} {g.crs}, but the equivalent call -> "
               f"{g2.shape.yx} {tuple(g2.affine)[:6]} {g2.crs}")


# ---------------------------------------------------------------------------------------------
# alphabets
# ---------------------------------------------------------------------------------------------
# position of the low edge and span of the region, in pixels (values straddling every tolerance)
# (3.5: half a pixel off a whole number; 1e8 + 0.3: coordinates of 1e7 m on a 0.1 m grid)
LEFT_Q = (0.0, 0.2, -0.2, 3.0, 2.996, 3.004, 3.5, -7.5, 1000.3, -1e6 + 0.4, 1e7 + 0.3, 1e8 + 0.3)
# (2000000.85 = 2e6 * 1.000000425: a ratio within 1e-6 of a round number on a multi-million pixel grid)
SPAN_Q = (0.0, 0.005, 0.1, 0.99, 0.995, 1.0, 1.004, 1.0099, 1.0101, 2.004, 2.5, 7.0, 100.5, 12345.678, 2e6,
          2000000.85)
# (4.5e-6: half a metre in degrees)
RES_Q = tuple(s * v for v in (1.0, 10.0, 0.25, 30.0, 0.1, 1 / 3, 4.5e-6) for s in (1, -1))
ANCHOR_Q = ("edge", "center", 0.25, 0.9, ("xy", 0.1, 0.7), "floating")
TOL_Q = (0.0, 1e-6, 0.01, 0.1)
TIGHT = (False, True)
# the other axis: (low edge [px], span [px], signed pixel size)
SEC_Q = ((-7.5, 2.5, -30.0), (1000.3, 1.004, 0.1), (0.2, 7.0, -1 / 3))  # with the primary: every sign pair

LEFT_T = LEFT_Q + (2.95, 3.05, 3 - 5e-7, 3 + 5e-7, -3.004, 123456.7)
SPAN_T = SPAN_Q + (5e-7, 1 + 5e-7, 1 + 2e-6, 1.09, 1.11, 33.333, 4e6 + 0.004, 4e6 - 0.004)
RES_T = RES_Q + tuple(s * v for v in (0.01, 1000.0, 1 / 7, 1e5) for s in (1, -1))
ANCHOR_T = ANCHOR_Q + (("xy", 0.0, 0.5), ("xy", 0.999, 1e-9), 1e-7)
TOL_T = TOL_Q + (1e-3, 0.3)
SEC_T = SEC_Q + ((2.996, 1.0101, -1.0),)


def _axis(L, S, p):
    """region edges on one axis from position/span in pixels: plain binary64 arithmetic; the
    oracle uses the two resulting binary64 numbers exactly"""
    lo = L * p
    return lo, lo + S * p


def _what(fn, **kw):
    return fn + "(" + ", ".join(f"{k}={v!r}" for k, v in kw.items()) + ")"


# ---------------------------------------------------------------------------------------------
# slice 1: from_bbox, resolution-driven
# ---------------------------------------------------------------------------------------------
def gen_bbox_res(tier):
    t = tier == "thorough"
    LEFT, SPAN, RES = (LEFT_T, SPAN_T, RES_T) if t else (LEFT_Q, SPAN_Q, RES_Q)
    ANC, TOL, SEC = (ANCHOR_T, TOL_T, SEC_T) if t else (ANCHOR_Q, TOL_Q, SEC_Q)
    return itertools.product(("x", "y"), LEFT, SPAN, RES, range(len(SEC)), ANC, TIGHT, TOL)


def run_bbox_res(case):
    prim, L, S, res, si, aenc, tight, tol = case
    L2, S2, res2 = SEC_T[si]
    a = _axis(L, S, abs(res))
    b = _axis(L2, S2, abs(res2))
    if prim == "x":
        (x0, x1), (y0, y1), rx, ry = a, b, res, res2
    else:
        (x0, x1), (y0, y1), rx, ry = b, a, res2, res
    aarg, axy, aclass = anchor_arg(aenc)
    if tight:
        axy, aclass = None, "tight"
    bbox = (x0, y0, x1, y1)
    what = _what("from_bbox", bbox=bbox, resolution=(rx, ry), anchor=aenc, tight=tight, tol=tol)
    r = R()
    g = GeoBox.from_bbox(bbox, CRS0, resolution=resxy_(rx, ry), anchor=aarg, tight=tight, tol=tol)
    r.outcome = judge(r, "from_bbox", g, bbox, "res", (rx, ry), axy, tol, aclass, what, crs=CRS0)
    return r


# ---------------------------------------------------------------------------------------------
# slice 2: from_bbox, shape-driven (tuple) ; region in world units
# ---------------------------------------------------------------------------------------------
LEFT_W = (0.0, 0.2, -0.2, 3.0, -7.5, 1000.3, -1e6 + 0.4, 1e7 + 0.3)
SPAN_W = (0.005, 0.1, 0.99, 1.0, 1.004, 2.5, 7.0, 100.5, 12345.678, 2e6)
UNIT_W = (1.0, 30.0, 0.1, 1 / 3, 4.5e-6)
SHAPES_Q = ((1, 1), (3, 5), (7, 2), (4_000_000, 3_000_000))
SHAPES_T = SHAPES_Q + ((1, 4), (256, 256), (1000, 33))
SEC_W = ((-7.5, 2.5), (1000.3, 100.5), (0.2, 0.99))


def gen_bbox_shape(tier):
    t = tier == "thorough"
    SH = SHAPES_T if t else SHAPES_Q
    ANC, TOL = (ANCHOR_T, TOL_T) if t else (ANCHOR_Q, (0.0, 0.01))
    return itertools.product(("x", "y"), LEFT_W, SPAN_W, UNIT_W, range(len(SEC_W)), SH, ANC, TIGHT, TOL)


def run_bbox_shape(case):
    prim, L, S, u, si, shape, aenc, tight, tol = case
    L2, S2 = SEC_W[si]
    a = _axis(L, S, u)
    b = _axis(L2, S2, u)
    (x0, x1), (y0, y1) = (a, b) if prim == "x" else (b, a)
    aarg, axy, aclass = anchor_arg(aenc)
    if tight:
        axy, aclass = None, "tight"
    bbox = (x0, y0, x1, y1)
    what = _what("from_bbox", bbox=bbox, shape=shape, anchor=aenc, tight=tight, tol=tol)
    r = R()
    g = GeoBox.from_bbox(bbox, CRS0, shape=shape, anchor=aarg, tight=tight, tol=tol)
    r.outcome = judge(r, "from_bbox", g, bbox, "shape", shape, axy, tol, aclass, what, crs=CRS0)
    return r


# ---------------------------------------------------------------------------------------------
# slice 3: from_bbox, a bare number as shape
# ---------------------------------------------------------------------------------------------
LEFT_I = (0.0, -0.2, 2.996, 1000.3, -1e6 + 0.4)
SPAN_I = (0.005, 0.99, 1.0, 1.004, 2.5, 7.0, 100.5, 12345.678)
NS_Q = (1, 10, 300)
NS_T = NS_Q + (3, 7, 4096)


def gen_bbox_int(tier):
    t = tier == "thorough"
    ANC, TOL = (ANCHOR_T, TOL_T) if t else (ANCHOR_Q, TOL_Q)
    UN = UNIT_W if t else (0.1,)
    return itertools.product(LEFT_I[:4], SPAN_I, LEFT_I[1:], SPAN_I, UN, NS_T if t else NS_Q, ANC, TIGHT, TOL)


def run_bbox_int(case):
    Lx, Sx, Ly, Sy, u, N, aenc, tight, tol = case
    x0, x1 = _axis(Lx, Sx, u)
    y0, y1 = _axis(Ly, Sy, u)
    aarg, axy, aclass = anchor_arg(aenc)
    if tight:
        axy, aclass = None, "tight"
    bbox = (x0, y0, x1, y1)
    what = _what("from_bbox", bbox=bbox, shape=N, anchor=aenc, tight=tight, tol=tol)
    r = R()
    g = GeoBox.from_bbox(bbox, CRS0, shape=N, anchor=aarg, tight=tight, tol=tol)
    r.outcome = judge(r, "from_bbox", g, bbox, "int", N, axy, tol, aclass, what, crs=CRS0)
    return r


# ---------------------------------------------------------------------------------------------
# slice 4: every spelling of anchor / resolution / bbox
# ---------------------------------------------------------------------------------------------
ANCHOR_SPELL = (
    "default", "edge", 0, 0.0, ("enum", "EDGE"), ("xy", 0.0, 0.0),
    "center", "centre", 0.5, ("enum", "CENTER"), ("xy", 0.5, 0.5),
    0.25, ("xy", 0.25, 0.25), ("xy", 0.0, 0.5), ("xy", 0.5, 0.0), ("xy", 0.7, 0.1),
    "floating", ("enum", "FLOATING"), None,
    ("np", 0.0), ("np", 0.5), ("np", 0.25), ("xyi", 0, 0), -0.0, ("xy", -0.0, 0.0),
)
RES_SPELL = (("s", 10), ("s", 10.0), ("s", -10.0), ("s", 0.1), ("xy", 10, -10), ("xy", 0.1, 0.1),
             ("xy", -1 / 3, 1 / 3), ("xy", 30.0, -10.0))
BBOX_FORM = ("tuple+crs", "bbox-with-crs", "bbox-no-crs+crs", "tuple-no-crs", "bbox-no-crs")
REGION_SPELL = ((0.2, 1000.3, 7.0, 2.5), (-7.5, 2.996, 1.004, 100.5), (3.0, -0.2, 0.005, 1.0099))


def gen_spell(tier):
    return itertools.product(BBOX_FORM, RES_SPELL + (("shape", (3, 5)), ("shape", 10)), ANCHOR_SPELL,
                             (False, True, 0, 1), REGION_SPELL, (0.01, 0) if tier != "thorough" else (0.01, 0.0, 0))


def run_spell(case):
    form, renc, aenc, tight, (Lx, Ly, Sx, Sy), tol = case
    if renc[0] == "shape":
        mode = "shape" if isinstance(renc[1], tuple) else "int"
        req = renc[1]
        p = 30.0
        kw = dict(shape=req)
    else:
        mode = "res"
        rarg, req = res_arg(renc)
        p = abs(req[0])
        kw = dict(resolution=rarg)
    x0, x1 = _axis(Lx, Sx, p)
    y0, y1 = _axis(Ly, Sy, abs(req[1]) if mode == "res" else p)
    bbox = (x0, y0, x1, y1)
    if aenc is None:  # argument left out: documented default snaps pixel edges to the axes
        axy, aclass = (0.0, 0.0), "edge"
    else:
        aarg, axy, aclass = anchor_arg(aenc)
        kw["anchor"] = aarg
    if tight:
        axy, aclass = None, "tight"
    crs = CRS0
    if form == "tuple+crs":
        args = (bbox, CRS0)
    elif form == "bbox-with-crs":
        args = (BoundingBox(*bbox, crs=CRS0),)
    elif form == "bbox-no-crs+crs":
        args = (BoundingBox(*bbox), CRS0)
    elif form == "tuple-no-crs":
        args, crs = (bbox,), "epsg:4326"
    else:
        args, crs = (BoundingBox(*bbox),), "epsg:4326"
    what = _what("from_bbox", form=form, bbox=bbox, req=renc, anchor=aenc, tight=tight, tol=tol)
    r = R()
    g = GeoBox.from_bbox(*args, tight=tight, tol=tol, **kw)
    r.outcome = judge(r, "from_bbox", g, bbox, mode, req, axy, tol, aclass, what, crs=crs)
    return r


# ---------------------------------------------------------------------------------------------
# slice 5: from_geopolygon, polygon in the CRS of the result
# ---------------------------------------------------------------------------------------------
def _poly(kind, x0, y0, x1, y1):
    """-> (list of raw vertices, builder of the odc-geo geometry).  Every kind touches all four
    sides of [x0,x1]x[y0,y1]; the oracle's region is min/max over the raw vertex list."""
    xm, ym = x0 + (x1 - x0) * 0.375, y0 + (y1 - y0) * 0.625
    if kind == "box":
        pts = [(x0, y0), (x0, y1), (x1, y1), (x1, y0), (x0, y0)]
        return pts, lambda crs: geom.polygon(pts, crs)
    if kind == "tri":
        pts = [(x0, y0), (x1, ym), (xm, y1), (x0, y0)]
        return pts, lambda crs: geom.polygon(pts, crs)
    if kind == "diamond":
        pts = [(x0, ym), (xm, y1), (x1, ym), (xm, y0), (x0, ym)]
        return pts, lambda crs: geom.polygon(pts, crs)
    if kind == "multi":
        a = [(x0, y0), (x0, ym), (xm, ym), (xm, y0), (x0, y0)]
        b = [(xm, ym), (xm, y1), (x1, y1), (x1, ym), (xm, ym)]
        return a + b, lambda crs: geom.multipolygon([[a], [b]], crs)
    if kind == "line":
        pts = [(x0, y1), (xm, y0), (x1, ym)]
        return pts, lambda crs: geom.line(pts, crs)
    # geometries that "never occur"
    if kind == "point":  # zero span on both axes
        return [(x0, y0)], lambda crs: geom.point(x0, y0, crs)
    if kind == "multipoint":
        pts = [(x0, y1), (x1, y0), (xm, ym)]
        return pts, lambda crs: geom.multipoint(pts, crs)
    if kind == "ring":  # LinearRing taken from a polygon
        pts = [(x0, y0), (x0, y1), (x1, y1), (x1, y0), (x0, y0)]
        return pts, lambda crs: geom.polygon(pts, crs).exterior
    if kind == "collection":  # GeometryCollection of a point and a line
        ln = [(xm, y1), (x1, ym)]
        return [(x0, y0)] + ln, lambda crs: geom.Geometry(
            {"type": "GeometryCollection",
             "geometries": [{"type": "Point", "coordinates": (x0, y0)},
                            {"type": "LineString", "coordinates": ln}]}, crs)
    if kind == "multi1":  # single-part multi geometry
        pts = [(x0, y0), (x1, ym), (xm, y1), (x0, y0)]
        return pts, lambda crs: geom.multipolygon([[pts]], crs)
    if kind == "repeat":  # repeated consecutive vertices
        pts = [(x0, y0), (x0, y0), (x0, y1), (x1, y1), (x1, y1), (x1, y1), (x1, y0), (x0, y0)]
        return pts, lambda crs: geom.polygon(pts, crs)
    if kind == "multiline":
        a, b = [(x0, y0), (xm, y1)], [(x1, ym), (xm, ym)]
        return a + b, lambda crs: geom.multiline([a, b], crs)
    if kind == "nocrs":  # geometry without a CRS: lon/lat is assumed, as documented for from_bbox
        pts = [(x0, y0), (x0, y1), (x1, y1), (x1, y0), (x0, y0)]
        return pts, lambda crs: geom.polygon(pts, None)
    raise ValueError(kind)


def _vbox(pts):
    xs = [p[0] for p in pts]
    ys = [p[1] for p in pts]
    return (min(xs), min(ys), max(xs), max(ys))


KINDS = ("box", "tri", "diamond", "multi", "line")
KINDS_X = ("point", "multipoint", "ring", "collection", "multi1", "repeat", "multiline", "nocrs")
POLY_REQ = (("xy", 10.0, -10.0), ("xy", 0.1, 0.1), ("xy", -1 / 3, 30.0), ("s", 0.25), ("xy", 30.0, -10.0),
            ("shape", (3, 5)), ("shape", (7, 2)), ("shape", 10))
POLY_L = (0.2, -7.5, 2.996, 1000.3, 1e7 + 0.3)
POLY_S = (0.005, 0.995, 1.0, 1.0101, 7.0, 100.5)
# deprecated align= is given in CRS units (below the pixel size); the case holds pixel fractions
ALIGN_Q = ((0.0, 0.0), (0.5, 0.5), (0.3, 0.0), (0.0, 0.5), (0.25, 0.9))


def gen_poly(tier):
    t = tier == "thorough"
    for kind, req, Lx, Sx, (Ly, Sy), aenc, tight, tol in itertools.product(
            KINDS, POLY_REQ, POLY_L, POLY_S, ((3.004, 2.5), (-1e6 + 0.4, 1.004)) + (((0.0, 12345.678),) if t else ()),
            ANCHOR_T if t else ANCHOR_Q, TIGHT, TOL_Q if t else (0.0, 0.01)):
        yield (kind, req, Lx, Sx, Ly, Sy, ("anchor", aenc), tight, tol)
    # points, rings, collections, ... (a point has no span: resolution requests only)
    for kind, req, Lx, Sx, aenc, tight, tol in itertools.product(
            KINDS_X, POLY_REQ, POLY_L if t else (0.2, 2.996, 1e7 + 0.3), POLY_S if t else (0.005, 1.0101, 100.5),
            ANCHOR_T if t else ANCHOR_Q, TIGHT, (0.0, 0.01)):
        if kind == "point" and req[0] == "shape":
            continue
        yield (kind, req, Lx, Sx, 3.004, 2.5, ("anchor", aenc), tight, tol)
    # deprecated align=
    for kind, req, Lx, Sx, al, tight in itertools.product(
            KINDS, POLY_REQ[:5], POLY_L, POLY_S, ALIGN_Q, TIGHT):
        yield (kind, req, Lx, Sx, 3.004, 2.5, ("align", al), tight, 0.01)


def run_poly(case):
    kind, renc, Lx, Sx, Ly, Sy, (how, aenc), tight, tol = case
    if renc[0] == "shape":
        mode = "shape" if isinstance(renc[1], tuple) else "int"
        req = renc[1]
        px = py = 30.0
        kw = dict(shape=req)
    else:
        mode = "res"
        rarg, req = res_arg(renc)
        px, py = abs(req[0]), abs(req[1])
        kw = dict(resolution=rarg)
    x0, x1 = _axis(Lx, Sx, px)
    y0, y1 = _axis(Ly, Sy, py)
    pts, build = _poly(kind, x0, y0, x1, y1)
    region = _vbox(pts)
    if how == "anchor":
        aarg, axy, aclass = anchor_arg(aenc)
        kw["anchor"] = aarg
    else:
        # align is "anchor but in CRS units": aenc holds pixel fractions, hand over CRS units
        fx, fy = aenc
        kw["align"] = xy_(fx * px, fy * py)
        axy = (Fr(fx * px) / Fr(px), Fr(fy * py) / Fr(py))
        aclass = "align"
    if tight:
        axy, aclass = None, "tight"
    what = _what("from_geopolygon", kind=kind, vertices=pts, req=renc, how=how, anchor=aenc, tight=tight, tol=tol)
    r = R()
    crs = "epsg:4326" if kind == "nocrs" else CRS0
    g = GeoBox.from_geopolygon(build(CRS0), tight=tight, tol=tol, **kw)
    r.outcome = judge(r, "from_geopolygon", g, region, mode, req, axy, tol, aclass, what, crs=crs) + f" {kind}"
    # the same request through the other entry points must give the identical GeoBox
    if how == "anchor":
        same(r, f"from_bbox-vs-from_geopolygon:{kind}:{mode}", g,
             GeoBox.from_bbox(region, crs, tight=tight, tol=tol, **kw), what)
        if mode == "res":
            same(r, f"positional-vs-keyword:{kind}", g,
                 GeoBox.from_geopolygon(build(CRS0), kw["resolution"], None, None, anchor=kw["anchor"], tight=tight,
                                        tol=tol), what)
    elif aenc != (0.0, 0.0):
        same(r, f"align-positional-vs-keyword:{kind}", g,
             GeoBox.from_geopolygon(build(CRS0), kw["resolution"], None, kw["align"], tight=tight, tol=tol), what)
        if not tight:
            same(r, f"align-vs-anchor:{kind}", g,
                 GeoBox.from_geopolygon(build(CRS0), kw["resolution"], tight=tight, tol=tol,
                                        anchor=xy_(kw["align"].x / px, kw["align"].y / py)), what)
    return r


# ---------------------------------------------------------------------------------------------
# slice 6: from_geopolygon into another CRS (and the "utm" spelling of from_bbox)
# ---------------------------------------------------------------------------------------------
# (source crs, destination argument, expected destination, resolutions, regions in the source crs)
XCRS = (
    ("epsg:4326", "epsg:3857", "epsg:3857", (("s", 10.0), ("xy", 1000.0, 1000.0), ("xy", -30.0, -30.0)),
     ((14.1, 40.2, 14.6, 40.7), (-70.25, -33.5, -70.2499, -33.4999), (0.0, 0.0, 0.001, 3.0))),
    ("epsg:4326", "epsg:32633", "epsg:32633", (("s", 10.0), ("xy", 30.0, -30.0), ("xy", 250.0, 250.0)),
     ((14.1, 40.2, 14.6, 40.7), (15.0, 0.0, 15.0003, 0.0002), (12.5, 60.0, 17.5, 60.3))),
    ("epsg:4326", "utm", "epsg:32633", (("s", 10.0), ("xy", -100.0, 100.0)),
     ((14.1, 40.2, 14.6, 40.7), (13.0, 55.0, 13.01, 55.3))),
    ("epsg:4326", "utm", "epsg:32719", (("s", 30.0),),
     ((-70.25, -33.5, -70.2, -33.4),)),
    ("epsg:3857", "epsg:4326", "epsg:4326", (("s", 0.01), ("xy", 1 / 3600, -1 / 3600), ("xy", 0.1, 0.1)),
     ((1569604.0, 4895303.0, 1625264.0, 4968048.0), (-7820000.0, -3960000.0, -7819990.0, -3959000.0))),
    ("epsg:32633", "epsg:3857", "epsg:3857", (("s", 10.0), ("xy", 10.0, 10.0)),
     ((423000.4, 4450000.2, 466000.9, 4506000.1),)),
)
_TR = {}


def _fresh_transform(src, dst, pts):
    k = (src, dst)
    if k not in _TR:
        _TR[k] = pyproj.Transformer.from_crs(pyproj.CRS.from_user_input(src), pyproj.CRS.from_user_input(dst),
                                             always_xy=True)
    return [_TR[k].transform(x, y) for x, y in pts]


def gen_xcrs(tier):
    t = tier == "thorough"
    for i, (_, dst_arg, _, ress, regs) in enumerate(XCRS):
        reqs = tuple(ress) + (("shape", (3, 5)), ("shape", 10))
        if dst_arg == "utm" and not t:
            # guessing the UTM zone costs ~70 ms per call (CRS database query): smaller product
            yield from itertools.product((i,), range(len(regs)), ("box", "tri"), reqs,
                                         ("edge", ("xy", 0.1, 0.7), "floating"), TIGHT, (0.01,))
        else:
            yield from itertools.product((i,), range(len(regs)), KINDS, reqs, ANCHOR_T if t else ANCHOR_Q, TIGHT,
                                         TOL_Q if t else (0.0, 0.01))


def run_xcrs(case):
    i, ri, kind, renc, aenc, tight, tol = case
    src, dst_arg, dst, _, regs = XCRS[i]
    pts, build = _poly(kind, *regs[ri])
    region = _vbox(_fresh_transform(src, dst, pts))
    if renc[0] == "shape":
        mode = "shape" if isinstance(renc[1], tuple) else "int"
        req = renc[1]
        kw = dict(shape=req)
    else:
        mode = "res"
        rarg, req = res_arg(renc)
        kw = dict(resolution=rarg)
    aarg, axy, aclass = anchor_arg(aenc)
    if tight:
        axy, aclass = None, "tight"
    what = _what("from_geopolygon", src=src, crs=dst_arg, kind=kind, vertices=pts, req=renc, anchor=aenc,
                 tight=tight, tol=tol)
    r = R()
    g = GeoBox.from_geopolygon(build(src), crs=dst_arg, anchor=aarg, tight=tight, tol=tol, **kw)
    r.outcome = judge(r, "from_geopolygon-crs", g, region, mode, req, axy, tol, aclass, what, crs=dst) + f" {kind}"
    if kind == "box" and dst_arg == "utm" and src == "epsg:4326":
        # same region through from_bbox(tuple, "utm"): lon/lat box reprojected to the UTM zone
        g2 = GeoBox.from_bbox(regs[ri], "utm", anchor=aarg, tight=tight, tol=tol, **kw)
        what2 = _what("from_bbox", bbox=regs[ri], crs="utm", req=renc, anchor=aenc, tight=tight, tol=tol)
        judge(r, "from_bbox-utm", g2, region, mode, req, axy, tol, aclass, what2, crs=dst)
    return r


# ---------------------------------------------------------------------------------------------
# slice 7: zoom_to(resolution=) of a GeoBox of any orientation (incl. rotated / sheared)
# ---------------------------------------------------------------------------------------------
Z_ORG_T = (0.0, 0.2, -7.5, 1000.3, -1e6 + 0.4, 1e7 + 0.3)
Z_ORG = (0.2, -7.5, 1000.3, 1e7 + 0.3)
Z_PIX = (1.0, 30.0, 0.1, 1 / 3)
Z_SGN = ((1, -1), (1, 1), (-1, -1), (-1, 1), "rot30", "shear")
Z_SHAPE = ((1, 1), (3, 5), (7, 2), (100, 33), (4_000_000, 3_000_000))
# incl. ratios within 1e-6 of a round number (long rasters: the difference adds up to pixels) and 1/1024
Z_RATIO = (0.1, 1 / 3, 0.5, 0.99, 0.995, 1.0, 1.004, 1.0099, 1.0101, 2.0, 2.5, 3.0, 7.0, 100.5,
           1.000000425, 0.999999575, 0.25000002, 29.9999996, 1 / 1024)
Z_FORM = ("scalar", "scalar-neg", "++", "--", "-+", "aniso")


def gen_zoom(tier):
    t = tier == "thorough"
    return itertools.product(Z_ORG_T if t else Z_ORG, Z_PIX, Z_SGN, Z_SHAPE + (((1000, 1), (4096, 4096)) if t else ()),
                             Z_RATIO + ((1e-3, 0.9, 1.5, 33.333, 1e4) if t else ()), Z_FORM, (CRS0, None))


def run_zoom(case):
    org, pix, orient, shape, ratio, form, crs = case
    ny, nx = shape
    cx, cy = org * pix, -org * pix + 0.5 * pix
    if orient == "rot30":
        A = Affine.translation(cx, cy) * Affine.rotation(30.0) * Affine.scale(pix, -pix)
    elif orient == "shear":
        A = Affine.translation(cx, cy) * Affine.shear(15.0, 0.0) * Affine.scale(pix, -pix)
    else:
        sx, sy = orient
        A = Affine(sx * pix, 0.0, cx, 0.0, sy * pix, cy)
    base = GeoBox(shape, A, crs)
    q = pix * ratio
    renc = {"scalar": ("s", q), "scalar-neg": ("s", -q), "++": ("xy", q, q), "--": ("xy", -q, -q),
            "-+": ("xy", -q, q), "aniso": ("xy", q, -q / 3)}[form]
    rarg, req = res_arg(renc)
    # the region is the bounding box of the footprint of the base GeoBox: its four corners mapped
    # through the six binary64 coefficients of its affine, exactly
    a_, b_, c_, d_, e_, f_ = (Fr(v) for v in tuple(A)[:6])
    cxs = [a_ * i + b_ * j + c_ for i in (0, nx) for j in (0, ny)]
    cys = [d_ * i + e_ * j + f_ for i in (0, nx) for j in (0, ny)]
    region = (min(cxs), min(cys), max(cxs), max(cys))
    what = _what("zoom_to", base_shape=shape, base_affine=tuple(A)[:6], resolution=renc, crs=crs)
    r = R()
    g = base.zoom_to(resolution=rarg)
    # the implementation forms the corners in binary64: a*i + b*j + c, terms that may cancel
    m0 = max(abs(a_) * nx + abs(b_) * ny + abs(c_), abs(d_) * nx + abs(e_) * ny + abs(f_))
    # documented defaults of from_bbox apply: tol = 1/100 of a (new) pixel; no snapping
    r.outcome = judge(r, "zoom_to", g, region, "res", req, None, 0.01, "tight", what, m0=m0)
    if isinstance(orient, str):
        r.outcome += " " + orient
    if g.crs != base.crs:
        r.fail("zoom_to:crs", f"{what}: crs {g.crs} expected {base.crs}")
    # every entry point: method, module level alias, compute_zoom_to, from_bbox of the bounding box
    same(r, "zoom_to-function-vs-method", g, gbx.zoom_to(base, resolution=rarg), what)
    shp2, A2 = base.compute_zoom_to(resolution=rarg)
    same(r, "compute_zoom_to-vs-zoom_to", g, GeoBox(shp2, A2, crs), what)
    g3 = GeoBox.from_bbox(base.boundingbox, resolution=rarg, tight=True)
    if g3.shape != g.shape or tuple(g3.affine)[:6] != tuple(g.affine)[:6]:
        r.fail("differs:from_bbox-of-boundingbox-vs-zoom_to",
               f"{what} -> {g.shape.yx} {tuple(g.affine)[:6]} but from_bbox(base.boundingbox, resolution=, "
               f"tight=True) -> {g3.shape.yx} {tuple(g3.affine)[:6]}")
    views_agree(r, "zoom_to", g, what)
    return r



# ---------------------------------------------------------------------------------------------
# slice 8: both edges of every tolerance window, on both sides of the region at once
# ---------------------------------------------------------------------------------------------
TW_TOL = (1e-6, 1e-3, 0.01, 0.1)
# edge = grid line + f * tol pixels; f < 0: outside the line on the low side / inside on the high side
TW_F = (-1.1, -1.001, -0.999, -0.9, 0.9, 0.999, 1.001, 1.1)
TW_K = (3, -7, 1000)
TW_M = (1, 5, 1000)
TW_RES = tuple(s * v for v in (0.1, 30.0, 1 / 3) for s in (1, -1))
TW_ANCHOR = ("edge", "center", 0.25, "floating")


def gen_tolwin(tier):
    t = tier == "thorough"
    return itertools.product(("x", "y"), TW_TOL, TW_F, TW_F, TW_K + ((10**6,) if t else ()), TW_M,
                             TW_RES + ((4.5e-6, -4.5e-6, 1000.0, -1000.0) if t else ()), TW_ANCHOR)


def run_tolwin(case):
    prim, tol, f0, f1, k, m, res, aenc = case
    aarg, axy, aclass = anchor_arg(aenc)
    p = abs(res)
    a = 0.3 if axy is None else axy[0]
    lo = (k + a + f0 * tol) * p
    hi = (k + m + a + f1 * tol) * p
    other = _axis(-7.5, 2.5, 30.0)
    if prim == "x":
        bbox, rx, ry = (lo, other[0], hi, other[1]), res, -30.0
    else:
        bbox, rx, ry = (other[0], lo, other[1], hi), 30.0, res
    what = _what("from_bbox", bbox=bbox, resolution=(rx, ry), anchor=aenc, tol=tol)
    r = R()
    g = GeoBox.from_bbox(bbox, CRS0, resolution=resxy_(rx, ry), anchor=aarg, tol=tol)
    r.outcome = judge(r, "from_bbox", g, bbox, "res", (rx, ry), axy, tol, aclass, what, crs=CRS0)
    r.outcome += f" f0{'<' if abs(f0) < 1 else '>'}1 f1{'<' if abs(f1) < 1 else '>'}1"
    return r


# ---------------------------------------------------------------------------------------------
# slice 9: the same numbers in another encoding
# ---------------------------------------------------------------------------------------------
# every coordinate is exactly representable in binary32, so all encodings denote the same region
ENC_REGION = ((-7.0, 3.0, 12.0, 1001.0), (-7.5, 3.25, 12.375, 1000.375), (100000.125, -0.0, 100007.625, 9.5),
              (2500000.25, 3.25, 2500007.75, 12.5), (-0.0, -0.0, 0.0, 0.0))
ENC_REQ = (("s", 5), ("s", 0.5), ("xy", 0.1, -0.1), ("xy", -2, 2), ("shape", (3, 5)), ("shape", 10))
ENC_ANCHOR = ("edge", "center", 0.25, "floating")
ENC_BBOX = ("float", "int", "np64", "np32", "list", "arr64", "arr32", "arr-strided", "bbox", "bbox-np32", "bbox-int")


def _enc_bbox(enc, reg):
    f = tuple(float(v) for v in reg)
    if enc == "float":
        return f
    if enc in ("int", "bbox-int"):
        if any(v != int(v) for v in f):
            return None
        t = tuple(int(v) for v in f)
        return t if enc == "int" else BoundingBox(*t, crs=CRS0)
    if enc == "np64":
        return tuple(np.float64(v) for v in f)
    if enc == "np32":
        return tuple(np.float32(v) for v in f)
    if enc == "list":
        return list(f)
    if enc == "arr64":
        return np.asarray(f, dtype="float64")
    if enc == "arr32":
        return np.asarray(f, dtype="float32")
    if enc == "arr-strided":  # every other element of a Fortran-ordered 2-d array's column
        a = np.asfortranarray(np.asarray([f, f], dtype="float64").T.repeat(2, axis=0))
        return a[::2, 1]
    if enc == "bbox":
        return BoundingBox(*f, crs=CRS0)
    if enc == "bbox-np32":
        return BoundingBox(*(np.float32(v) for v in f), crs=CRS0)
    raise ValueError(enc)


def _enc_req(renc):
    """-> list of (label, kwargs) all denoting the same request"""
    if renc[0] == "shape" and isinstance(renc[1], tuple):
        ny, nx = renc[1]
        return [("tuple", dict(shape=(ny, nx))), ("list", dict(shape=[ny, nx])), ("Shape2d", dict(shape=wh_(nx, ny))),
                ("np-ints", dict(shape=(np.int64(ny), np.int64(nx))))]
    if renc[0] == "shape":
        return [("int", dict(shape=int(renc[1]))), ("float", dict(shape=float(renc[1])))]
    _, (rx, ry) = res_arg(renc)
    out = [("Resolution", dict(resolution=resxy_(rx, ry))),
           ("Resolution-np64", dict(resolution=resxy_(np.float64(rx), np.float64(ry)))),
           ("Resolution-np32", dict(resolution=resxy_(np.float32(rx), np.float32(ry))))
           if float(np.float32(rx)) == rx else None]
    if ry == -rx:
        out += [("float", dict(resolution=rx)), ("np64", dict(resolution=np.float64(rx)))]
        if rx == int(rx):
            out += [("int", dict(resolution=int(rx)))]
    return [o for o in out if o is not None]


def gen_enc(tier):
    return itertools.product(range(len(ENC_REGION)), ENC_REQ, ENC_ANCHOR, TIGHT, (0.01, 0.0, 0))


def run_enc(case):
    ri, renc, aenc, tight, tol = case
    reg = ENC_REGION[ri]
    r = R()
    if renc[0] == "shape" and (reg[0] == reg[2] or reg[1] == reg[3]):
        r.outcome, r.nontrivial = "enc:zero-span-shape-request:skipped", False
        return r
    aarg, axy, aclass = anchor_arg(aenc)
    if tight:
        axy, aclass = None, "tight"
    mode = "res" if renc[0] != "shape" else ("shape" if isinstance(renc[1], tuple) else "int")
    req = res_arg(renc)[1] if mode == "res" else renc[1]
    ref = None
    n = 0
    for benc in ENC_BBOX:
        for rl, kw in _enc_req(renc):
            b = _enc_bbox(benc, reg)
            if b is None:
                continue
            keep = list(b) if isinstance(b, list) else None
            what = _what("from_bbox", bbox_encoding=benc, bbox=reg, request_encoding=rl, req=renc, anchor=aenc,
                         tight=tight, tol=tol)
            args = (b,) if isinstance(b, BoundingBox) else (b, CRS0)
            g = GeoBox.from_bbox(*args, anchor=aarg, tight=tight, tol=tol, **kw)
            n += 1
            judge(r, f"from_bbox@{benc}", g, reg, mode, req, axy, float(tol), aclass, what, crs=CRS0)
            if ref is None:
                ref = g
            else:
                same(r, f"encoding:{benc}:request-as-{rl}:{mode}", ref, g, what)
            if keep is not None and list(b) != keep:
                r.fail("input-modified:list-bbox", f"{what}: the caller's list was changed to {b}")
    # a Geometry built from the same numbers (python floats / binary32 scalars)
    if reg[0] != reg[2] and reg[1] != reg[3]:
        x0, y0, x1, y1 = (float(v) for v in reg)
        ring = [(x0, y0), (x0, y1), (x1, y1), (x1, y0), (x0, y0)]
        # (odc.geo.geom constructors refuse binary32 scalars with a ValueError; shapely takes a binary32 array)
        for gl, mk in (("geom-float", lambda: geom.polygon(ring, CRS0)),
                       ("geom-np64", lambda: geom.polygon([(np.float64(x), np.float64(y)) for x, y in ring], CRS0)),
                       ("geom-shapely-arr32", lambda: geom.Geometry(
                           shapely.geometry.Polygon(np.asarray(ring, dtype="float32")), CRS0))):
            for rl, kw in _enc_req(renc)[:1]:
                what = _what("from_geopolygon", geometry=gl, bbox=reg, req=renc, anchor=aenc, tight=tight, tol=tol)
                g = GeoBox.from_geopolygon(mk(), anchor=aarg, tight=tight, tol=tol, **kw)
                n += 1
                same(r, f"encoding:{gl}:{mode}", ref, g, what)
    r.outcome = f"enc:{mode}:{aclass}:{n}-encodings"
    r.counts = {"encoded_calls": n}
    return r


# ---------------------------------------------------------------------------------------------
# slice 10: the same CRS in another encoding; CRSs without an EPSG code; stale EPSG tag
# ---------------------------------------------------------------------------------------------
_PP = {}


def _pp(code):
    if code not in _PP:
        _PP[code] = pyproj.CRS.from_epsg(code)
    return _PP[code]


SINU = "+proj=sinu +lon_0=0 +x_0=0 +y_0=0 +R=6371007.181 +units=m +no_defs"
CRS_FAMILY = {
    # name -> list of (label, builder of the argument, definition for a fresh pyproj CRS)
    "utm33": [("int", lambda: 32633, 32633), ("EPSG:", lambda: "EPSG:32633", 32633),
              ("epsg:", lambda: "epsg:32633", 32633), ("wkt", lambda: _pp(32633).to_wkt(), 32633),
              ("wkt1", lambda: _pp(32633).to_wkt("WKT1_GDAL"), 32633),
              ("json", lambda: _pp(32633).to_json_dict(), 32633), ("pyproj", lambda: _pp(32633), 32633),
              ("pyproj-new", lambda: pyproj.CRS.from_epsg(32633), 32633), ("CRS", lambda: CRS(32633), 32633),
              ("proj4", lambda: "+proj=utm +zone=33 +datum=WGS84 +units=m +no_defs",
               "+proj=utm +zone=33 +datum=WGS84 +units=m +no_defs")],
    "stale": [("wkt-stale-id", lambda: _stale_wkt(), None), ("CRS-stale-id", lambda: CRS(_stale_wkt()), None)],
    "sinu": [("proj4", lambda: SINU, SINU), ("wkt", lambda: pyproj.CRS.from_user_input(SINU).to_wkt(), SINU),
             ("pyproj", lambda: pyproj.CRS.from_user_input(SINU), SINU), ("CRS", lambda: CRS(SINU), SINU)],
    "moll": [("ESRI:", lambda: "ESRI:54009", "ESRI:54009"), ("CRS", lambda: CRS("ESRI:54009"), "ESRI:54009")],
    "lonlat": [("int", lambda: 4326, 4326), ("epsg:", lambda: "epsg:4326", 4326), ("wkt", lambda: _pp(4326).to_wkt(), 4326),
               ("pyproj", lambda: _pp(4326), 4326), ("CRS", lambda: CRS("EPSG:4326"), 4326)],
}


def _stale_wkt():
    """WKT of EPSG:32633 with the central meridian edited to 16.5 and the trailing ID["EPSG",32633] left in place."""
    w = _pp(32633).to_wkt()
    w2 = w.replace('"Longitude of natural origin",15', '"Longitude of natural origin",16.5')
    assert w2 != w and 'ID["EPSG",32633]' in w2
    return w2


def _fresh_crs(fam, defn):
    if fam == "stale":
        return pyproj.CRS.from_wkt(_stale_wkt())
    return pyproj.CRS.from_user_input(defn)


CE_SRC = ("lonlat", "sinu", "utm33")
CE_DST = ("utm33", "stale", "sinu", "moll")
CE_REGION = {"lonlat": (14.1, 40.2, 14.6, 40.7), "sinu": (1189000.3, 4470000.2, 1232000.9, 4526000.1),
             "utm33": (423000.4, 4450000.2, 466000.9, 4506000.1)}
CE_REQ = (("s", 30.0), ("xy", -100.0, 100.0), ("shape", (3, 5)))


def gen_crsenc(tier):
    # (a) region already in that CRS, through every entry point; (b) reprojection between families
    for fam, members in CRS_FAMILY.items():
        for i in range(len(members)):
            yield from itertools.product(("own",), (fam,), (i,), ("",), (0,), CE_REQ, ("edge", ("xy", 0.1, 0.7), "floating"))
    for sf in CE_SRC:
        for df in CE_DST:
            if sf == df:
                continue
            yield from itertools.product(("to",), (sf,), range(len(CRS_FAMILY[sf])), (df,), range(len(CRS_FAMILY[df])),
                                         CE_REQ[:2] if tier != "thorough" else CE_REQ, ("edge", "floating"))


def run_crsenc(case):
    how, sf, si, df, di, renc, aenc = case
    slabel, sbuild, sdef = CRS_FAMILY[sf][si]
    aarg, axy, aclass = anchor_arg(aenc)
    mode = "res" if renc[0] != "shape" else "shape"
    if mode == "res":
        rarg, req = res_arg(renc)
        kw = dict(resolution=rarg)
    else:
        req = renc[1]
        kw = dict(shape=req)
    r = R()
    if how == "own":
        reg = (423000.4, 4450000.2, 466000.9, 4506000.1)
        pts, build = _poly("tri", *reg)
        want_crs = CRS(sbuild())
        what = _what("from_bbox/from_geopolygon", crs_family=sf, crs_encoding=slabel, bbox=reg, req=renc, anchor=aenc)
        g = GeoBox.from_bbox(reg, sbuild(), anchor=aarg, **kw)
        r.outcome = judge(r, f"from_bbox@crs-{sf}-{slabel}", g, reg, mode, req, axy, 0.01, aclass, what, crs=want_crs)
        same(r, f"bbox-with-crs:{sf}:{slabel}", g, GeoBox.from_bbox(BoundingBox(*reg, crs=sbuild()), anchor=aarg, **kw), what)
        same(r, f"geometry-with-crs:{sf}:{slabel}", g, GeoBox.from_geopolygon(build(sbuild()), anchor=aarg, **kw), what)
        # every member of the family: the identical grid
        l0, b0, _ = CRS_FAMILY[sf][0]
        g0 = GeoBox.from_bbox(reg, b0(), anchor=aarg, **kw)
        if g0.shape != g.shape or tuple(g0.affine)[:6] != tuple(g.affine)[:6]:
            r.fail(f"differs:crs-encoding:{sf}:{slabel}",
                   f"{what} -> {g.shape.yx} {tuple(g.affine)[:6]} but with the CRS given as {l0}: "
                   f"{g0.shape.yx} {tuple(g0.affine)[:6]}")
        return r
    dlabel, dbuild, ddef = CRS_FAMILY[df][di]
    pts, build = _poly("tri", *CE_REGION[sf])
    tr = pyproj.Transformer.from_crs(_fresh_crs(sf, sdef), _fresh_crs(df, ddef), always_xy=True)
    region = _vbox([tr.transform(x, y) for x, y in pts])
    what = _what("from_geopolygon", src=f"{sf}:{slabel}", crs=f"{df}:{dlabel}", vertices=pts, req=renc, anchor=aenc)
    g = GeoBox.from_geopolygon(build(sbuild()), crs=dbuild(), anchor=aarg, **kw)
    r.outcome = judge(r, f"from_geopolygon@{sf}-{slabel}-to-{df}-{dlabel}", g, region, mode, req, axy, 0.01, aclass, what,
                      crs=CRS(dbuild()))
    r.outcome = f"{sf}->{df} " + r.outcome.split(" ", 1)[1]
    return r


# ---------------------------------------------------------------------------------------------
# slice 11: history - lazily filled state, several operations on one instance, process-wide caches
# ---------------------------------------------------------------------------------------------
H_REGION = ((0.2 * 30, 1000.3 * 30, 7.2 * 30, 1002.8 * 30), (423000.4, 4450000.2, 466000.9, 4506000.1))
H_OBJ = ("BoundingBox", "Geometry", "GeoBox")
H_PRE = ("none", "lazy", "ops", "lazy+ops", "crs-pressure", "helpers")
H_REQ = (dict(resolution=30.0), dict(resolution=30.0, tight=True), dict(resolution=("xy", -10.0, 10.0), anchor="center"),
         dict(shape=(3, 5)), dict(shape=10, tight=True), dict(resolution=100.0, anchor=("xy", 0.1, 0.7), tol=0.0),
         dict(resolution=250.0, crs="epsg:3857"), dict(resolution=0.01, crs="epsg:4326", tight=True))
_H_OTHER = (dict(resolution=7.0), dict(shape=(2, 2), tight=True), dict(resolution=1000.0, crs="epsg:3857"),
            dict(resolution=30.0, anchor="floating"))


def _h_obj(kind, reg):
    crs = "epsg:32633"
    if kind == "BoundingBox":
        return BoundingBox(*reg, crs=crs)
    if kind == "Geometry":
        return geom.box(*reg, crs)
    x0, y0, x1, y1 = reg  # a GeoBox whose footprint is the region (8 x 4 pixels, exactly)
    return GeoBox((4, 8), Affine((x1 - x0) / 8, 0.0, x0, 0.0, -(y1 - y0) / 4, y1), crs)


def _h_call(kind, obj, rq):
    """One request on a region object -> GeoBox.  BoundingBox: from_bbox; Geometry: from_geopolygon;
    GeoBox: zoom_to(resolution=) when that is all that is asked, else from_geopolygon(extent)."""
    kw = dict(rq)
    if isinstance(kw.get("resolution"), tuple):
        kw["resolution"] = res_arg(kw["resolution"])[0]
    if "anchor" in kw:
        kw["anchor"] = anchor_arg(kw["anchor"])[0]
    if kind == "BoundingBox":
        if "crs" in kw:
            obj = obj.to_crs(kw.pop("crs"))
        return GeoBox.from_bbox(obj, **kw)
    if kind == "Geometry":
        return GeoBox.from_geopolygon(obj, **kw)
    if set(kw) == {"resolution", "tight"}:
        return obj.zoom_to(resolution=kw["resolution"])
    return GeoBox.from_geopolygon(obj.extent, **kw)


def _h_lazy(kind, obj):
    if kind == "GeoBox":
        _ = (obj.extent, obj.boundingbox, obj.geographic_extent, obj.footprint("epsg:3857"), obj.crs.epsg,
             obj.resolution, obj.coordinates, hash(obj), repr(obj))
    elif kind == "Geometry":
        _ = (obj.boundingbox, obj.crs.epsg, obj.json, obj.to_crs("epsg:3857"), obj.exterior, hash(obj.crs), repr(obj))
    else:
        _ = (obj.polygon, obj.crs.epsg, obj.aoi, hash(obj), repr(obj), obj.span_x)


def gen_hist(tier):
    return itertools.product(range(len(H_REGION)), H_OBJ, H_PRE, range(len(H_REQ)))


def run_hist(case):
    ri, kind, pre, qi = case
    reg, rq = H_REGION[ri], H_REQ[qi]
    r = R()
    what = _what("history", region=reg, object=kind, prelude=pre, request=rq)
    fresh = _h_call(kind, _h_obj(kind, reg), rq)  # the answer of a fresh object, before any history
    obj = _h_obj(kind, reg)
    if "lazy" in pre:
        _h_lazy(kind, obj)
    if "ops" in pre:
        for o in _H_OTHER:
            _h_call(kind, obj, o)
        _h_call(kind, obj, rq)
    if pre == "crs-pressure":
        _ = [CRS(f"EPSG:{32601 + i}") for i in range(60)] + [CRS(f"EPSG:{32701 + i}") for i in range(60)] + \
            [CRS(c) for c in (3857, 3577, 4326, 3035, 5070, 2154, 27700, 28355, 3031, 3413)]
    if pre == "helpers":
        from odc.geo.math import maybe_int, snap_grid  # pylint: disable=import-outside-toplevel
        _ = (snap_grid(0.0, 0.0, -1e-300, None, tol=0), snap_grid(-1e300, 1e300, 1e300, 0.999, tol=0.5),
             maybe_int(float("nan"), 0.1), maybe_int(float("inf"), 0.1), maybe_int(-0.0, 0))
    g = _h_call(kind, obj, rq)
    same(r, f"history:{kind}:{pre}", fresh, g, what)
    views_agree(r, f"history:{kind}:{pre}", g, what)
    # derived result shares no state with its parent: read the parent's lazy views, then the result's
    if kind == "GeoBox":
        _ = obj.extent
        g2 = obj.zoom_to(resolution=77.0)
        views_agree(r, f"history:zoom_to-after-parent-extent:{pre}", g2, what)
    # state independent clauses (a long-lived worker may already be poisoned)
    if "crs" not in rq:
        mode = "res" if "resolution" in rq else ("shape" if isinstance(rq["shape"], tuple) else "int")
        req = (res_arg(rq["resolution"])[1] if isinstance(rq["resolution"], tuple) else (rq["resolution"], -rq["resolution"])) \
            if mode == "res" else rq["shape"]
        _, axy, aclass = anchor_arg(rq.get("anchor", "edge"))
        if rq.get("tight") or (kind == "GeoBox" and set(rq) == {"resolution", "tight"}):
            axy, aclass = None, "tight"
        r.outcome = "hist " + judge(r, f"history@{kind}", g, reg, mode, req, axy, rq.get("tol", 0.01), aclass, what,
                                    crs="epsg:32633", m0=2 * max(abs(v) for v in reg))
    else:
        r.outcome = f"hist {kind} reprojected"
    r.outcome += f" {pre}"
    return r


# ---------------------------------------------------------------------------------------------
# slice 12: accessor path - rasterize(poly, resolution) builds its grid with from_geopolygon
# ---------------------------------------------------------------------------------------------
RZ_RES = (("s", 10.0), ("s", 10), ("s", 0.25), ("xy", 10.0, -10.0), ("xy", 3.0, 7.0), ("xy", -0.5, 0.5))


def gen_rast(tier):
    return itertools.product(("box", "tri", "multi", "line"), RZ_RES, (0.2, 2.996, -7.5, 1000.3), (0.995, 1.0101, 7.0, 33.3),
                             (False, True))


def run_rast(case):
    from odc.geo.xr import rasterize  # pylint: disable=import-outside-toplevel

    kind, renc, L, S, all_touched = case
    rarg, req = res_arg(renc)
    x0, x1 = _axis(L, S, abs(req[0]))
    y0, y1 = _axis(3.004, 2.5, abs(req[1]))
    pts, build = _poly(kind, x0, y0, x1, y1)
    region = _vbox(pts)
    what = _what("rasterize(...).odc.geobox", kind=kind, vertices=pts, how=renc, all_touched=all_touched)
    r = R()
    xx = rasterize(build(CRS0), rarg, all_touched=all_touched)
    g = xx.odc.geobox
    # documented defaults: pixel edges snapped to the axes, tol = 1/100
    r.outcome = "rasterize " + judge(r, "rasterize", g, region, "res", req, (0.0, 0.0), 0.01, "edge", what, crs=CRS0)
    same(r, "rasterize-vs-from_geopolygon", GeoBox.from_geopolygon(build(CRS0), resolution=rarg), g, what)
    if xx.shape != tuple(g.shape):
        r.fail("rasterize:array-shape", f"{what}: array {xx.shape}, geobox {g.shape}")
    return r


# ---------------------------------------------------------------------------------------------
def slices(tier):
    def S(name, gen, run, note):
        return e1.Slice(name, (lambda g=gen: g(tier)), run, note)

    return [
        S("bbox-res", gen_bbox_res, run_bbox_res,
          "from_bbox(resolution=): one axis over position x span x signed pixel size, the other from a short "
          "list, both orders; x anchor x tight x tol"),
        S("bbox-shape", gen_bbox_shape, run_bbox_shape,
          "from_bbox(shape=(ny,nx)): region position x span x unit, x shape x anchor x tight x tol"),
        S("bbox-int", gen_bbox_int, run_bbox_int,
          "from_bbox(shape=N): x-region x y-region (all aspect classes) x N x anchor x tight x tol"),
        S("spellings", gen_spell, run_spell,
          "every spelling of anchor (str/number/enum/XY/omitted), resolution (number/Resolution) and bbox "
          "(tuple/BoundingBox, with/without crs)"),
        S("polygon", gen_poly, run_poly,
          "from_geopolygon in the polygon's own CRS: 5 geometry kinds x request x region x anchor|align x tight x tol"),
        S("polygon-crs", gen_xcrs, run_xcrs,
          "from_geopolygon(crs=other) incl. 'utm' (and from_bbox(..., 'utm')): region = fresh pyproj transform "
          "of the vertices"),
        S("tol-window", gen_tolwin, run_tolwin,
          "from_bbox(resolution=): low AND high edge at grid line + f*tol, f in +-{0.9, 0.999, 1.001, 1.1}, x tol x "
          "grid index x span x signed pixel size x anchor, either axis"),
        S("encodings", gen_enc, run_enc,
          "same region/request as float, int, numpy scalar (64/32 bit), list, array, BoundingBox; Resolution / number / "
          "numpy; shape tuple / list / Shape2d / numpy ints; N int / float; tol 0 / 0.0: judged + identical results"),
        S("crs-encodings", gen_crsenc, run_crsenc,
          "CRS as int / 'EPSG:n' / 'epsg:n' / WKT2 / WKT1 / PROJJSON / pyproj / CRS / proj4, CRSs without EPSG code "
          "(sinusoidal, ESRI:54009), WKT with a stale EPSG id: own-CRS entry points and reprojection between families"),
        S("history", gen_hist, run_hist,
          "one BoundingBox / Geometry / GeoBox instance: lazy views read first, other requests first, 130 other CRSs "
          "first, helpers with unusual arguments first - answer identical to a fresh object; result views not stale"),
        S("rasterize", gen_rast, run_rast,
          "rasterize(geometry, resolution).odc.geobox: judged and identical to from_geopolygon(resolution=)"),
        S("zoom-res", gen_zoom, run_zoom,
          "GeoBox.zoom_to(resolution=) of boxes of every orientation (4 axis aligned, rotated, sheared): region = "
          "exact bounding box of the footprint"),
    ]


def main(ctx):
    t = ctx.tier == "thorough"
    ctx.rule = (
        "complete Cartesian products (unions of products for the polygon / crs slices); every case constructs "
        "GeoBoxes with the real code, judges both axes in exact rationals and compares equivalent routes "
        "(encodings, entry points, histories) for identical results; distinct by (slice, case) hash"
    )
    ctx.bounds = {
        "low_edge_px": list(LEFT_T if t else LEFT_Q), "span_px": list(SPAN_T if t else SPAN_Q),
        "pixel_size": list(RES_T if t else RES_Q), "anchor": [repr(a) for a in (ANCHOR_T if t else ANCHOR_Q)],
        "tol": list(TOL_T if t else TOL_Q), "tight": [False, True],
        "shapes": [list(s) for s in (SHAPES_T if t else SHAPES_Q)], "int_shapes": list(NS_T if t else NS_Q),
        "max_abs_coordinate_px": 1e8, "max_span_px": 4e6 if t else 2000000.85,
        "tol_window_f": list(TW_F), "tol_window_tol": list(TW_TOL),
        "bbox_encodings": list(ENC_BBOX), "geometry_kinds": list(KINDS + KINDS_X),
        "crs_families": {k: [m[0] for m in v] for k, v in CRS_FAMILY.items()},
        "history_preludes": list(H_PRE), "zoom_ratios": list(Z_RATIO),
    }
    ctx.assumptions = [
        "region edges are the binary64 numbers handed to the library (right = left + span*pixel evaluated in "
        "binary64); the oracle converts inputs and the affine read back to exact rationals",
        "comparisons carry 8 ulp of the largest coordinate involved + 1e-9 pixel for the implementation's own "
        "binary64 rounding (x/res, k*res, +offset: a handful of correctly rounded operations); tol itself is applied "
        "exactly: uncovered <= tol*pixel per side. The DESIGN s.3 R tolerance 1e-9*|coordinate| is deliberately not "
        "used (it is ~100 pixels of a 4.5e-6 grid at 5e5)",
        "minimality (< (1+tol) pixel excess per side) is demanded when the axis has more than one pixel: a GeoBox "
        "has at least one pixel, and for one pixel the clause follows from covering except for a zero-span region "
        "on a grid line",
        "snapping off (tight=True / anchor floating): the result starts exactly on the region's edge on the origin "
        "side (docstring 'tight=True turns off pixel snapping', snap_grid 'None - don't snap'; asserted by the "
        "repo's own test_from_bbox); this is the observable meaning of 'not snapped'",
        "anchor fractions are taken in [0,1) as snap_grid documents; the alignment clause is edges == (k+anchor)*pixel "
        "for either sign of the resolution",
        "shape-driven construction: zero-span regions are outside the domain (pixel size would be 0); with snapping "
        "the clause is |displacement| < 1 pixel per side plus alignment; the covering clause is not demanded there "
        "(the property does not state it)",
        "a bare number as shape: longest side / N gives the (square, Y-inverted) pixel size, then every "
        "resolution-driven clause applies; the pixel count along the longest side is recorded, not demanded",
        "from_geopolygon(crs=other): to_crs adds no vertices by default, so the region is the bounding box of the "
        "vertices transformed by a fresh pyproj.Transformer; curvature of edges is the subject of C07/C11",
        "zoom_to(resolution=): the region is the bounding box of the four corners of the source GeoBox (exact, from "
        "its affine); tol is the documented default 0.01 of a new pixel; the result is not snapped (tight)",
        "differential clauses demand bit-identical shape/affine and equal crs: same numbers in another encoding "
        "(int, numpy 64/32-bit scalars and arrays, list, strided array, BoundingBox, Geometry), same CRS in another "
        "encoding, from_bbox vs from_geopolygon vs positional arguments vs align=, zoom_to method vs function vs "
        "compute_zoom_to vs from_bbox(boundingbox, tight=True), rasterize(...).odc.geobox vs from_geopolygon, and the "
        "same request on a fresh object vs after a history on the same instance",
        "outside the documented domain, clean refusals, recorded not demanded: anchor 1.0 / 1 / True (AssertionError: "
        "snap_grid wants [0,1)), anchor numpy.float32 (KeyError), resolution / bare-number shape as numpy.int64 / "
        "numpy.float32 (ValueError from res_ / shape_), empty geometry (AssertionError), CRS-less geometry with crs= "
        "(ValueError), odc.geo.geom constructors given numpy.float32 scalars (ValueError)",
        "compute_output_geobox / GeoBox.to_crs / .odc.output_geobox forward the same options to from_bbox: their "
        "option handling and entry-point agreement are enumerated by C11, not repeated here; GCPGeoBox.zoom_to("
        "resolution=) works in the pixel plane of the control points (C09) and is not judged here",
    ]
    sl = slices(ctx.tier)
    if ctx.only:
        sl = [s for s in sl if any(s.name.startswith(o) for o in ctx.only)]
    e1.run_slices(ctx, sl)


def replay(slice_name, case, tier):
    return e1.replay(slices(tier), slice_name, case).fails
