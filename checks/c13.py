"""C13 - chunked reprojection equals whole-array reprojection.

E1: complete products over (source shape, dtype, nodata setting, source chunking, destination
chunking, destination placement, time axis); the dask graph built by xr_reproject is executed by the
harness (E3b executor, dask's static order) and compared with the in-memory path and with a
brute-force nearest-neighbour reference computed in exact arithmetic.
E3b: for a few graphs every task order within a deviation bound must give the identical array.
"""
from __future__ import annotations

import itertools
from fractions import Fraction as Fr

import numpy as np
from affine import Affine

from vf import core, e1, taskgraph
from vf.core import R

PROPERTY = "C13"
LEVEL = "model_checking"

import dask.array as da  # noqa: E402
import pyproj  # noqa: E402

from odc.geo.geobox import GeoBox  # noqa: E402
from odc.geo.xr import wrap_xr, xr_reproject  # noqa: E402

SRC_SHAPES = ((8, 8), (7, 10))
CHUNKS = ((4, 4), (3, 4), (1, 1), (8, 8), (5, 7))
SRC_A = Affine(16.0, 0.0, 1024.0, 0.0, -16.0, 2048.0)  # dyadic, north-up, metres
CRS_M = "EPSG:3857"

# destination = source grid transformed in *source pixel space* by P (dst pixel -> src pixel) and a shape.
# All numbers dyadic; offsets chosen so that no destination pixel centre maps onto a source pixel edge.
DESTS = {
    "identical": (Affine.identity(), None),
    "shift+3-2": (Affine.translation(3, -2), None),
    "shift-5+6": (Affine.translation(-5, 6), None),
    "subpixel": (Affine.translation(0.25, -0.375), None),
    "subpixel-shift": (Affine.translation(2.25, 3.125), None),
    "scale2": (Affine.translation(0.25, 0.25) * Affine.scale(2), (5, 6)),
    "scale-half": (Affine.translation(-1.125, 0.125) * Affine.scale(0.5), (14, 12)),
    "scale1.5": (Affine.translation(0.125, 0.125) * Affine.scale(1.5), (6, 7)),
    "mirror-x": (Affine.translation(8.25, 0.25) * Affine.scale(-1, 1), (8, 9)),
    "mirror-y": (Affine.translation(0.25, 7.25) * Affine.scale(1, -1), (8, 8)),
    "mirror-xy": (Affine.translation(8.25, 7.25) * Affine.scale(-1, -1), (8, 9)),  # both axes at once (a 180 degree turn)
    "mirror-xy-overhang": (Affine.translation(10.25, 5.25) * Affine.scale(-1, -1), (8, 9)),
    "mirror-xy-scale2": (Affine.translation(9.25, 8.25) * Affine.scale(-2, -2), (5, 6)),
    "outside-left": (Affine.translation(-6, 1), None),
    "outside-right": (Affine.translation(6, 0), None),
    "outside-top": (Affine.translation(1, -5), None),
    "outside-bottom": (Affine.translation(0, 5), None),
    "disjoint-right": (Affine.translation(40, 0), None),
    "disjoint-up": (Affine.translation(0, -40), None),
    "bigger": (Affine.translation(-3.25, -2.25), (13, 15)),
    # rotated destinations (Pythagorean rotations), several of them finer than the source: these take the general
    # (non-linear) dependency path of grid_intersect even though the CRS is shared
    "rot-7-24-25": (Affine.translation(1.8, -0.2) * Affine(24 / 25, -7 / 25, 0, 7 / 25, 24 / 25, 0), (9, 9)),
    "rot-3-4-5-fine": (Affine.translation(3.1, -1.4) * Affine(4 / 5, -3 / 5, 0, 3 / 5, 4 / 5, 0) * Affine.scale(0.7), (14, 14)),
    "rot-small-fine": (Affine.translation(0.753125, 1.028125) * Affine(40 / 41, -9 / 41, 0, 9 / 41, 40 / 41, 0) * Affine.scale(0.45), (20, 22)),
    "rot-neg-fine": (Affine.translation(-0.4, 2.8) * Affine(12 / 13, 5 / 13, 0, -5 / 13, 12 / 13, 0) * Affine.scale(0.6), (16, 15)),
    "rot-coarse": (Affine.translation(0.309375, 0.1) * Affine(15 / 17, -8 / 17, 0, 8 / 17, 15 / 17, 0) * Affine.scale(1.7), (6, 6)),
}

NODATA = ("none", "src", "dst", "both", "dst0", "src+dst0", "src0")  # incl. the falsy value 0 on either side


def nodata_vals(dtype, setting):
    """-> (src_nodata attr, dst_nodata kwarg)"""
    dt = np.dtype(dtype)
    a, b = (250, 251) if dt.kind == "u" else (-9999, -7777) if dt.itemsize > 1 else (-128, -127)
    if dt.kind == "f":
        a, b = -9999.0, -7777.0
    zero = 0.0 if dt.kind == "f" else 0
    return {
        "none": (None, None),
        "src": (a, None),
        "dst": (None, b),
        "both": (a, b),
        "dst0": (None, zero),
        "src+dst0": (a, zero),
        "src0": (zero, None),
    }[setting]


def src_data(shape, dtype, ntime):
    n = shape[0] * shape[1]
    # odd values 1..2n-1 < 250: never nodata, never 0; for 1-byte signed data keep them below 100 so that
    # neither the ramp nor the +40 per time step wraps around into the nodata values (-128, -127)
    k = np.arange(n).reshape(shape)
    if np.dtype(dtype) == np.dtype("int8"):
        k = k % 25
    base = (k * 2 + 1).astype(dtype)
    if ntime == 0:
        return base
    return np.stack([base + np.dtype(dtype).type(40 * t) for t in range(ntime)])


def expected_fill(dtype, src_nd, dst_nd):
    dt = np.dtype(dtype)
    if dst_nd is not None:
        return dt.type(dst_nd)
    if src_nd is not None:
        return dt.type(src_nd)
    return dt.type("nan") if dt.kind == "f" else dt.type(0)


def brute_nearest(src2d, P, dshape, fill):
    """Reference: centre of dst pixel -> src pixel space through P (exact rationals); inside => copy."""
    H, W = src2d.shape
    out = np.full(dshape, fill, dtype=src2d.dtype)
    a, b, c, d, e, f = (Fr(v) for v in P[:6])
    for i in range(dshape[0]):
        for j in range(dshape[1]):
            cx, cy = Fr(2 * j + 1, 2), Fr(2 * i + 1, 2)
            sx, sy = a * cx + b * cy + c, d * cx + e * cy + f
            if min(abs(sx - round(sx)), abs(sy - round(sy))) < Fr(1, 10**6) and -1 < sx < W + 1 and -1 < sy < H + 1:
                raise AssertionError(f"alphabet error: destination centre {(i, j)} within 1e-6 px of a source pixel edge")
            if 0 < sx < W and 0 < sy < H:
                out[i, j] = src2d[int(sy // 1), int(sx // 1)]
    return out


def same(a, b):
    return a.shape == b.shape and a.dtype == b.dtype and np.array_equal(a, b, equal_nan=a.dtype.kind == "f")


def execute(darr, prefix=()):
    """Run the dask graph of `darr` through the harness executor in dask's static order."""
    keys = list(core_flatten(darr.__dask_keys__()))
    g = taskgraph.converted(darr, keys)
    prio = taskgraph.static_priority(g)
    x = taskgraph.run_order(g, prio, None, prefix)
    if x.error is not None:
        raise x.error
    return assemble(darr, x.results), len(g)


def core_flatten(keys):
    for k in keys:
        if isinstance(k, list):
            yield from core_flatten(k)
        else:
            yield k


def assemble(darr, results):
    out = np.empty(darr.shape, dtype=darr.dtype)
    offs = [np.cumsum((0,) + ch) for ch in darr.chunks]
    for idx in np.ndindex(*[len(ch) for ch in darr.chunks]):
        blk = results[(darr.name, *idx)]
        sl = tuple(slice(int(o[i]), int(o[i + 1])) for o, i in zip(offs, idx))
        if blk.shape != out[sl].shape or blk.dtype != darr.dtype:
            raise BlockMismatch(f"block {idx} has shape {blk.shape} dtype {blk.dtype}, expected {out[sl].shape} {darr.dtype}")
        out[sl] = blk
    return out


class BlockMismatch(Exception):
    pass


def build(case):
    shape, dtype, nds, schunk, dchunk, dest, ntime = case
    P, dshape = DESTS[dest]
    dshape = dshape or shape
    sg = GeoBox(shape, SRC_A, CRS_M)
    dg = GeoBox(dshape, SRC_A * P, CRS_M)
    src_nd, dst_nd = nodata_vals(dtype, nds)
    data = src_data(shape, dtype, ntime)
    kw = dict(nodata=src_nd) if src_nd is not None else {}
    tm = [f"2020-01-0{t + 1}" for t in range(ntime)] if ntime else None
    xx = wrap_xr(data, sg, time=tm, **kw)
    ch = ((1,) if ntime else ()) + tuple(schunk)
    xd = wrap_xr(da.from_array(data, chunks=ch), sg, time=tm, **kw)
    return xx, xd, dg, P, dshape, src_nd, dst_nd


def gen_main(tier):
    dtypes = ("uint8", "int16", "float32", "float64") + (("int8",) if tier == "thorough" else ())

    def g():
        # slice A: all chunkings x all destinations (one dtype per nodata class)
        for shape in SRC_SHAPES:
            for dest in DESTS:
                for sc in CHUNKS:
                    for dc in CHUNKS:
                        for dtype, nds in (("int16", "both"), ("float32", "none"), ("uint8", "none"), ("float64", "src"),
                                           ("int16", "src+dst0"), ("float32", "dst0")):
                            yield (shape, dtype, nds, sc, dc, dest, 0)
        # slice B: all dtypes x all nodata settings x time axis (three chunkings)
        for shape in SRC_SHAPES:
            for dest in DESTS:
                for dtype in dtypes:
                    for nds in NODATA:
                        for sc, dc in (((4, 4), (3, 4)), ((3, 4), (5, 7)), ((1, 1), (4, 4))):
                            for ntime in (0, 2):
                                if tier == "quick" and ntime == 2 and (sc != (4, 4)):
                                    continue
                                yield (shape, dtype, nds, sc, dc, dest, ntime)

    return g


def compositions(n):
    """every tuple of positive integers summing to n (2**(n-1) of them), shortest first"""
    out = []

    def rec(rest, acc):
        if rest == 0:
            out.append(tuple(acc))
            return
        for k in range(1, rest + 1):
            rec(rest - k, acc + [k])

    rec(n, [])
    return sorted(out, key=lambda c: (len(c), c))


def gen_irregular(tier):
    """Irregular SOURCE chunkings: every composition of the 8 rows with the columns chunked (4,4) / (3,5), and every
    composition of the 8 columns with the rows chunked (4,4) / (5,3) - size relations between neighbouring chunks
    (equal prefix averages, first == last, ...) all occur; destination chunks of one pixel make every dependency window
    as small as it can be."""
    comps = compositions(8)
    dests = ("identical", "scale2", "mirror-x") + (("subpixel-shift", "rot-coarse", "scale-half", "mirror-xy-overhang", "bigger") if tier == "thorough" else ())
    combos = ((((1, 1), "int16", "both"), ((3, 4), "float32", "none")) if tier == "quick" else
              tuple((dc, dt, nd) for dc in ((1, 1), (3, 4)) for dt, nd in (("int16", "both"), ("float32", "none"))))

    def g():
        for axis in (0, 1):
            for comp in comps:
                if len(comp) in (1, 8):
                    continue  # regular chunkings are in slice same-crs
                for other in (((4, 4), (3, 5)) if axis == 0 else ((4, 4), (5, 3))):
                    sc = (comp, other) if axis == 0 else (other, comp)
                    for dest in dests:
                        for dc, dtype, nds in combos:
                            yield ((8, 8), dtype, nds, sc, dc, dest, 0)

    return g


def run_main(case):
    shape, dtype, nds, schunk, dchunk, dest, ntime = case
    xx, xd, dg, P, dshape, src_nd, dst_nd = build(case)
    kw = {} if dst_nd is None else dict(dst_nodata=dst_nd)
    whole = xr_reproject(xx, dg, resampling="nearest", **kw).values
    lazy = xr_reproject(xd, dg, resampling="nearest", chunks=tuple(dchunk), **kw)
    cls = f"{np.dtype(dtype).kind}:{nds}"
    r = R(outcome=f"{dest}:{cls}")
    try:
        chunked, ntasks = execute(lazy.data)
    except BlockMismatch as e:
        return r.fail(f"chunked:block-shape:{dest}", f"{case}: {e}")
    fill = expected_fill(dtype, src_nd, dst_nd)
    planes = [()] if ntime == 0 else [(t,) for t in range(ntime)]
    ref = np.stack([brute_nearest(xx.values[p], P, dshape, fill) for p in planes]) if ntime else brute_nearest(xx.values, P, dshape, fill)
    covered = ref != fill if not (isinstance(fill, np.floating) and np.isnan(fill)) else ~np.isnan(ref)
    r.nontrivial = bool(covered.any()) and not bool(covered.all())
    where = "partial" if r.nontrivial else ("full" if covered.all() else "none")
    r.outcome = f"{dest}:{cls}:{where}"
    if not same(chunked, whole):
        diff = _diff(chunked, whole)
        kind = _classify(chunked, whole, covered, fill)
        r.fail(f"chunked!=whole:{kind}:{cls}", f"{case}: chunked vs in-memory differ at {diff}")
    if not same(chunked, ref):
        kind = _classify(chunked, ref, covered, fill)
        r.fail(f"chunked!=reference:{kind}:{cls}", f"{case}: chunked vs brute-force nearest reference differ at {_diff(chunked, ref)} (fill {fill!r})")
    if not same(whole, ref) and same(chunked, whole):
        r.fail(f"whole!=reference:{cls}", f"{case}: in-memory path vs brute-force reference differ at {_diff(whole, ref)}")
    if lazy.odc.geobox != dg:
        r.fail("chunked:geobox", f"{case}: result geobox {lazy.odc.geobox} != destination {dg}")
    return r


def _diff(a, b):
    if a.shape != b.shape:
        return f"shapes {a.shape} vs {b.shape}"
    neq = ~((a == b) | (np.isnan(a) & np.isnan(b))) if a.dtype.kind == "f" else a != b
    idx = np.argwhere(neq)
    return f"{len(idx)} pixels, first {tuple(idx[0])}: {a[tuple(idx[0])]!r} vs {b[tuple(idx[0])]!r}"


def _classify(a, b, covered, fill):
    if a.shape != b.shape:
        return "shape"
    neq = ~((a == b) | (np.isnan(a) & np.isnan(b))) if a.dtype.kind == "f" else a != b
    unc = neq & ~covered
    if unc.any() and not (neq & covered).any():
        return "fill-of-uncovered-pixels"
    if (neq & covered).any() and not unc.any():
        return "values-of-covered-pixels"
    return "both"


# -- world-scale rasters: a lon/lat source spanning up to the whole globe, regional and world-scale destinations ----------
WORLD_SRC = {
    "globe": ((180, 360), Affine(1.0, 0, -180.0, 0, -1.0, 90.0)),
    "east-hemi": ((180, 180), Affine(1.0, 0, 0.0, 0, -1.0, 90.0)),
    "equatorial-band": ((60, 360), Affine(1.0, 0, -180.0, 0, -1.0, 30.0)),
    "340deg": ((120, 340), Affine(1.0, 0, -170.0, 0, -1.0, 60.0)),
    "europe": ((40, 60), Affine(1.0, 0, -15.0, 0, -1.0, 72.0)),
}
WORLD_DST = {
    "utm33-tile": ((40, 40), Affine(5000.0, 0, 400000.0, 0, -5000.0, 5600000.0), "EPSG:32633"),
    "laea-europe": ((40, 40), Affine(50000.0, 0, 3000000.0, 0, -50000.0, 4000000.0), "EPSG:3035"),
    "mercator-region": ((40, 40), Affine(50000.0, 0, 0.0, 0, -50000.0, 6000000.0), "EPSG:3857"),
    "mercator-world": ((40, 80), Affine(500000.0, 0, -20000000.0, 0, -500000.0, 10000000.0), "EPSG:3857"),
    "antarctic-polar": ((40, 40), Affine(100000.0, 0, -2000000.0, 0, -100000.0, 2000000.0), "EPSG:3031"),
}


def gen_world(tier):
    def g():
        for sn in WORLD_SRC:
            for dn in WORLD_DST:
                for sc in ((64, 64), (45, 90)):
                    for dc in ((16, 16), (40, 40)):
                        yield (sn, dn, sc, dc)

    return g


def run_world(case):
    """Chunked and in-memory reprojection of a lon/lat source of continental to global extent: the set of filled
    (uncovered) destination pixels must be the same and no path may raise."""
    sn, dn, sc, dc = case
    sshape, sA = WORLD_SRC[sn]
    dshape, dA, dcrs = WORLD_DST[dn]
    sg, dg = GeoBox(sshape, sA, "EPSG:4326"), GeoBox(dshape, dA, dcrs)
    data = (np.arange(sshape[0] * sshape[1]).reshape(sshape) % 200 + 1).astype("float32")
    xx = wrap_xr(data, sg)
    xd = wrap_xr(da.from_array(data, chunks=sc), sg)
    r = R(outcome=f"world:{sn}->{dn}")
    try:
        whole = xr_reproject(xx, dg, resampling="nearest").values
    except Exception as e:  # pylint: disable=broad-except
        if not core.in_repo_tb(e):
            raise
        return r.fail(f"world:{sn}->{dn}:in-memory-raised:{type(e).__name__}", f"{case}: {type(e).__name__}: {str(e)[:200]}")
    try:
        lazy = xr_reproject(xd, dg, resampling="nearest", chunks=dc)
        chunked, _ = execute(lazy.data)
    except BlockMismatch as e:
        return r.fail(f"world:{sn}->{dn}:block-shape", f"{case}: {e}")
    except Exception as e:  # pylint: disable=broad-except
        if not core.in_repo_tb(e):
            raise
        return r.fail(f"world:{sn}->{dn}:chunked-raised:{type(e).__name__}", f"{case}: chunked path raised {type(e).__name__}: {str(e)[:200]} "
                                                                           f"(in-memory path: {int(np.isnan(whole).sum())} fill pixels of {whole.size})")
    mw, mc = np.isnan(whole), np.isnan(chunked)
    r.nontrivial = not bool(mw.all())
    r.outcome += ":all-covered" if not mw.any() else ":partly-covered" if not mw.all() else ":uncovered"
    if not (mw == mc).all():
        r.fail(f"world:{sn}->{dn}:fill-mask-differs", f"{case}: in-memory result has {int(mw.sum())} fill pixels, chunked {int(mc.sum())} "
                                                      f"({int((mc & ~mw).sum())} covered pixels lost, {int((mw & ~mc).sum())} extra)")
    return r  # pixel values are not compared across CRSs (GDAL's approximate transformer differs between window sizes)


# -- cross CRS: coverage and fill only ---------------------------------------------------------------------
def gen_cross(tier):
    def g():
        for direction in ("3857->4326", "4326->3857"):
            for place in ("inside", "partial-east", "partial-south", "disjoint"):
                for dtype, nds in (("int16", "both"), ("float32", "none"), ("uint8", "none")):
                    for sc in ((4, 4), (3, 4), (1, 1)):
                        for dc in ((4, 4), (5, 7)):
                            for zoom in (1, 0.5, 0.3):
                                yield (direction, place, dtype, nds, sc, dc, zoom)

    return g


def run_cross(case):
    direction, place, dtype, nds, sc, dc, zoom = case
    shape = (8, 8)
    if direction == "3857->4326":
        sg = GeoBox(shape, Affine(1024.0, 0, 1024.0 * 1000, 0, -1024.0, 1024.0 * 5000), "EPSG:3857")
        dcrs, scrs = "EPSG:4326", "EPSG:3857"
    else:
        sg = GeoBox(shape, Affine(1 / 128, 0, 10.0, 0, -1 / 128, 45.0), "EPSG:4326")
        dcrs, scrs = "EPSG:3857", "EPSG:4326"
    base = sg.to_crs(dcrs)  # destination grid in the other CRS covering the source (construction only)
    if zoom != 1:
        base = base.zoom_out(zoom)  # finer destination: several destination pixels per source pixel
    px = abs(base.affine.a)
    k = 1 / zoom
    shift = {"inside": (0, 0), "partial-east": (5 * k, 0), "partial-south": (0, 5 * k), "disjoint": (60 * k, 0)}[place]
    dg = GeoBox(base.shape, base.affine * Affine.translation(*shift), dcrs)
    src_nd, dst_nd = nodata_vals(dtype, nds)
    data = src_data(shape, dtype, 0)
    kw = dict(nodata=src_nd) if src_nd is not None else {}
    xx = wrap_xr(data, sg, **kw)
    xd = wrap_xr(da.from_array(data, chunks=sc), sg, **kw)
    kw2 = {} if dst_nd is None else dict(dst_nodata=dst_nd)
    whole = xr_reproject(xx, dg, resampling="nearest", **kw2).values
    lazy = xr_reproject(xd, dg, resampling="nearest", chunks=dc, **kw2)
    r = R(outcome=f"{direction}:{place}:{np.dtype(dtype).kind}:{nds}:z{zoom}")
    try:
        chunked, _ = execute(lazy.data)
    except BlockMismatch as e:
        return r.fail(f"cross:block-shape:{place}", f"{case}: {e}")
    fill = expected_fill(dtype, src_nd, dst_nd)
    # independent coverage classes from a fresh transformer: clearly inside / clearly outside (1.5 px margin)
    tr = pyproj.Transformer.from_crs(dcrs, scrs, always_xy=True)
    ii, jj = np.meshgrid(np.arange(dg.shape[0]) + 0.5, np.arange(dg.shape[1]) + 0.5, indexing="ij")
    wx, wy = dg.affine * (jj, ii)
    sx, sy = tr.transform(wx, wy)
    pxs, pys = (~sg.affine) * (np.asarray(sx), np.asarray(sy))
    H, W = shape
    m = 1.5
    inside = (pxs > m) & (pxs < W - m) & (pys > m) & (pys < H - m)
    outside = (pxs < -m) | (pxs > W + m) | (pys < -m) | (pys > H + m) | ~np.isfinite(pxs)
    isfill = lambda a: np.isnan(a) if (isinstance(fill, np.floating) and np.isnan(fill)) else a == fill  # noqa: E731
    cls = f"{np.dtype(dtype).kind}:{nds}"
    r.nontrivial = bool(inside.any() and outside.any())
    for name, arr in (("chunked", chunked), ("whole", whole)):
        f = isfill(arr)
        if (outside & ~f).any():
            i = tuple(np.argwhere(outside & ~f)[0])
            r.fail(f"cross:{name}:unreachable-pixel-not-fill:{cls}", f"{case}: pixel {i} holds {arr[i]!r}, expected fill {fill!r}")
        if (inside & f).any():
            i = tuple(np.argwhere(inside & f)[0])
            r.fail(f"cross:{name}:covered-pixel-is-fill:{cls}", f"{case}: pixel {i} is fill but maps to source pixel ({pxs[i]:.2f},{pys[i]:.2f})")
    if place == "disjoint" and not (isfill(chunked).all() and isfill(whole).all()):
        r.fail(f"cross:disjoint-not-all-fill:{cls}", f"{case}")
    return r


# -- E3b: task orders --------------------------------------------------------------------------------------
def gen_orders(tier):
    bound = 1 if tier == "quick" else 2

    def g():
        yield ((8, 8), "int16", "both", (4, 4), (3, 4), "subpixel-shift", 0, bound)
        yield ((7, 10), "float32", "none", (3, 4), (4, 4), "scale1.5", 0, bound)
        yield ((8, 8), "uint8", "none", (4, 4), (4, 4), "outside-left", 2, bound)

    return g


def run_orders(case):
    *c, bound = case
    xx, xd, dg, P, dshape, src_nd, dst_nd = build(tuple(c))
    kw = {} if dst_nd is None else dict(dst_nodata=dst_nd)
    lazy = xr_reproject(xd, dg, resampling="nearest", chunks=tuple(c[4]), **kw)
    darr = lazy.data
    keys = list(core_flatten(darr.__dask_keys__()))
    g = taskgraph.converted(darr, keys)
    base, _ = execute(darr)
    bad = {}

    def check(x):
        if x.error is not None:
            if not core.in_repo_tb(x.error):
                raise x.error
            bad.setdefault(f"orders:exception:{type(x.error).__name__}", f"{x.error} with choices {x.choices}")
            return
        arr = assemble(darr, x.results)
        if not same(arr, base):
            dev = [(i, ch) for i, ch in enumerate(x.choices) if ch]
            bad.setdefault("orders:result-depends-on-task-order", f"deviations {dev}: {_diff(arr, base)}")

    st = taskgraph.explore(g, None, check, bound)
    r = R(outcome=f"tasks{len(g)}:max_ready{st.max_ready}")
    r.counts = dict(schedules=st.executions, transitions=st.tasks_run, states=st.distinct_orders)
    for k, m in bad.items():
        r.fail(k, f"{case}: {m}")
    return r


# -- Datasets: several bands on one grid, each with its own chunking / dtype / nodata -----------------------------------
DS_CHUNKINGS = ((4, 4), (3, 4), (1, 1), (8, 8), (5, 7), ((2, 1, 3, 2), (4, 4)), ((8,), (1, 7)))


def gen_dsbands(tier):
    dests = ("identical", "subpixel-shift", "scale2", "mirror-x", "outside-left") + (("rot-coarse", "scale-half", "bigger") if tier == "thorough" else ())

    def g():
        # every ordered pair of source chunkings for two bands (+ a third band repeating the first), per destination
        for dest in dests:
            for c1 in DS_CHUNKINGS:
                for c2 in DS_CHUNKINGS:
                    for dc in ((3, 4), (1, 1)) if tier == "thorough" else ((3, 4),):
                        for kinds in ((("int16", "both"), ("int16", "both")), (("float32", "none"), ("uint8", "src0"))):
                            yield (dest, c1, c2, dc, kinds)

    return g


def run_dsbands(case):
    """xr_reproject of a Dataset whose bands share the GeoBox but are chunked (and typed) differently: every band of the
    chunked result equals the in-memory result and the brute-force reference, as if it had been reprojected alone."""
    import xarray as xr  # pylint: disable=import-outside-toplevel

    dest, c1, c2, dc, kinds = case
    shape = (8, 8)
    P, dshape = DESTS[dest]
    dshape = dshape or shape
    sg = GeoBox(shape, SRC_A, CRS_M)
    dg = GeoBox(dshape, SRC_A * P, CRS_M)
    same_chunks = tuple(c1) == tuple(c2)
    r = R(outcome=f"ds-bands:{dest}:{'same' if same_chunks else 'different'}-chunks")
    bands, lazy_vars, mem_vars = {}, {}, {}
    for name, ch, (dtype, nds) in (("a", c1, kinds[0]), ("b", c2, kinds[1]), ("c", c1, kinds[0])):
        src_nd, _ = nodata_vals(dtype, nds)
        data = src_data(shape, dtype, 0)
        if name == "c":
            data = data[::-1].copy()  # same layout as band a, other pixels
        kw = dict(nodata=src_nd) if src_nd is not None else {}
        bands[name] = (data, dtype, src_nd)
        mem_vars[name] = wrap_xr(data, sg, **kw)
        lazy_vars[name] = wrap_xr(da.from_array(data, chunks=tuple(ch)), sg, **kw)
    whole = xr_reproject(xr.Dataset(mem_vars), dg, resampling="nearest")
    try:
        lazy = xr_reproject(xr.Dataset(lazy_vars), dg, resampling="nearest", chunks=tuple(dc))
    except Exception as e:  # pylint: disable=broad-except
        if not core.in_repo_tb(e):
            raise
        return r.fail(f"ds-bands:raised:{type(e).__name__}:{'same' if same_chunks else 'different'}-chunks", f"{case}: {type(e).__name__}: {e}")
    for name, (data, dtype, src_nd) in bands.items():
        try:
            chunked, _ = execute(lazy[name].data)
        except BlockMismatch as e:
            r.fail(f"ds-bands:block-shape:{name}", f"{case}: {e}")
            continue
        fill = expected_fill(dtype, src_nd, None)
        ref = brute_nearest(data, P, dshape, fill)
        covered = ref != fill if not (isinstance(fill, np.floating) and np.isnan(fill)) else ~np.isnan(ref)
        r.nontrivial = r.nontrivial or bool(covered.any())
        cls = f"band-{name}:{'same' if same_chunks else 'different'}-chunks"
        if not same(chunked, whole[name].values):
            r.fail(f"ds-bands:chunked!=whole:{_classify(chunked, whole[name].values, covered, fill)}:{cls}",
                   f"{case} band {name}: chunked vs in-memory differ at {_diff(chunked, whole[name].values)}")
        if not same(chunked, ref):
            r.fail(f"ds-bands:chunked!=reference:{_classify(chunked, ref, covered, fill)}:{cls}",
                   f"{case} band {name}: chunked vs brute-force reference differ at {_diff(chunked, ref)}")
        if lazy[name].odc.geobox != dg:
            r.fail("ds-bands:geobox", f"{case} band {name}: {lazy[name].odc.geobox} != destination")
    return r


# -- joint evaluation: two reprojections in one graph must not interfere ---------------------------------------
VARIATIONS = ("dst_nodata", "src_nodata", "resampling", "dst-shift", "dst-chunks", "time-step", "dtype")


def gen_joint(tier):
    def g():
        for var in VARIATIONS:
            for dest in ("outside-left", "subpixel-shift", "rot-3-4-5-fine"):
                for sc, dc in (((4, 4), (3, 4)), ((8, 8), (5, 7))):
                    yield (var, dest, sc, dc)

    return g


def run_joint(case):
    """Same chunked source reprojected twice with ONE parameter changed; both results computed in a single
    dask.compute call must equal the results computed one at a time (graph keys must not collide)."""
    import dask  # pylint: disable=import-outside-toplevel

    var, dest, sc, dc = case
    shape = (8, 8)
    base = dict(dtype="int16", nds="both", resampling="nearest", shift=(0, 0), dc=tuple(dc), t=0)
    other = dict(base)
    if var == "resampling":
        other["resampling"] = "bilinear"
    elif var == "dst-shift":
        other["shift"] = (1, 0)
    elif var == "dst-chunks":
        other["dc"] = (4, 4) if tuple(dc) != (4, 4) else (2, 8)
    elif var == "dtype":
        other["dtype"] = "float32"
    r = R(outcome=f"joint:{var}")

    def mk(p, which):
        P, dshape = DESTS[dest]
        dshape = dshape or shape
        sg = GeoBox(shape, SRC_A, CRS_M)
        dg = GeoBox(dshape, SRC_A * P * Affine.translation(*p["shift"]), CRS_M)
        src_nd, dst_nd = nodata_vals(p["dtype"], p["nds"])
        if var == "dst_nodata" and which == 1:
            dst_nd = dst_nd - 1
        if var == "src_nodata" and which == 1:
            src_nd = src_nd - 1
        data = src_data(shape, p["dtype"], 2 if var == "time-step" else 0)
        if var == "time-step":
            data = data[which]
        xd = wrap_xr(da.from_array(data, chunks=tuple(sc), name=f"src-{p['dtype']}-{which if var == 'time-step' else 0}"), sg,
                     nodata=src_nd)
        return xr_reproject(xd, dg, resampling=p["resampling"], chunks=p["dc"], dst_nodata=dst_nd)

    a, b = mk(base, 0), mk(other, 1)
    alone = [execute(a.data)[0], execute(b.data)[0]]
    with dask.config.set(scheduler="sync"):
        ja, jb = dask.compute(a.data, b.data)
    for name, j, al in (("first", ja, alone[0]), ("second", jb, alone[1])):
        if not same(np.asarray(j), al):
            r.fail(f"joint:interference:{var}", f"{case}: the {name} of two reprojections differing only in {var} changes when both "
                                                f"are computed in one graph: {_diff(np.asarray(j), al)}")
    if same(alone[0], alone[1]) and var in ("dst_nodata", "dst-shift"):
        r.nontrivial = False
    return r


# -- sources that contain nodata pixels ------------------------------------------------------------------------------
MASKS = ("isolated", "block", "half", "all", "all-but-one", "second-plane-all")


def mask_for(name, shape, ntime):
    """Boolean mask(s) of source pixels holding the source nodata value. 'block' = exactly the first 4x4 source chunk,
    'half' = left half (whole chunks for 4x4 chunking), 'all' = every pixel."""
    H, W = shape
    m = np.zeros(shape, dtype=bool)
    if name == "isolated":
        m[1, 2] = m[H - 2, W - 3] = m[3, 3] = True
    elif name == "block":
        m[:4, :4] = True
    elif name == "half":
        m[:, : W // 2] = True
    elif name in ("all", "second-plane-all"):
        m[:] = True
    elif name == "all-but-one":
        m[:] = True
        m[H // 2, W // 2] = False
    if ntime == 0:
        return m
    mm = np.stack([m] * ntime)
    if name == "second-plane-all":
        mm[0] = False
    return mm


def gen_masked(tier):
    def g():
        for shape in SRC_SHAPES:
            for dest in (("identical", "shift+3-2", "subpixel-shift", "scale2", "scale-half", "bigger", "rot-coarse")
                         if tier == "quick" else DESTS):
                for dtype in ("int16", "float32", "uint8"):
                    for nds in ("src", "both", "src+dst0", "src0"):
                        for sc, dc in (((4, 4), (4, 4)), ((4, 4), (3, 4)), ((8, 8), (4, 4)), ((1, 1), (5, 7))):
                            for mask in MASKS:
                                for ntime in (0, 2):
                                    if (mask == "second-plane-all") != (ntime == 2) and mask == "second-plane-all":
                                        continue
                                    if tier == "quick" and ntime == 2 and mask not in ("block", "second-plane-all"):
                                        continue
                                    yield (shape, dtype, nds, sc, dc, dest, ntime, mask)

    return g


def run_masked(case):
    """Source pixels equal to the source nodata value (isolated, filling whole chunks, everything): every one of them must
    come out as the destination fill value, exactly as in the in-memory path and the brute-force reference."""
    shape, dtype, nds, schunk, dchunk, dest, ntime, mask = case
    P, dshape = DESTS[dest]
    dshape = dshape or shape
    sg = GeoBox(shape, SRC_A, CRS_M)
    dg = GeoBox(dshape, SRC_A * P, CRS_M)
    src_nd, dst_nd = nodata_vals(dtype, nds)
    data = src_data(shape, dtype, ntime).copy()
    m = mask_for(mask, shape, ntime)
    data[m] = np.dtype(dtype).type(src_nd)
    tm = [f"2020-01-0{t + 1}" for t in range(ntime)] if ntime else None
    xx = wrap_xr(data, sg, time=tm, nodata=src_nd)
    ch = ((1,) if ntime else ()) + tuple(schunk)
    xd = wrap_xr(da.from_array(data, chunks=ch), sg, time=tm, nodata=src_nd)
    kw = {} if dst_nd is None else dict(dst_nodata=dst_nd)
    whole = xr_reproject(xx, dg, resampling="nearest", **kw).values
    lazy = xr_reproject(xd, dg, resampling="nearest", chunks=tuple(dchunk), **kw)
    cls = f"{np.dtype(dtype).kind}:{nds}:mask-{mask}"
    r = R(outcome=f"masked:{dest}:{cls}")
    try:
        chunked, _ = execute(lazy.data)
    except BlockMismatch as e:
        return r.fail(f"chunked:block-shape:masked:{dest}", f"{case}: {e}")
    fill = expected_fill(dtype, src_nd, dst_nd)
    filled = data.copy()
    filled[m] = fill
    planes = [()] if ntime == 0 else [(t,) for t in range(ntime)]
    ref = np.stack([brute_nearest(filled[p], P, dshape, fill) for p in planes]) if ntime else brute_nearest(filled, P, dshape, fill)
    covered = ref != fill
    r.nontrivial = True
    if not same(chunked, whole):
        kind = _classify(chunked, whole, covered, fill)
        r.fail(f"chunked!=whole:{kind}:{cls}", f"{case}: chunked vs in-memory differ at {_diff(chunked, whole)}")
    if not same(chunked, ref):
        kind = _classify(chunked, ref, covered, fill)
        r.fail(f"chunked!=reference:{kind}:{cls}", f"{case}: chunked vs brute-force reference differ at {_diff(chunked, ref)} (fill {fill!r})")
    if not same(whole, ref) and same(chunked, whole):
        r.fail(f"whole!=reference:{cls}", f"{case}: in-memory path vs brute-force reference differ at {_diff(whole, ref)}")
    return r


# -- extra axes: leading time / trailing band, every chunking of that axis ---------------------------------------------
def gen_axes(tier):
    def g():
        for layout in ("tyx", "yxb", "tyxb"):
            for axchunks in ((1, 1, 1), (2, 1), (1, 2), (3,)):
                for sc, dc in (((4, 4), (3, 4)), ((3, 4), (5, 7)), ((8, 8), (4, 4))):
                    for dest in ("identical", "subpixel-shift", "scale2", "mirror-x", "outside-left", "rot-coarse", "disjoint-right"):
                        for dtype, nds in (("int16", "both"), ("float32", "none")) + ((("uint8", "src0"), ("float64", "dst0")) if tier == "thorough" else ()):
                            yield (layout, axchunks, sc, dc, dest, dtype, nds)

    return g


def run_axes(case):
    layout, axchunks, schunk, dchunk, dest, dtype, nds = case
    shape = (7, 10)
    P, dshape = DESTS[dest]
    dshape = dshape or shape
    sg = GeoBox(shape, SRC_A, CRS_M)
    dg = GeoBox(dshape, SRC_A * P, CRS_M)
    src_nd, dst_nd = nodata_vals(dtype, nds)
    base = src_data(shape, dtype, 0)
    nt = 3 if layout.startswith("t") else 0
    nb = 3 if layout.endswith("b") else 0
    # plane (t, b) = base + 10*t + 2*b (planes all differ; values stay odd, below 250 and away from nodata)
    def plane(t, b):
        return (base.astype("int64") % 100 + 10 * t + 2 * b * 2).astype(dtype) | np.dtype(dtype).type(1) if np.dtype(dtype).kind in "iu" else (base % 100 + 10 * t + 4 * b).astype(dtype)
    if layout == "tyx":
        data = np.stack([plane(t, 0) for t in range(nt)])
        ch = (axchunks, schunk[0], schunk[1])
    elif layout == "yxb":
        data = np.stack([plane(0, b) for b in range(nb)], axis=-1)
        ch = (schunk[0], schunk[1], axchunks)
    else:
        data = np.stack([np.stack([plane(t, b) for b in range(nb)], axis=-1) for t in range(nt)])
        ch = (axchunks, schunk[0], schunk[1], axchunks)
    kw = dict(nodata=src_nd) if src_nd is not None else {}
    tm = [f"2020-01-0{t + 1}" for t in range(nt)] if nt else None
    xx = wrap_xr(data, sg, time=tm, **kw)
    xd = wrap_xr(da.from_array(data, chunks=ch), sg, time=tm, **kw)
    kw2 = {} if dst_nd is None else dict(dst_nodata=dst_nd)
    whole = xr_reproject(xx, dg, resampling="nearest", **kw2).values
    lazy = xr_reproject(xd, dg, resampling="nearest", chunks=tuple(dchunk), **kw2)
    cls = f"{layout}:axis-chunks-{'-'.join(map(str, axchunks))}"
    r = R(outcome=f"axes:{dest}:{cls}")
    try:
        chunked, _ = execute(lazy.data)
    except BlockMismatch as e:
        return r.fail(f"chunked:block-shape:{cls}", f"{case}: {e}")
    except Exception as e:  # pylint: disable=broad-except
        if not core.in_repo_tb(e) and "shape" not in str(e):
            raise
        return r.fail(f"chunked:raised:{type(e).__name__}:{cls}", f"{case}: {e}")
    fill = expected_fill(dtype, src_nd, dst_nd)
    ref = np.empty(whole.shape, dtype=dtype)
    for t in range(max(nt, 1)):
        for b in range(max(nb, 1)):
            pl = brute_nearest(plane(t if nt else 0, b if nb else 0), P, dshape, fill)
            if layout == "tyx":
                ref[t] = pl
            elif layout == "yxb":
                ref[..., b] = pl
            else:
                ref[t, ..., b] = pl
    covered = ~np.isnan(ref) if (isinstance(fill, np.floating) and np.isnan(fill)) else ref != fill
    r.nontrivial = bool(covered.any())
    if chunked.shape != whole.shape:
        return r.fail(f"chunked:shape:{cls}", f"{case}: chunked result has shape {chunked.shape}, in-memory {whole.shape}")
    if not same(chunked, whole):
        r.fail(f"chunked!=whole:{_classify(chunked, whole, covered, fill)}:{cls}", f"{case}: chunked vs in-memory differ at {_diff(chunked, whole)}")
    if not same(chunked, ref):
        r.fail(f"chunked!=reference:{_classify(chunked, ref, covered, fill)}:{cls}", f"{case}: chunked vs brute-force reference differ at {_diff(chunked, ref)}")
    return r


# -- long rasters: per-pixel deviations below a tolerance add up over the extent -----------------------------------------
LONG_SHAPES = ((16, 2000), (2000, 16), (600, 600))
LONG_REL = {
    # destination pixel -> source pixel maps that differ from identity by LESS than the usual snapping tolerances per
    # pixel (1e-3) but by more than a pixel over the raster
    "rot+0.05deg": lambda: Affine.rotation(0.05),
    "rot-0.05deg": lambda: Affine.rotation(-0.05),
    "rot+0.03deg-shifted": lambda: Affine.translation(3, -2) * Affine.rotation(0.03),
    "shear-9e-4": lambda: Affine(1, 9e-4, 0.25, 0, 1, 0.25),
    "shear-y-9e-4": lambda: Affine(1, 0, 0.25, -9e-4, 1, 0.25),
    "scale-1+9e-4": lambda: Affine.translation(0.25, 0.25) * Affine.scale(1 + 9e-4),
    "scale-2-9e-4": lambda: Affine.translation(0.25, 0.25) * Affine.scale(2 - 9e-4),
    "rot180+0.05deg": lambda: Affine.translation(1999.5, 15.5) * Affine.rotation(180.05),
    "identity-control": lambda: Affine.identity(),
}


def gen_long(tier):
    def g():
        for shape in LONG_SHAPES:
            for rel in LONG_REL:
                for frac in ((8, 4), (4, 8), (2, 2)):
                    if tier == "quick" and frac == (2, 2) and rel not in ("rot+0.05deg", "shear-9e-4"):
                        continue
                    yield (shape, rel, frac)

    return g


def run_long(case):
    """chunked == in-memory on rasters long enough that a sub-tolerance rotation / shear / scale error per pixel adds up
    to more than a pixel (the in-memory GDAL warp of the same data is the reference: that is the property's own clause)."""
    shape, rel, frac = case
    P = LONG_REL[rel]()
    if rel.startswith("rot180"):
        P = Affine.translation(shape[1] - 0.5, shape[0] - 0.5) * Affine.rotation(180.05)
    sg = GeoBox(shape, SRC_A, CRS_M)
    dg = GeoBox(shape, SRC_A * P, CRS_M)
    k = np.arange(shape[0] * shape[1], dtype="int64").reshape(shape)
    data = ((k * 7919) % 30011 + 1).astype("float32")  # neighbouring pixels always differ
    sch = (max(1, shape[0] // frac[0]), max(1, shape[1] // frac[1]))
    dch = (max(1, shape[0] // frac[1]), max(1, shape[1] // frac[0]))
    xx = wrap_xr(data, sg)
    xd = wrap_xr(da.from_array(data, chunks=sch), sg)
    whole = xr_reproject(xx, dg, resampling="nearest").values
    lazy = xr_reproject(xd, dg, resampling="nearest", chunks=dch)
    r = R(outcome=f"long:{'x'.join(map(str, shape))}:{rel}")
    try:
        chunked, _ = execute(lazy.data)
    except BlockMismatch as e:
        return r.fail(f"chunked:block-shape:long:{rel}", f"{case}: {e}")
    r.nontrivial = bool(np.isfinite(whole).any())
    if not same(chunked, whole):
        neq = ~((chunked == whole) | (np.isnan(chunked) & np.isnan(whole)))
        lost = int((np.isnan(chunked) & ~np.isnan(whole) & neq).sum())
        kind = "fill-where-in-memory-has-data" if lost == int(neq.sum()) else "values"
        r.fail(f"chunked!=whole:long:{kind}:{rel.split('-')[0].split('+')[0]}",
               f"{case}: {int(neq.sum())} pixels differ ({lost} are fill in the chunked result only), first at {tuple(np.argwhere(neq)[0])}")
    return r


def slices(tier):
    return [
        e1.Slice("long-rasters", gen_long(tier), run_long,
                 "2000-pixel-long rasters x sub-tolerance rotations / shears / scales x chunkings; chunked vs in-memory"),
        e1.Slice("extra-axes", gen_axes(tier), run_axes,
                 "leading time / trailing band / both, every chunking of a 3-long extra axis x spatial chunkings x destinations"),
        e1.Slice("masked-source", gen_masked(tier), run_masked,
                 "sources holding nodata pixels (isolated / a whole chunk / half / all / one plane) x nodata settings x chunkings x destinations"),
        e1.Slice("dataset-bands", gen_dsbands(tier), run_dsbands,
                 "Dataset of three bands on one GeoBox, every ordered pair of source chunkings (regular and irregular) x destinations"),
        e1.Slice("joint", gen_joint(tier), run_joint, "pairs of reprojections differing in one parameter, computed in one graph"),
        e1.Slice("same-crs", gen_main(tier), run_main, "chunkings x destinations x dtypes x nodata x time"),
        e1.Slice("irregular-chunks", gen_irregular(tier), run_main,
                 "every composition of 8 rows / 8 columns as the source chunking x destinations x one-pixel and 3x4 destination chunks"),
        e1.Slice("cross-crs", gen_cross(tier), run_cross, "3857<->4326 coverage/fill classes"),
        e1.Slice("world-scale", gen_world(tier), run_world,
                 "lon/lat sources from regional to the whole globe x regional and world-scale destinations x chunkings: same fill mask, no exception"),
        e1.Slice("task-orders", gen_orders(tier), run_orders, "E3b: every task order within the deviation bound", shards=3),
    ]


def main(ctx):
    ctx.rule = (
        "same-crs: complete products; every case runs the real dask graph (harness executor), the in-memory path and an "
        "exact-arithmetic brute-force nearest reference; non-trivial = destination partly covered. cross-crs: clearly "
        "reachable / unreachable pixel classes from a fresh pyproj transformer. task-orders: all orders within the bound"
    )
    ctx.bounds = dict(src_shapes=SRC_SHAPES, chunks=CHUNKS, destinations=list(DESTS), nodata=NODATA,
                      time_steps=[0, 2], deviation_bound=1 if ctx.tier == "quick" else 2)
    ctx.assumptions = [
        "dyadic alphabet, destination pixel centres never map onto a source pixel edge (asserted), so nearest-neighbour "
        "selection is exact in both paths and in the reference",
        "GDAL (rasterio.warp) is trusted for the in-memory path; tasks are executed one at a time (task granularity)",
    ]
    sl = slices(ctx.tier)
    if ctx.only:
        sl = [s for s in sl if any(s.name.startswith(o) for o in ctx.only)]
    e1.run_slices(ctx, sl)
    c = ctx.counters
    ctx.extra.update(states=max(1, int(c["states"])), transitions=max(1, int(c["transitions"])),
                     schedules=int(c["schedules"]), traces_validated_against_impl=int(c["schedules"]),
                     explanation="states = distinct task orders executed, transitions = tasks run by the harness executor "
                                 "in the order exploration; the E1 slices add one default-order execution per case")


def replay(slice_name, case, tier):
    return e1.replay(slices(tier), slice_name, case).fails
