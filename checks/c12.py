"""C12 - tile queries and tile dependency graphs are complete.

E1: complete enumeration of finite lattices of (tiled GeoBox, query) and (tiled GeoBox, tiled GeoBox)
configurations, executed on the real ``GeoboxTiles.tiles`` / ``range_from_bbox`` / ``grid_intersect``
and judged by brute force over ALL tiles (queries) or ALL (destination tile, source tile) pairs.

The oracle never asks odc-geo for a footprint: every tile is a pixel rectangle derived from the
construction parameters (shape, tile sizes), mapped to the world by the harness' own 6-coefficient
affine arithmetic into a shapely polygon; across CRSs the rectangle's edges are densified (32 points
per side) and projected with ``pyproj.Transformer`` objects built inside the harness from EPSG codes
(never taken from odc-geo's caches).  The tile-aspect slice (strip-shaped tiles as long as the raster) cuts the
edges into pieces of at most 1/4 destination pixel instead and measures what that leaves undecided.

What is demanded (and nothing more):
* geometry query  -> exactly the tiles whose footprint is not disjoint from the query; a contact that
  is within 1e-6 pixel of merely touching is neither required nor forbidden.  A query given in
  another CRS has two defensible readings (straight edges in the query's CRS / straight edges between
  the projected vertices - odc-geo documents the latter for ``Geometry.to_crs``): a tile is required
  only when it clearly intersects under BOTH readings and forbidden only when it is clearly disjoint
  under BOTH.
* bounding-box query (``range_from_bbox``, ``tiles(BoundingBox)``, CRS-less = pixel plane) -> a superset.
* ``grid_intersect`` -> every (dst tile, src tile) pair whose overlap exceeds half a destination
  pixel's area is listed (extra edges allowed); no edge at all - and no exception - when the two
  rasters' footprints are disjoint.
"""
from __future__ import annotations

import itertools
import math

import pyproj
from affine import Affine
from shapely.geometry import Polygon
from shapely.geometry import box as sbox

from vf import e1
from vf.core import R

PROPERTY = "C12"
LEVEL = "exploration"

from odc.geo import geom  # noqa: E402
from odc.geo.geobox import GeoBox, GeoboxTiles  # noqa: E402
from odc.geo.geom import BoundingBox  # noqa: E402

TOL_PX = 1e-6  # DESIGN section 3: pixel-unit tolerance of the oracle
NSIDE = 32  # points per side when a footprint is taken to another CRS
_TIER = ["quick"]


# =================================================================================================
# harness-side geometry: 6-coefficient affines, tile rectangles, fresh transformers
# =================================================================================================
def aff_apply(A6, x, y):
    a, b, c, d, e, f = A6
    return (a * x + b * y + c, d * x + e * y + f)


def aff_mul(A, B):
    """A o B (apply B first)."""
    a, b, c, d, e, f = A
    a2, b2, c2, d2, e2, f2 = B
    return (
        a * a2 + b * d2,
        a * b2 + b * e2,
        a * c2 + b * f2 + c,
        d * a2 + e * d2,
        d * b2 + e * e2,
        d * c2 + e * f2 + f,
    )


def aff_T(tx, ty):
    return (1.0, 0.0, float(tx), 0.0, 1.0, float(ty))


def aff_S(sx, sy):
    return (float(sx), 0.0, 0.0, 0.0, float(sy), 0.0)


def aff_R(deg):
    if deg == 90:
        c, s = 0.0, 1.0
    else:
        c, s = math.cos(math.radians(deg)), math.sin(math.radians(deg))
    return (c, -s, 0.0, s, c, 0.0)


def aff_pixarea(A6):
    a, b, _, d, e, _ = A6
    return abs(a * e - b * d)


def aff_pixlen(A6):
    a, b, _, d, e, _ = A6
    return min(math.hypot(a, d), math.hypot(b, e))


def rect_pts(x0, y0, x1, y1):
    return [(x0, y0), (x1, y0), (x1, y1), (x0, y1)]


def densify(pts, n):
    """Closed ring through pts with n segments per side (end point of each side excluded)."""
    out = []
    m = len(pts)
    for i in range(m):
        (xa, ya), (xb, yb) = pts[i], pts[(i + 1) % m]
        for k in range(n):
            t = k / n
            out.append((xa + (xb - xa) * t, ya + (yb - ya) * t))
    return out


_TR = {}


def transformer(src_epsg, dst_epsg):
    key = (src_epsg, dst_epsg)
    tr = _TR.get(key)
    if tr is None:
        tr = pyproj.Transformer.from_crs(
            pyproj.CRS.from_epsg(src_epsg), pyproj.CRS.from_epsg(dst_epsg), always_xy=True
        )
        _TR[key] = tr
    return tr


def project_pts(pts, src_epsg, dst_epsg):
    if src_epsg == dst_epsg:
        return list(pts)
    xs, ys = transformer(src_epsg, dst_epsg).transform([p[0] for p in pts], [p[1] for p in pts])
    out = list(zip((float(v) for v in xs), (float(v) for v in ys)))
    for x, y in out:
        if not (math.isfinite(x) and math.isfinite(y)):
            raise RuntimeError(f"harness: projection {src_epsg}->{dst_epsg} produced a non-finite point")
    return out


def offsets(n, tiling_axis):
    """Tile boundaries along one axis: [0, e1, ..., n]."""
    if isinstance(tiling_axis, tuple):
        off = [0]
        for c in tiling_axis:
            off.append(off[-1] + c)
        assert off[-1] == n
        return off
    t = int(tiling_axis)
    off = list(range(0, n, t)) + [n]
    return off


# layout id -> (shape (ny,nx), tiling).  tiling: (ty,tx) regular | ((..rows..),(..cols..)) variable
LAYOUTS = {
    "8x8/4x4": ((8, 8), (4, 4)),
    "7x10/3x4": ((7, 10), (3, 4)),
    "8x10/var": ((8, 10), ((1, 3, 4), (2, 8))),
    "7x10/4x4": ((7, 10), (4, 4)),
    "8x8/3x4": ((8, 8), (3, 4)),
    "7x10/var": ((7, 10), ((4, 1, 2), (3, 3, 4))),
    "8x8/1tile": ((8, 8), (8, 8)),
    # portrait (ny > nx); interior chunk smaller than the first and last chunk the largest; zero-length chunks
    "10x7/4x3": ((10, 7), (4, 3)),
    "10x7/var": ((10, 7), ((3, 2, 5), (3, 4))),
    "8x10/zero": ((8, 10), ((4, 0, 4), (0, 2, 8))),
}


def layout_offsets(layout):
    (ny, nx), tiling = LAYOUTS[layout]
    return offsets(ny, tiling[0]), offsets(nx, tiling[1])


def layout_kind(layout):
    return "variable" if isinstance(LAYOUTS[layout][1][0], tuple) else "regular"


def tile_rects(layout):
    """(iy, ix) -> (x0, y0, x1, y1) in pixels, from the construction parameters only."""
    yo, xo = layout_offsets(layout)
    return {
        (iy, ix): (xo[ix], yo[iy], xo[ix + 1], yo[iy + 1])
        for iy in range(len(yo) - 1)
        for ix in range(len(xo) - 1)
    }


def _c30():
    return math.cos(math.radians(30)), math.sin(math.radians(30))


def _rot30(tx, ty, sx, sy):
    # T(tx,ty) o R(30) o S(sx,sy)
    return aff_mul(aff_T(tx, ty), aff_mul(aff_R(30), aff_S(sx, sy)))


# base id -> (epsg | None, affine6, class label)
BASES = {
    "utm": (32633, (10.0, 0.0, 600000.0, 0.0, -10.0, 6000000.0), "north-up"),
    "flipx": (32633, (-10.0, 0.0, 600100.0, 0.0, -10.0, 6000000.0), "mirrored"),
    "yup": (32633, (10.0, 0.0, 600000.0, 0.0, 10.0, 5999900.0), "mirrored"),
    "rot30": (32633, _rot30(600000.0, 6000000.0, 10.0, -10.0), "rotated"),
    "geo": (4326, (0.125, 0.0, 140.0, 0.0, -0.125, -30.0), "north-up"),
    "merc": (3857, (32.0, 0.0, 1600000.0, 0.0, -32.0, 7200000.0), "north-up"),
    # non-square pixels; origin not a whole number of pixels from 0; tiny pixels
    "nonsq": (32633, (10.0, 0.0, 600000.0, 0.0, -25.0, 6000000.0), "north-up"),
    "offgrid": (32633, (10.0, 0.0, 600003.7, 0.0, -10.0, 6000001.3), "north-up"),
    "geo-tiny": (4326, (4.5e-6, 0.0, 140.0, 0.0, -4.5e-6, -30.0), "north-up"),
    # CRS-less rasters
    "nocrs-ident": (None, (1.0, 0.0, 0.0, 0.0, 1.0, 0.0), "crs-less-identity"),
    "nocrs-world": (None, (10.0, 0.0, 1000.0, 0.0, -10.0, 2000.0), "crs-less-world"),
}
OTHER_CRS = {"utm": 4326, "flipx": 4326, "yup": 4326, "rot30": 4326, "geo": 3577, "merc": 4326,
             "nonsq": 4326, "offgrid": 4326, "geo-tiny": 3577}


def mk_gbt(epsg, A6, layout):
    shape, tiling = LAYOUTS[layout]
    gbox = GeoBox(shape, Affine(*A6), None if epsg is None else f"EPSG:{epsg}")
    return GeoboxTiles(gbox, tiling)


def tile_polys(A6, layout):
    return {
        idx: Polygon([aff_apply(A6, x, y) for x, y in rect_pts(*r)]) for idx, r in tile_rects(layout).items()
    }


def tile_polys_in(A6, layout, epsg, other_epsg):
    out = {}
    for idx, r in tile_rects(layout).items():
        w = [aff_apply(A6, x, y) for x, y in densify(rect_pts(*r), NSIDE)]
        out[idx] = Polygon(project_pts(w, epsg, other_epsg))
    return out


_CFG = {}


def cfg(base, layout):
    key = (base, layout)
    c = _CFG.get(key)
    if c is None:
        epsg, A6, cls = BASES[base]
        c = dict(epsg=epsg, A=A6, cls=cls, gbt=mk_gbt(epsg, A6, layout), F=tile_polys(A6, layout), F2={})
        _CFG[key] = c
    return c


def cfg_F2(c, layout, qepsg):
    f2 = c["F2"].get(qepsg)
    if f2 is None:
        f2 = tile_polys_in(c["A"], layout, c["epsg"], qepsg)
        c["F2"][qepsg] = f2
    return f2


def classify(F, Q, tol):
    """'in' clearly intersecting, 'out' clearly disjoint, 'band' within tol of merely touching."""
    if F.area <= 0:  # zero-length chunk: a degenerate footprint can at most be touched
        return "out" if F.distance(Q) > tol else "band"
    fb, qb = F.bounds, Q.bounds
    if fb[0] - qb[2] > tol or qb[0] - fb[2] > tol or fb[1] - qb[3] > tol or qb[1] - fb[3] > tol:
        return "out"
    d = F.distance(Q)
    if d > tol:
        return "out"
    if d > 0:
        return "band"
    inter = F.intersection(Q)
    if inter.is_empty or inter.area <= 0:
        return "band"
    if inter.buffer(-tol).is_empty:
        return "band"
    return "in"


def bucket(n, total):
    if n == 0:
        return "0"
    if n == total:
        return "all"
    if n == 1:
        return "1"
    return "some"


def as_idx_set(it, r, key, what):
    """Collect tile indices returned by odc-geo, normalised to python int tuples."""
    out = []
    for idx in it:
        iy, ix = idx
        out.append((int(iy), int(ix)))
    s = set(out)
    if len(s) != len(out):
        r.fail(f"{key}:duplicate-tiles", f"{what}: returned {out}")
    return s


# =================================================================================================
# query alphabets
# =================================================================================================
def axis_alphabet(off, tier):
    n = off[-1]
    vals = {-2.5, 0.0, float(n), n + 2.5}
    for e in off[1:-1]:
        vals.update((e - 0.25, float(e), e + 0.5))
    if tier == "thorough":
        vals.update((0.5, n - 0.75))
        for e in off[1:-1]:
            vals.add(e + 1.0)
    return sorted(vals)


def intervals(vals):
    return [(a, b) for a, b in itertools.combinations(vals, 2)]


def query_pts(kind, xa, xb, ya, yb):
    if kind == "box":
        return rect_pts(xa, ya, xb, yb)
    if kind == "tri1":
        return [(xa, ya), (xb, ya), (xa, yb)]
    if kind == "tri2":
        return [(xb, yb), (xa, yb), (xb, ya)]
    if kind == "dia":
        xm, ym = (xa + xb) / 2, (ya + yb) / 2
        return [(xm, ya), (xb, ym), (xm, yb), (xa, ym)]
    raise ValueError(kind)


KINDS = ("box", "tri1", "tri2", "dia")


def q_bases(tier):
    return ("utm", "flipx", "rot30", "geo") if tier == "quick" else ("utm", "flipx", "yup", "rot30", "geo", "merc")


def q_base_crs(tier):
    """(base, query CRS class) combinations: a union of complete products."""
    if tier == "quick":
        return (("utm", "same"), ("utm", "other"), ("flipx", "same"), ("rot30", "same"), ("rot30", "other"),
                ("geo", "same"), ("geo", "other"))
    return tuple(bq for bq in itertools.product(q_bases(tier), ("same", "other"))
                 if bq not in (("flipx", "other"), ("yup", "other")))


def q_kinds(tier):
    return ("box", "tri1", "dia") if tier == "quick" else KINDS


def q_layouts(tier):
    if tier == "quick":
        return ("8x8/4x4", "7x10/3x4", "8x10/var")
    return ("8x8/4x4", "7x10/3x4", "8x10/var", "7x10/4x4", "8x8/3x4", "7x10/var", "8x8/1tile")


Q_EXTRA = ((("nonsq", "same"), ("nonsq", "other"), ("offgrid", "same")), ("10x7/var", "8x10/zero"))


def gen_query():
    tier = _TIER[0]
    combos = [(b, q, l) for b, q in q_base_crs(tier) for l in q_layouts(tier)]
    combos += [(b, q, l) for b, q in Q_EXTRA[0] for l in Q_EXTRA[1] + (("10x7/4x3",) if tier != "quick" else ())]
    if tier != "quick":
        combos += [("geo-tiny", q, l) for q in ("same", "other") for l in ("8x8/4x4", "10x7/var")]
    for base, qc, layout in combos:
        for _ in (0,):
            yo, xo = layout_offsets(layout)
            xi = intervals(axis_alphabet(xo, tier))
            yi = intervals(axis_alphabet(yo, tier))
            for kind in q_kinds(tier):
                for (xa, xb), (ya, yb) in itertools.product(xi, yi):
                    yield (base, layout, qc, kind, xa, xb, ya, yb)


def _judge_sets(r, readings, tiles, got, key_missing, key_extra, what, exact, clf=None):
    """readings: list of (F dict, Q, tol). Returns (n_required, n_band)."""
    clf = clf or classify
    nreq = nband = 0
    for idx in tiles:
        cls = [clf(F[idx], Q, tol) for F, Q, tol in readings]
        if all(c == "in" for c in cls):
            nreq += 1
            if idx not in got:
                r.fail(key_missing, f"{what}: tile {idx} intersects the query but is not returned; got {sorted(got)}")
        elif all(c == "out" for c in cls):
            if exact and idx in got:
                r.fail(key_extra, f"{what}: tile {idx} is disjoint from the query but is returned; got {sorted(got)}")
        else:
            nband += 1
    return nreq, nband


def run_query(case):
    base, layout, qc, kind, xa, xb, ya, yb = case
    c = cfg(base, layout)
    gbt, A6, epsg, F = c["gbt"], c["A"], c["epsg"], c["F"]
    tiles = list(F)
    ntile_y, ntile_x = (len(o) - 1 for o in layout_offsets(layout))
    qepsg = epsg if qc == "same" else OTHER_CRS[base]
    W = [aff_apply(A6, x, y) for x, y in query_pts(kind, xa, xb, ya, yb)]
    Qpts = project_pts(W, epsg, qepsg)
    tol1 = TOL_PX * aff_pixlen(A6)
    cls_key = f"{qc}-crs:{c['cls']}"
    what = f"{base} {layout} query {kind} px x[{xa},{xb}] y[{ya},{yb}] in EPSG:{qepsg}"

    def readings_for(qpts):
        q = Polygon(qpts)
        if qepsg == epsg:
            return [(F, q, tol1)]
        F2 = cfg_F2(c, layout, qepsg)
        (ny_, nx_), _ = LAYOUTS[layout]
        tol2 = TOL_PX * math.sqrt(sum(p_.area for p_ in F2.values()) / (ny_ * nx_))
        q1 = Polygon(project_pts(qpts, qepsg, epsg))
        return [(F, q1, tol1), (F2, q, tol2)]

    r = R()
    # ---- geometry query: exact
    g = geom.polygon(Qpts + [Qpts[0]], f"EPSG:{qepsg}")
    got = as_idx_set(gbt.tiles(g), r, f"tiles:geometry:{cls_key}", what)
    bad = [i for i in got if not (0 <= i[0] < ntile_y and 0 <= i[1] < ntile_x)]
    if bad:
        r.fail(f"tiles:geometry:index-out-of-range:{cls_key}", f"{what}: {bad}")
    nreq, nband = _judge_sets(
        r,
        readings_for(Qpts),
        tiles,
        got,
        f"tiles:geometry:missing:{cls_key}",
        f"tiles:geometry:extra:{cls_key}",
        what,
        exact=True,
    )
    # ---- bounding-box queries (world-axis-aligned box around the query): superset
    if kind == "box":
        xs = [p[0] for p in Qpts]
        ys = [p[1] for p in Qpts]
        bb = (min(xs), min(ys), max(xs), max(ys))
        B = BoundingBox(*bb, f"EPSG:{qepsg}")
        rd = readings_for(rect_pts(*bb))
        got_b = as_idx_set(gbt.tiles(B), r, f"tiles:bbox:{cls_key}", what)
        _judge_sets(r, rd, tiles, got_b, f"tiles:bbox:missing:{cls_key}", "", what + " [tiles(BoundingBox)]", exact=False)
        ry, rx = gbt.range_from_bbox(B)
        if not (_range_ok(ry, ntile_y) and _range_ok(rx, ntile_x)):
            r.fail(f"range_from_bbox:out-of-range:{cls_key}", f"{what}: {ry}, {rx} for {ntile_y}x{ntile_x} tiles")
        got_r = set(itertools.product(ry, rx))
        _judge_sets(r, rd, tiles, got_r, f"range_from_bbox:missing:{cls_key}", "", what + f" [range_from_bbox -> {ry},{rx}]", exact=False)
    r.outcome = f"req={bucket(nreq, len(tiles))}:{'touch' if nband else 'clean'}:got={bucket(len(got), len(tiles))}"
    r.nontrivial = True
    return r


def _rect_area(rc):
    x0, y0, x1, y1 = rc
    return (x1 - x0) * (y1 - y0)


def _range_ok(rg, n):
    return isinstance(rg, range) and rg.step == 1 and (len(rg) == 0 or (0 <= rg[0] and rg[-1] < n))


# ---- pixel-plane bounding boxes (crs=None) ----------------------------------------------------------
def pix_alphabet(off):
    n = off[-1]
    vals = {-2.5, -0.25, n + 0.25, n + 2.5}
    vals.update(k * 0.5 for k in range(0, 2 * n + 1))
    for e in off[1:-1]:
        vals.update((e - 0.25, e + 0.25))
    return sorted(vals)


def gen_pix():
    tier = _TIER[0]
    # the affine and the CRS play no role for pixel-plane boxes: two bases are enough
    for base in ("utm", "rot30"):
        for layout in q_layouts(tier) + (("10x7/var", "8x10/zero", "10x7/4x3") if base == "utm" else ()):
            yo, xo = layout_offsets(layout)
            xv = pix_alphabet(xo)
            yv = pix_alphabet(yo)
            for (xa, xb), (ya, yb) in itertools.product(intervals(xv), intervals(yv)):
                yield (base, layout, xa, xb, ya, yb)


def run_pix(case):
    base, layout, xa, xb, ya, yb = case
    c = cfg(base, layout)
    gbt = c["gbt"]
    rects = tile_rects(layout)
    ntile_y, ntile_x = (len(o) - 1 for o in layout_offsets(layout))
    B = BoundingBox(xa, ya, xb, yb, None)
    what = f"{base} {layout} pixel-plane BoundingBox({xa},{ya},{xb},{yb})"
    key = layout_kind(layout)
    r = R()
    # dyadic pixel coordinates: exact comparisons
    required = {
        idx
        for idx, (x0, y0, x1, y1) in rects.items()
        if max(xa, x0) < min(xb, x1) and max(ya, y0) < min(yb, y1)
    }
    ry, rx = gbt.range_from_bbox(B)
    if not (_range_ok(ry, ntile_y) and _range_ok(rx, ntile_x)):
        r.fail(f"range_from_bbox:pixel-plane:out-of-range:{key}", f"{what}: {ry}, {rx}")
    got_r = set(itertools.product(ry, rx))
    got_t = as_idx_set(gbt.tiles(B), r, f"tiles:bbox:pixel-plane:{key}", what)
    miss = sorted(required - got_r)
    if miss:
        r.fail(f"range_from_bbox:pixel-plane:missing:{key}", f"{what}: {ry},{rx} misses tiles {miss}")
    miss = sorted(required - got_t)
    if miss:
        r.fail(f"tiles:bbox:pixel-plane:missing:{key}", f"{what}: {sorted(got_t)} misses tiles {miss}")
    r.outcome = f"pix:req={bucket(len(required), len(rects))}:got={bucket(len(got_r), len(rects))}"
    r.counts = {"pixel_bbox_extra_tiles": len(got_r - required)}
    return r


# ---- CRS-less geometries -----------------------------------------------------------------------------
def gen_nocrs():
    tier = _TIER[0]
    for base in ("nocrs-ident", "nocrs-world", "utm"):
        for layout in ("8x8/4x4", "8x10/var"):
            yo, xo = layout_offsets(layout)
            xi = intervals(axis_alphabet(xo, tier))
            yi = intervals(axis_alphabet(yo, tier))
            for kind in ("box", "tri1", "dia"):
                for (xa, xb), (ya, yb) in itertools.product(xi, yi):
                    yield (base, layout, kind, xa, xb, ya, yb)


def run_nocrs(case):
    base, layout, kind, xa, xb, ya, yb = case
    c = cfg(base, layout)
    gbt, A6, F = c["gbt"], c["A"], c["F"]
    r = R()
    if c["epsg"] is not None:
        # Geometry without CRS against a raster with CRS: outside the property's quantifier ("in same or
        # different CRS"); the behaviour (ValueError from to_crs) is recorded as an outcome only.
        g = geom.polygon([*query_pts(kind, xa, xb, ya, yb), query_pts(kind, xa, xb, ya, yb)[0]], None)
        try:
            got = list(gbt.tiles(g))
            r.outcome = f"crs-less-geometry-on-crs-raster:returned:{bucket(len(got), len(F))}"
        except ValueError:
            r.outcome = "crs-less-geometry-on-crs-raster:ValueError"
        r.nontrivial = False
        return r
    # raster without CRS, geometry without CRS, coordinates in the raster's world plane: a same-CRS query
    W = [aff_apply(A6, x, y) for x, y in query_pts(kind, xa, xb, ya, yb)]
    g = geom.polygon(W + [W[0]], None)
    if c["cls"] == "crs-less-world":
        # A CRS-less geometry has two documented readings in this code base: GeoBox.project() and the
        # BoundingBox(crs=None) special case take it as PIXEL plane, the footprint filter compares it with world
        # extents. For a CRS-less raster with a non-identity affine the two disagree and tiles() returns nothing.
        # The property quantifies over queries "in same or different CRS"; CRS-less queries on such rasters are
        # recorded as an outcome, not judged.
        try:
            got_ = list(gbt.tiles(g))
            r.outcome = f"crs-less-geometry-on-crs-less-world-raster:returned:{bucket(len(got_), len(F))}"
        except Exception as e:  # pylint: disable=broad-except
            r.outcome = f"crs-less-geometry-on-crs-less-world-raster:{type(e).__name__}"
        r.nontrivial = False
        return r
    what = f"{base} {layout} CRS-less query {kind} px x[{xa},{xb}] y[{ya},{yb}] world {W}"
    key = c["cls"]
    got = as_idx_set(gbt.tiles(g), r, f"tiles:geometry:{key}", what)
    nreq, nband = _judge_sets(
        r,
        [(F, Polygon(W), TOL_PX * aff_pixlen(A6))],
        list(F),
        got,
        f"tiles:geometry:missing:{key}",
        f"tiles:geometry:extra:{key}",
        what,
        exact=True,
    )
    r.outcome = f"nocrs:req={bucket(nreq, len(F))}:{'touch' if nband else 'clean'}:got={bucket(len(got), len(F))}"
    return r


# =================================================================================================
# tile dependency graphs
# =================================================================================================
def check_deps_structure(r, deps, dtiles, stiles, key, what):
    ok = True
    if not isinstance(deps, dict):
        r.fail(f"grid_intersect:not-a-dict:{key}", f"{what}: {type(deps).__name__}")
        return None
    norm = {}
    for k, v in deps.items():
        kk = (int(k[0]), int(k[1]))
        if kk not in dtiles:
            r.fail(f"grid_intersect:dst-index-out-of-range:{key}", f"{what}: key {k}")
            ok = False
            continue
        vv = [(int(j[0]), int(j[1])) for j in v]
        bad = [j for j in vv if j not in stiles]
        if bad:
            r.fail(f"grid_intersect:src-index-out-of-range:{key}", f"{what}: {k} -> {bad}")
            ok = False
        norm[kk] = set(vv)
    return norm if ok else None


def judge_pairs(r, deps, D, S, pixarea, margin, relation, path, kind, what, min_width=0.0):
    """D, S: dict idx -> polygon in one common plane; brute force over all pairs.

    min_width > 0: an overlap thinner than that (no disk of that diameter fits) is a sliver and not required.
    """
    norm = check_deps_structure(r, deps, D, S, path, what)
    if norm is None:
        return 0, 0
    nreq = 0
    thr = 0.5 * pixarea * (1 + margin)
    sb = {j: p.bounds for j, p in S.items()}
    for i, dp in D.items():
        x0, y0, x1, y1 = dp.bounds
        listed = norm.get(i, set())
        for j, sp in S.items():
            b = sb[j]
            if b[0] >= x1 or b[2] <= x0 or b[1] >= y1 or b[3] <= y0:
                continue
            ov = dp.intersection(sp)
            if ov.area > thr and (min_width <= 0 or not ov.buffer(-min_width / 2).is_empty):
                nreq += 1
                if j not in listed:
                    stage = "dst-tile-absent" if i not in norm else "src-tile-unlisted"
                    r.fail(
                        f"grid_intersect:missing-edge:{path}:{kind}:{stage}",
                        f"{what}: dst tile {i} overlaps src tile {j} by "
                        f"{dp.intersection(sp).area / pixarea:.4g} dst pixels, listed {sorted(listed)}",
                    )
    nedges = sum(len(v) for v in norm.values())
    if relation == "disjoint" and nedges:
        ex = next((k, sorted(v)) for k, v in sorted(norm.items()) if v)
        r.fail(
            f"grid_intersect:edges-for-disjoint-rasters:{path}",
            f"{what}: rasters do not overlap but {nedges} edges are listed, e.g. {ex[0]} -> {ex[1]}",
        )
    return nreq, nedges


def raster_relation(Dfoot, Sfoot, tol, min_area):
    d = Dfoot.distance(Sfoot)
    if d > tol:
        return "disjoint"
    if d == 0 and Dfoot.intersection(Sfoot).area > min_area:
        return "overlap"
    return "touch"


def full_rect(layout):
    (ny, nx), _ = LAYOUTS[layout]
    return (0, 0, nx, ny)


# ---- same CRS ---------------------------------------------------------------------------------------
SAME_KINDS = {
    # kind -> (scale of a source pixel in destination pixels, builder of M given (nx_s, ny_s))
    "aligned": (1.0, lambda nx, ny: aff_S(1, 1)),
    "scale2": (2.0, lambda nx, ny: aff_S(2, 2)),
    "scale-half": (0.5, lambda nx, ny: aff_S(0.5, 0.5)),
    "scale1.5": (1.5, lambda nx, ny: aff_S(1.5, 1.5)),
    "mirror-x": (1.0, lambda nx, ny: aff_mul(aff_T(nx, 0), aff_S(-1, 1))),
    "mirror-y": (1.0, lambda nx, ny: aff_mul(aff_T(0, ny), aff_S(1, -1))),
    "rot30": (1.0, lambda nx, ny: aff_R(30)),
    "rot90": (1.0, lambda nx, ny: aff_R(90)),
    # both axes mirrored at once = turned by 180 degrees: still a pure scale + translation
    "rot180": (1.0, lambda nx, ny: aff_mul(aff_T(nx, ny), aff_S(-1, -1))),
}
PLACE = ("far-", "touch-", "-3.25", "0", "+2.5", "+3", "touch+", "far+")
PLACE_THOROUGH = PLACE + ("+2^-11", "+2^-8", "-0.125")


def place_value(tok, n_dst, w_src):
    if tok == "far-":
        return -(w_src + 3.0)
    if tok == "touch-":
        return -float(w_src)
    if tok == "touch+":
        return float(n_dst)
    if tok == "far+":
        return n_dst + 3.0
    if tok == "+2^-11":
        return 2.0**-11
    if tok == "+2^-8":
        return 2.0**-8
    return float(tok)


def gen_pair_same():
    tier = _TIER[0]
    dbases = ("utm", "flipx", "rot30") if tier == "quick" else ("utm", "flipx", "yup", "rot30", "geo")
    dlayouts = ("8x8/4x4", "7x10/3x4", "8x10/var")
    slayouts = ("8x8/4x4", "7x10/3x4") if tier == "quick" else ("8x8/4x4", "7x10/3x4", "8x10/var")
    place = PLACE if tier == "quick" else PLACE_THOROUGH
    for dbase, dl, sl, kind in itertools.product(dbases, dlayouts, slayouts, SAME_KINDS):
        for px, py in itertools.product(place, place):
            yield (dbase, dl, sl, kind, px, py)


def run_pair_same(case):
    dbase, dl, sl, kind, px, py = case
    c = cfg(dbase, dl)
    Ad, epsg = c["A"], c["epsg"]
    (ny_d, nx_d), _ = LAYOUTS[dl]
    (ny_s, nx_s), _ = LAYOUTS[sl]
    s, mk = SAME_KINDS[kind]
    ox = place_value(px, nx_d, s * nx_s)
    oy = place_value(py, ny_d, s * ny_s)
    As = aff_mul(Ad, aff_mul(aff_T(ox, oy), mk(nx_s, ny_s)))
    dst = c["gbt"]
    src = mk_gbt(epsg, As, sl)
    D = c["F"]
    S = tile_polys(As, sl)
    pix = aff_pixarea(Ad)
    plen = aff_pixlen(Ad)
    Dfoot = Polygon([aff_apply(Ad, x, y) for x, y in rect_pts(*full_rect(dl))])
    Sfoot = Polygon([aff_apply(As, x, y) for x, y in rect_pts(*full_rect(sl))])
    relation = raster_relation(Dfoot, Sfoot, TOL_PX * plen, TOL_PX * pix)
    path = "general-same-crs" if kind in ("rot30", "rot90") else "linear"
    what = f"dst {dbase} {dl} / src {sl} {kind} offset ({ox},{oy}) dst px, src affine {As}"
    r = R()
    deps = dst.grid_intersect(src)
    nreq, nedges = judge_pairs(r, deps, D, S, pix, 1e-9, relation, path, kind, what)
    r.outcome = f"{path}:{relation}:req={'0' if nreq == 0 else 'n'}:edges={'0' if nedges == 0 else ('=' if nedges == nreq else '+')}"
    r.counts = {"edges_required": nreq, "edges_listed": nedges}
    return r


# ---- different CRS ------------------------------------------------------------------------------------
# id -> (dst epsg, dst origin, src epsg, src origin ~ image of the dst origin), resolutions fine / coarse
XPAIRS = {
    "3857->4326": (3857, (1600000.0, 7200000.0), 4326, (14.373, 54.157)),
    "4326->3857": (4326, (14.373, 54.157), 3857, (1600000.0, 7200000.0)),
    "3577->32755": (3577, (1500000.0, -3900000.0), 32755, (636826.0, 6144968.0)),
    "32755->3577": (32755, (636826.0, 6144968.0), 3577, (1500000.0, -3900000.0)),
}
XRES = {
    "fine": {3857: 100.0, 4326: 0.001, 3577: 25.0, 32755: 30.0},
    "coarse": {3857: 25000.0, 4326: 0.25, 3577: 25000.0, 32755: 30000.0},
}
XPLACE = ("far-", "near-", "-6.5", "-3.25", "0", "+2.5", "+5.5", "near+", "far+")


def gen_pair_cross():
    tier = _TIER[0]
    dlayouts = ("8x8/4x4", "8x10/var") if tier == "quick" else ("8x8/4x4", "7x10/3x4", "8x10/var")
    slayouts = ("8x8/4x4", "7x10/3x4")
    rots = (0,) if tier == "quick" else (0, 30)
    for pair, res, rot, dl, sl in itertools.product(XPAIRS, XRES, rots, dlayouts, slayouts):
        for px, py in itertools.product(XPLACE, XPLACE):
            yield (pair, res, rot, dl, sl, px, py)


def xplace_value(tok, lo, hi, n_src):
    if tok == "far-":
        v = lo - n_src - 3.0
    elif tok == "near-":
        v = lo - n_src - 0.5
    elif tok == "near+":
        v = hi + 0.5
    elif tok == "far+":
        v = hi + 3.0
    else:
        v = lo + float(tok)
    return round(v * 64) / 64


def run_pair_cross(case):
    pair, res, rot, dl, sl, px, py = case
    d_epsg, (dx0, dy0), s_epsg, (sx0, sy0) = XPAIRS[pair]
    rd, rs = XRES[res][d_epsg], XRES[res][s_epsg]
    Ad = (rd, 0.0, dx0, 0.0, -rd, dy0) if rot == 0 else _rot30(dx0, dy0, rd, -rd)
    (ny_s, nx_s), _ = LAYOUTS[sl]
    # where the destination raster lies in source pixels when the source origin is (sx0, sy0)
    As0 = (rs, 0.0, sx0, 0.0, -rs, sy0)
    dring = [aff_apply(Ad, x, y) for x, y in densify(rect_pts(*full_rect(dl)), NSIDE)]
    dring_s = project_pts(dring, d_epsg, s_epsg)
    us = [(X - sx0) / rs for X, _ in dring_s]
    vs = [(sy0 - Y) / rs for _, Y in dring_s]
    ox = xplace_value(px, min(us), max(us), nx_s)
    oy = xplace_value(py, min(vs), max(vs), ny_s)
    As = aff_mul(As0, aff_T(ox, oy))
    dst = mk_gbt(d_epsg, Ad, dl)
    src = mk_gbt(s_epsg, As, sl)
    D = tile_polys(Ad, dl)
    S = tile_polys_in(As, sl, s_epsg, d_epsg)  # source tiles in the destination CRS
    pix = aff_pixarea(Ad)
    Dfoot = Polygon([aff_apply(Ad, x, y) for x, y in rect_pts(*full_rect(dl))])
    sring = [aff_apply(As, x, y) for x, y in densify(rect_pts(*full_rect(sl)), NSIDE)]
    Sfoot = Polygon(project_pts(sring, s_epsg, d_epsg))
    # 'disjoint' is demanded only with a clear gap (a quarter of a destination pixel): the projected
    # outline is a 32-point-per-side approximation
    d = Dfoot.distance(Sfoot)
    if d > 0.25 * aff_pixlen(Ad):
        relation = "disjoint"
    elif d == 0 and Dfoot.intersection(Sfoot).area > 0.5 * pix:
        relation = "overlap"
    else:
        relation = "touch"
    what = f"dst EPSG:{d_epsg} {res} rot{rot} {dl} affine {Ad} / src EPSG:{s_epsg} {sl} affine {As}"
    r = R()
    deps = dst.grid_intersect(src)
    nreq, nedges = judge_pairs(r, deps, D, S, pix, 0.01, relation, "cross-crs", f"{pair}:{res}", what)
    r.outcome = (
        f"cross:{relation}:req={'0' if nreq == 0 else 'n'}:"
        f"edges={'0' if nedges == 0 else ('=' if nedges == nreq else '+')}:{'empty-dict' if not deps else 'keys'}"
    )
    r.counts = {"edges_required": nreq, "edges_listed": nedges}
    return r


# ---- different CRS, realistic chunk sizes ------------------------------------------------------------
# 2x2 tiles of 2048 px.  The number of tiles (hence the brute force) stays tiny, but a tile edge is long
# enough (50-60 km) for its image in the other CRS to be visibly curved.  The source is placed so that its
# internal tile corner falls on the image of one node of the destination tile grid, offset by a few
# fractions of a pixel: the "particular alignments of tile edges" the property is about.
BIG = "big/2048"
LAYOUTS[BIG] = ((4096, 4096), (2048, 2048))
NSIDE_BIG = 256
XBIG = {
    # id -> (dst epsg, dst affine, src epsg, src resolution)
    # ':sym' = first destination tile column symmetric about the central meridian of the projected CRS
    "32755->4326:sym": (32755, (30.0, 0.0, 500000.0 - 1024 * 30.0, 0.0, -30.0, 6144968.0), 4326, 0.00025),
    "32755->4326:gen": (32755, (30.0, 0.0, 636826.0, 0.0, -30.0, 6144968.0), 4326, 0.00025),
    "4326->32755:sym": (4326, (0.00025, 0.0, 147.0 - 1024 * 0.00025, 0.0, -0.00025, -34.75), 32755, 30.0),
    "4326->32755:gen": (4326, (0.00025, 0.0, 148.5, 0.0, -0.00025, -34.75), 32755, 30.0),
    "3577->4326:sym": (3577, (25.0, 0.0, -1024 * 25.0, 0.0, -25.0, -3900000.0), 4326, 0.00025),
    "3577->32755:gen": (3577, (25.0, 0.0, 1500000.0, 0.0, -25.0, -3900000.0), 32755, 30.0),
    "3857->4326:gen": (3857, (32.0, 0.0, 1600000.0, 0.0, -32.0, 7200000.0), 4326, 0.00025),
}
BIG_OFFS = (-1.5, -0.5, 0.0, 1.5)  # quick; thorough: 7 offsets incl. +0.5, +-3


def gen_pair_big():
    tier = _TIER[0]
    offs = BIG_OFFS if tier == "quick" else (-3.0, -1.5, -0.5, 0.0, 0.5, 1.5, 3.0)
    nodes = (0, 2048, 4096)
    # which source grid node is pinned: the internal tile corner, or an outer corner (rasters that overlap
    # by a strip a few pixels wide / touch / miss each other)
    anchors = ((2048, 2048), (0, 0), (4096, 4096)) if tier == "quick" else tuple(itertools.product(nodes, nodes))
    for cid in XBIG:
        for (ax, ay), nx, ny in itertools.product(anchors, nodes, nodes):
            for dx, dy in itertools.product(offs, offs):
                yield (cid, ax, ay, nx, ny, dx, dy)


def run_pair_big(case):
    cid, ax, ay, nx, ny, dx, dy = case
    d_epsg, Ad, s_epsg, rs = XBIG[cid]
    ((sx, sy),) = project_pts([aff_apply(Ad, nx, ny)], d_epsg, s_epsg)
    # source pixel (ax+dx, ay+dy) - one of its tile-grid nodes, shifted - lies on the image of the dst node
    As = (rs, 0.0, sx - (ax + dx) * rs, 0.0, -rs, sy + (ay + dy) * rs)
    dst = mk_gbt(d_epsg, Ad, BIG)
    src = mk_gbt(s_epsg, As, BIG)
    D = tile_polys(Ad, BIG)
    S = {}
    for idx, rc in tile_rects(BIG).items():
        w = [aff_apply(As, x, y) for x, y in densify(rect_pts(*rc), NSIDE_BIG)]
        S[idx] = Polygon(project_pts(w, s_epsg, d_epsg))
    pix = aff_pixarea(Ad)
    Dfoot = Polygon([aff_apply(Ad, x, y) for x, y in rect_pts(*full_rect(BIG))])
    sring = [aff_apply(As, x, y) for x, y in densify(rect_pts(*full_rect(BIG)), 2 * NSIDE_BIG)]
    Sfoot = Polygon(project_pts(sring, s_epsg, d_epsg))
    d = Dfoot.distance(Sfoot)
    if d > 0.25 * aff_pixlen(Ad):
        relation = "disjoint"
    elif d == 0 and Dfoot.intersection(Sfoot).area > 0.55 * pix:
        relation = "overlap"
    else:
        relation = "touch"
    what = f"dst EPSG:{d_epsg} affine {Ad} / src EPSG:{s_epsg} affine {As}, both 4096x4096 in 2048-px tiles"
    r = R()
    deps = dst.grid_intersect(src)
    # 10% head-room on the half-pixel threshold: residual curvature of a 1/256 edge piece is < 0.04 px^2
    nreq, nedges = judge_pairs(r, deps, D, S, pix, 0.10, relation, "cross-crs", f"big-tiles:{cid.split(':')[1]}", what)
    anchor = "inner" if (ax, ay) == (2048, 2048) else "outer"
    r.outcome = f"cross-big:{cid.split(':')[1]}:{anchor}:{relation}:req={nreq}:edges={'=' if nedges == nreq else '+'}"
    r.counts = {"edges_required": nreq, "edges_listed": nedges}
    return r


# =================================================================================================
# many-vertex queries in another CRS on rasters with many tiles
# =================================================================================================
# The query's extreme point in the raster's CRS is NOT a corner of the query's own bounding box: the
# north/south side of a lon/lat box is an arc in Albers / UTM (highest at the central meridian), the
# constant-northing side of a projected box is an arc in lon/lat.  The rasters are large enough (500-800 km)
# for that bulge (8-30 px) to cross tile boundaries; the pinned side is placed a few pixels beyond / short
# of an internal tile boundary at the central meridian.
LAYOUTS["2560x3072/256"] = ((2560, 3072), (256, 256))
LAYOUTS["4096x5120/512"] = ((4096, 5120), (512, 512))
DENSE = {
    # id -> raster epsg, affine, layout, query epsg, pixel column of the projection's central meridian,
    #       query half-widths in query-CRS units
    "albers": (3577, (250.0, 0.0, -400000.0, 0.0, -250.0, -2850000.0), "2560x3072/256", 4326, 1600.0, (1.0, 2.5)),
    "utm": (32755, (100.0, 0.0, 240000.0, 0.0, -100.0, 6350000.0), "4096x5120/512", 4326, 2600.0, (1.0, 2.5)),
    "geo-albers": (4326, (0.0025, 0.0, 128.0, 0.0, -0.0025, -26.0), "2560x3072/256", 3577, 1600.0, (100e3, 250e3)),
    "geo-utm": (4326, (0.001, 0.0, 144.4, 0.0, -0.001, -33.0), "4096x5120/512", 32755, 2600.0, (100e3, 200e3)),
}
DENSE_KINDS = ("dense-box", "apex-tri", "dense-apex-tri")
DENSE_NSIDE = 64
DENSE_OVERSHOOT = (6.0, 2.0, 0.5, -2.0)  # pixels by which the pinned side's extreme point passes the tile boundary
DENSE_ASYM = (0.0, 0.6)  # the box reaches (1-a)*hw to the west and (1+a)*hw to the east of the central meridian
_DENSE_CFG = {}


def dense_cfg(rid):
    c = _DENSE_CFG.get(rid)
    if c is None:
        epsg, A6, layout, qepsg, pin_col, hws = DENSE[rid]
        c = dict(gbt=mk_gbt(epsg, A6, layout), F=tile_polys(A6, layout),
                 F2=tile_polys_in(A6, layout, epsg, qepsg))
        a0 = c["F2"][(0, 0)].area / _rect_area(tile_rects(layout)[(0, 0)])
        c["tol2"] = TOL_PX * math.sqrt(a0)
        _DENSE_CFG[rid] = c
    return c


def gen_dense():
    tier = _TIER[0]
    asym = DENSE_ASYM if tier == "quick" else DENSE_ASYM + (1.5,)
    over = DENSE_OVERSHOOT if tier == "quick" else DENSE_OVERSHOOT + (12.0, 0.0625)
    bnds = (2, 5) if tier == "quick" else (1, 2, 5, 7)
    for rid in DENSE:
        for kind, hwi, a, side, bi, o in itertools.product(DENSE_KINDS, (0, 1), asym, ("N", "S"), bnds, over):
            yield (rid, kind, hwi, a, side, bi, o)


def run_dense(case):
    rid, kind, hwi, a, side, bi, o = case
    epsg, A6, layout, qepsg, pin_col, hws = DENSE[rid]
    c = dense_cfg(rid)
    gbt, F, F2 = c["gbt"], c["F"], c["F2"]
    yo, _ = layout_offsets(layout)
    th = yo[1] - yo[0]
    yb = yo[bi]
    # the pinned side passes through pixel (pin_col, pin_row); the query extends 1.4 tiles to the other side
    if side == "N":
        pin_row, far_row = yb - o, yb - o + 1.4 * th
    else:
        pin_row, far_row = yb + o, yb + o - 1.4 * th
    (qx, qy), (_, qy_far) = project_pts(
        [aff_apply(A6, pin_col, pin_row), aff_apply(A6, pin_col, far_row)], epsg, qepsg
    )
    hw = hws[hwi]
    xl, xr = qx - (1 - a) * hw, qx + (1 + a) * hw
    if kind == "dense-box":
        pts = densify(rect_pts(xl, min(qy, qy_far), xr, max(qy, qy_far)), DENSE_NSIDE)
    else:
        # the apex sits on the pinned side at the central meridian (or at the nearest end of the side)
        ax = min(max(qx, xl), xr)
        pts = [(ax, qy), (xl, qy_far), (xr, qy_far)]
        if kind == "dense-apex-tri":
            pts = densify(pts, DENSE_NSIDE)
    what = (f"{rid} EPSG:{epsg} {layout}: {kind} in EPSG:{qepsg}, {side} side through pixel ({pin_col},{pin_row}), "
            f"x [{xl!r},{xr!r}] y [{qy!r},{qy_far!r}], {len(pts)} vertices")
    r = R()
    g = geom.polygon(pts + [pts[0]], f"EPSG:{qepsg}")
    got = as_idx_set(gbt.tiles(g), r, "tiles:geometry:other-crs:many-tiles", what)
    readings = [
        (F, Polygon(project_pts(pts, qepsg, epsg)), TOL_PX * aff_pixlen(A6)),
        (F2, Polygon(pts), c["tol2"]),
    ]
    nreq, nband = _judge_sets(
        r, readings, list(F), got,
        f"tiles:geometry:missing:other-crs:many-tiles:{kind}",
        f"tiles:geometry:extra:other-crs:many-tiles:{kind}",
        what, exact=True,
    )
    # does the bulge matter here?  rows of tiles required beyond the boundary
    rows = {i[0] for i in got}
    beyond = (bi - 1 in rows) if side == "N" else (bi in rows)
    r.outcome = f"dense:{rid}:{side}:{'past-boundary' if beyond else 'short'}:{'touch' if nband else 'clean'}"
    r.counts = {"dense_required_tiles": nreq}
    return r


# =================================================================================================
# same CRS, nearly aligned grids on long rasters
# =================================================================================================
# source = destination seen through a tiny rotation or shear (terms 1e-6 .. 5e-3, both signs) about the
# raster's centre or corner.  Over 20 000 px the drift is 0.02 .. 100 px, so the tile a destination tile
# depends on changes along the raster; a "pure scale + translation" shortcut is wrong for every one of them.
LAYOUTS["2048x40000/512x2048"] = ((2048, 40000), (512, 2048))
LAYOUTS["2048x40000/1024x1000"] = ((2048, 40000), (1024, 1000))
LAYOUTS["40000x2048/2048x512"] = ((40000, 2048), (2048, 512))
LAYOUTS["40000x2048/1000x1024"] = ((40000, 2048), (1000, 1024))
DRIFT_ORIENT = {
    "wide": ("2048x40000/512x2048", ("2048x40000/512x2048", "2048x40000/1024x1000")),
    "tall": ("40000x2048/2048x512", ("40000x2048/2048x512", "40000x2048/1000x1024")),
}
LAYOUTS["2000x2000/500"] = ((2000, 2000), (500, 500))
LAYOUTS["2000x2000/var"] = ((2000, 2000), ((512, 256, 512, 720), (720, 512, 256, 512)))
DRIFT_ORIENT["square"] = ("2000x2000/500", ("2000x2000/500", "2000x2000/var"))
DRIFT_TERMS = (1e-6, 1e-5, 1e-4, 5e-4, 8.7e-4, 1e-3, 5e-3)  # 8.7e-4 = 0.05 degrees
DRIFT_TERMS_WINDOW = (0.9e-8, 1.1e-8, 0.9e-10, 1.1e-10)  # both sides of snap_affine / is_affine_st tolerances
DRIFT_KINDS = ("rotation", "shear-x", "shear-y")


def gen_drift():
    tier = _TIER[0]
    dbases = ("utm",) if tier == "quick" else ("utm", "flipx", "rot30", "geo-tiny")
    tt = DRIFT_TERMS if tier == "quick" else DRIFT_TERMS + DRIFT_TERMS_WINDOW
    terms = [sg * t for t in tt for sg in (1, -1)]
    for dbase, orient, si, kind, t, pivot in itertools.product(
        dbases, DRIFT_ORIENT, (0, 1), DRIFT_KINDS, terms, ("centre", "corner")
    ):
        yield (dbase, orient, si, kind, t, pivot)


def run_drift(case):
    dbase, orient, si, kind, t, pivot = case
    dl, sls = DRIFT_ORIENT[orient]
    sl = sls[si]
    _, Ad, _ = BASES[dbase]
    epsg = BASES[dbase][0]
    (ny, nx), _ = LAYOUTS[dl]
    if kind == "rotation":
        P = (math.sqrt(1 - t * t), -t, 0.0, t, math.sqrt(1 - t * t), 0.0)
    elif kind == "shear-x":
        P = (1.0, t, 0.0, 0.0, 1.0, 0.0)
    else:
        P = (1.0, 0.0, 0.0, t, 1.0, 0.0)
    if pivot == "centre":
        M = aff_mul(aff_T(nx / 2, ny / 2), aff_mul(P, aff_T(-nx / 2, -ny / 2)))
    else:
        M = P
    As = aff_mul(Ad, M)  # source pixel -> world; M: source pixel -> destination pixel
    dst = mk_gbt(epsg, Ad, dl)
    src = mk_gbt(epsg, As, sl)
    # exact footprints in the destination pixel plane (pixel area 1)
    D = {i: sbox(*rc) for i, rc in tile_rects(dl).items()}
    S = {j: Polygon([aff_apply(M, x, y) for x, y in rect_pts(*rc)]) for j, rc in tile_rects(sl).items()}
    drift = abs(t) * max(nx, ny) / (2 if pivot == "centre" else 1)
    what = (f"dst {dbase} {dl} / src {sl} = dst through {kind} term {t!r} about the {pivot} "
            f"(drift {drift:.3g} px), src affine {As}")
    r = R()
    deps = dst.grid_intersect(src)
    # what odc-geo documents as "aligned" (snap_affine: translation 1e-3 px, scale 1e-6, rotation 1e-8) may move
    # an edge by that much over the raster length: thinner overlaps are slivers
    w_snap = 2 * (1e-3 + (1e-6 + 1e-8) * max(nx, ny))
    nreq, nedges = judge_pairs(r, deps, D, S, 1.0, 1e-6, "overlap", "same-crs-nearly-aligned", kind, what,
                               min_width=w_snap)
    dcls = "<0.5px" if drift < 0.5 else ("<5px" if drift < 5 else ">=5px")
    r.outcome = f"drift:{kind}:{dcls}:edges={'=' if nedges == nreq else '+'}"
    r.counts = {"edges_required": nreq, "edges_listed": nedges}
    return r


# =================================================================================================
# same pixel grid, every ordered pair of tile layouts
# =================================================================================================
# "tile k has the same shape on both sides" does not mean "covers the same pixels" once chunks are irregular.
# Menu entries: int = regular tile size (odc.geo.roi.Tiles when both axes are ints), tuple = explicit chunks.
MENU_Y = (10, (5, 10, 15), (15, 10, 5), (10, 5, 15), (12, 8, 10), 30, 6, (1, 28, 1),
          (12, 4, 4, 10), (10, 0, 20), (4, 4, 4, 18))  # 30-px axis
MENU_X = (8, (4, 8, 12), (12, 8, 4), 24, 6, (2, 20, 2), (12, 0, 12), (3, 21))  # 24-px axis
MENU_SHAPE = (30, 24)
# relation of the source pixel grid to the destination's: (scale of a source pixel in dst pixels, shift in dst px)
MENU_REL = {"identical": (1.0, 0.0, 0.0), "shift": (1.0, 3.0, -2.0), "scale2": (2.0, 0.0, 0.0),
            "scale-half": (0.5, 0.0, 0.0), "scale2-shift": (2.0, -7.0, 4.0)}


def _chunks(item, n):
    if isinstance(item, tuple):
        assert sum(item) == n
        return item
    return tuple(min(item, n - k) for k in range(0, n, item))


def menu_tiling(ly, lx):
    """Argument for GeoboxTiles + (row offsets, column offsets) + class label."""
    ny, nx = MENU_SHAPE
    cy, cx = _chunks(ly, ny), _chunks(lx, nx)
    how = (ly, lx) if isinstance(ly, int) and isinstance(lx, int) else (cy, cx)

    def irregular(c):
        return not (len(set(c[:-1])) <= 1 and (len(c) == 1 or c[-1] <= c[0]))

    cls = "irregular" if irregular(cy) or irregular(cx) else "regular"
    return how, offsets(ny, cy), offsets(nx, cx), cls


def gen_layouts():
    tier = _TIER[0]
    rels = ("identical", "shift", "scale2", "scale-half") if tier == "quick" else tuple(MENU_REL)
    lay = list(itertools.product(range(len(MENU_Y)), range(len(MENU_X))))
    for rel in rels:
        for (dy, dx), (sy, sx) in itertools.product(lay, lay):
            yield (rel, dy, dx, sy, sx)


def run_layouts(case):
    rel, dy, dx, sy, sx = case
    ny, nx = MENU_SHAPE
    dhow, dyo, dxo, dcls = menu_tiling(MENU_Y[dy], MENU_X[dx])
    show, syo, sxo, scls = menu_tiling(MENU_Y[sy], MENU_X[sx])
    sc, ox, oy = MENU_REL[rel]
    epsg, Ad, _ = BASES["utm"]
    As = aff_mul(Ad, aff_mul(aff_T(ox, oy), aff_S(sc, sc)))
    crs = f"EPSG:{epsg}"
    dst = GeoboxTiles(GeoBox(MENU_SHAPE, Affine(*Ad), crs), dhow)
    src = GeoboxTiles(GeoBox(MENU_SHAPE, Affine(*As), crs), show)
    eq = "equal" if (len(dyo), len(dxo)) == (len(syo), len(sxo)) else "unequal"
    cls = f"{rel}:{dcls}-vs-{scls}:{eq}-tile-count"
    what = (f"{rel}: dst chunks {_chunks(MENU_Y[dy], ny)} x {_chunks(MENU_X[dx], nx)} / src chunks "
            f"{_chunks(MENU_Y[sy], ny)} x {_chunks(MENU_X[sx], nx)} on {ny}x{nx} px, src pixel = {sc} dst px, shift ({ox},{oy})")
    r = R()
    deps = dst.grid_intersect(src)
    dt = {(i, j) for i in range(len(dyo) - 1) for j in range(len(dxo) - 1)}
    st = {(i, j) for i in range(len(syo) - 1) for j in range(len(sxo) - 1)}
    norm = check_deps_structure(r, deps, dt, st, "linear:layouts", what)
    nreq = nedges = 0
    if norm is not None:
        # exact arithmetic: integer pixel rectangles, scale 1/2, 1 or 2, integer shifts
        sxs = [(ox + sc * sxo[j], ox + sc * sxo[j + 1]) for j in range(len(sxo) - 1)]
        sys_ = [(oy + sc * syo[i], oy + sc * syo[i + 1]) for i in range(len(syo) - 1)]
        for (iy, ix) in sorted(dt):
            listed = norm.get((iy, ix), set())
            for jy, (ya, yb) in enumerate(sys_):
                hy = min(dyo[iy + 1], yb) - max(dyo[iy], ya)
                if hy <= 0:
                    continue
                for jx, (xa, xb) in enumerate(sxs):
                    wx = min(dxo[ix + 1], xb) - max(dxo[ix], xa)
                    if wx > 0 and wx * hy > 0.5:
                        nreq += 1
                        if (jy, jx) not in listed:
                            stage = "dst-tile-absent" if (iy, ix) not in norm else "src-tile-unlisted"
                            r.fail(f"grid_intersect:missing-edge:linear:layouts:{cls}:{stage}",
                                   f"{what}: dst tile {(iy, ix)} overlaps src tile {(jy, jx)} by {wx * hy} dst pixels, "
                                   f"listed {sorted(listed)}")
        nedges = sum(len(v) for v in norm.values())
    r.outcome = f"layouts:{cls}:edges={'=' if nedges == nreq else '+'}"
    r.counts = {"edges_required": nreq, "edges_listed": nedges}
    return r


# =================================================================================================
# history: equal rasters tiled two different ways, used one after the other in one process
# =================================================================================================
# Anything remembered per raster (footprints, ranges, ...) must not leak from one tiling to the other.  Every
# case uses a raster of its own (origin shifted by the case number), so that whatever is remembered about it
# was put there by the first tiling of this very case; first tiling, then second, then the first again.
HIST_LAYOUTS = ((0, 0), (1, 1), (2, 2), (6, 4))  # indices into MENU_Y x MENU_X: 10x8, two irregular, 6x6
HIST_OPS = ("geom-same-crs", "geom-other-crs", "grid-general")
HIST_XI = (5.0, 11.0, 26.0)
HIST_YI = (-2.0, 16.0, 32.0)


def gen_history():
    k = 0
    for base, (la, lb), op, inst in itertools.product(
        ("utm", "rot30"), itertools.permutations(range(len(HIST_LAYOUTS)), 2), HIST_OPS, ("same-object", "equal-objects")
    ):
        k += 1
        yield (k, base, la, lb, op, inst)


def run_history(case):
    k, base, la, lb, op, inst = case
    epsg, A0, bcls = BASES[base]
    Ad = aff_mul(aff_T(1000.0 * k, -500.0 * k), A0)  # a raster no other case uses
    crs = f"EPSG:{epsg}"
    ny, nx = MENU_SHAPE
    r = R()
    tilings = []
    g0 = GeoBox(MENU_SHAPE, Affine(*Ad), crs)
    for li in (la, lb):
        how, yo, xo, _ = menu_tiling(MENU_Y[HIST_LAYOUTS[li][0]], MENU_X[HIST_LAYOUTS[li][1]])
        gbox = g0 if inst == "same-object" else GeoBox(MENU_SHAPE, Affine(*Ad), crs)
        rects = {(i, j): (xo[j], yo[i], xo[j + 1], yo[i + 1]) for i in range(len(yo) - 1) for j in range(len(xo) - 1)}
        tilings.append((GeoboxTiles(gbox, how), rects, how))
    passes = (("first-tiling", tilings[0]), ("second-tiling", tilings[1]), ("first-tiling-again", tilings[0]))
    nreq_all = 0
    if op.startswith("geom"):
        qepsg = epsg if op == "geom-same-crs" else 4326
        tol1 = TOL_PX * aff_pixlen(Ad)
        queries = []
        for kind in ("box", "tri1"):
            for (xa, xb), (ya, yb) in itertools.product(intervals(HIST_XI), intervals(HIST_YI)):
                W = [aff_apply(Ad, x, y) for x, y in query_pts(kind, xa, xb, ya, yb)]
                queries.append((kind, xa, xb, ya, yb, project_pts(W, epsg, qepsg)))
        for label, (gbt, rects, how) in passes:
            F = {i: Polygon([aff_apply(Ad, x, y) for x, y in rect_pts(*rc)]) for i, rc in rects.items()}
            if qepsg != epsg:
                F2 = {i: Polygon(project_pts([aff_apply(Ad, x, y) for x, y in densify(rect_pts(*rc), NSIDE)], epsg, qepsg))
                      for i, rc in rects.items()}
                tol2 = TOL_PX * math.sqrt(F2[(0, 0)].area / _rect_area(rects[(0, 0)]))
            for kind, xa, xb, ya, yb, Qpts in queries:
                what = (f"{base}+{k} tiling {how} ({label}; other tiling of the same raster used "
                        f"{'before' if label != 'first-tiling' else 'after'}) query {kind} px x[{xa},{xb}] y[{ya},{yb}] "
                        f"in EPSG:{qepsg}")
                got = as_idx_set(gbt.tiles(geom.polygon(Qpts + [Qpts[0]], f"EPSG:{qepsg}")), r,
                                 f"history:tiles:geometry:{label}", what)
                if qepsg == epsg:
                    rd = [(F, Polygon(Qpts), tol1)]
                else:
                    rd = [(F, Polygon(project_pts(Qpts, qepsg, epsg)), tol1), (F2, Polygon(Qpts), tol2)]
                nreq, _ = _judge_sets(r, rd, list(F), got,
                                      f"history:tiles:geometry:{op}:missing:{label}",
                                      f"history:tiles:geometry:{op}:extra:{label}", what, exact=True)
                nreq_all += nreq
    else:
        # general path against a raster rotated by 30 degrees, in both directions
        Ar = aff_mul(Ad, aff_mul(aff_T(7.0, 5.0), aff_R(30)))
        rlay = "8x10/var"
        rot = mk_gbt(epsg, Ar, rlay)
        RP = tile_polys(Ar, rlay)
        pix = aff_pixarea(Ad)
        for label, (gbt, rects, how) in passes:
            F = {i: Polygon([aff_apply(Ad, x, y) for x, y in rect_pts(*rc)]) for i, rc in rects.items()}
            what = f"{base}+{k} tiling {how} ({label}) vs raster rotated 30 deg {rlay}"
            n1, _ = judge_pairs(r, gbt.grid_intersect(rot), F, RP, pix, 1e-9, "overlap",
                                f"history:general-same-crs:as-dst:{label}", "rot30", what)
            n2, _ = judge_pairs(r, rot.grid_intersect(gbt), RP, F, pix, 1e-9, "overlap",
                                f"history:general-same-crs:as-src:{label}", "rot30", what)
            nreq_all += n1 + n2
    r.outcome = f"history:{op}:{bcls}:{inst}:{'judged' if nreq_all else 'nothing-required'}"
    r.counts = {"history_required": nreq_all}
    return r


# =================================================================================================
# query geometries of every type (points, lines, collections, polygons with holes)
# =================================================================================================
# Oracle in the pixel plane with exact rationals: all query coordinates and tile edges are dyadic.
#   REQUIRED  - the geometry has a point strictly inside the tile's open rectangle
#   FORBIDDEN - the geometry is disjoint from the closed rectangle
#   otherwise (boundary contact only: a line through a tile corner, a point on an edge, a tile that exactly
#   fills a hole) neither.  Where the pixel->query mapping is not exact in binary64 (rotated raster, query in
#   EPSG:4326, where in addition "straight" has two readings) the rectangle is shrunk / grown by 2^-10 px
#   first; every non-zero clearance in this alphabet is > 4e-3 px.
from fractions import Fraction as _Fr  # noqa: E402

GT_CFGS = {
    # tiling kind -> (base, layout)
    "regular": ("utm", "8x8/4x4"),
    "variable": ("utm", "8x10/var"),
    "rotated": ("rot30", "8x10/var"),
    "south-up": ("yup", "7x10/3x4"),
}
GT_DELTA = _Fr(1, 1024)


def _gt_axis(off):
    n = off[-1]
    vals = {_Fr(-3, 2), _Fr(n) + _Fr(3, 2)}
    vals.update(_Fr(e) for e in off)
    vals.update(_Fr(e) + _Fr(3, 4) for e in off[:-1])
    return sorted(vals)


def gt_points(layout):
    yo, xo = layout_offsets(layout)
    return [(x, y) for y in _gt_axis(yo) for x in _gt_axis(xo)]


def gt_menu(layout):
    """Small menu for 3-part geometries: interiors of the four extreme tiles, an inner tile corner, points on an
    inner edge and on the raster edge, two points outside."""
    yo, xo = layout_offsets(layout)
    q = _Fr(3, 4)
    xi, yi = _Fr(xo[1]), _Fr(yo[1])
    return [
        (xo[0] + q, yo[0] + q), (xo[-2] + q, yo[0] + q), (xo[0] + q, yo[-2] + q), (xo[-2] + q, yo[-2] + q),
        (xi, yi), (xi, yo[0] + q), (_Fr(xo[-1]), yo[-2] + q), (_Fr(-3, 2), yo[0] + q), (xo[-1] + _Fr(3, 2), yo[-1] + _Fr(3, 2)),
    ]


def _grow(rc, d):
    return (rc[0] - d, rc[1] - d, rc[2] + d, rc[3] + d)


def pt_in_open(p, rc):
    return rc[0] < p[0] < rc[2] and rc[1] < p[1] < rc[3]


def pt_in_closed(p, rc):
    return rc[0] <= p[0] <= rc[2] and rc[1] <= p[1] <= rc[3]


def seg_hits(p, q, rc, open_):
    """Exact: does the closed segment pq meet the (open / closed) rectangle."""
    if p == q:
        return pt_in_open(p, rc) if open_ else pt_in_closed(p, rc)
    lo, hi = _Fr(0), _Fr(1)  # closed parameter range; strict bounds tracked separately for the open rectangle
    slo, shi = None, None
    for a, d, mn, mx in ((p[0], q[0] - p[0], rc[0], rc[2]), (p[1], q[1] - p[1], rc[1], rc[3])):
        if d == 0:
            if open_:
                if not mn < a < mx:
                    return False
            elif not mn <= a <= mx:
                return False
            continue
        t1, t2 = (mn - a) / d, (mx - a) / d
        if t1 > t2:
            t1, t2 = t2, t1
        if open_:
            slo = t1 if slo is None else max(slo, t1)
            shi = t2 if shi is None else min(shi, t2)
        else:
            lo, hi = max(lo, t1), min(hi, t2)
    if not open_:
        return lo <= hi
    if slo is None:  # both deltas zero is handled above
        return True
    return slo < shi and slo < 1 and shi > 0


def part_cls(part, rc, delta):
    """'req' / 'forb' / 'band' for one part against one tile rectangle (exact)."""
    kind = part[0]
    rin, rout = _grow(rc, -delta), _grow(rc, delta)
    if kind == "pt":
        if pt_in_open(part[1], rin):
            return "req"
        return "band" if pt_in_closed(part[1], rout) else "forb"
    if kind == "line":
        pts = part[1]
        segs = list(zip(pts[:-1], pts[1:]))
        if any(seg_hits(a, b, rin, True) for a, b in segs):
            return "req"
        return "band" if any(seg_hits(a, b, rout, False) for a, b in segs) else "forb"
    if kind == "holed":  # closed outer rectangle minus the open hole rectangle
        O, H = part[1], part[2]
        r1 = (max(rin[0], O[0]), max(rin[1], O[1]), min(rin[2], O[2]), min(rin[3], O[3]))
        if r1[0] < r1[2] and r1[1] < r1[3]:
            if H is None or not (H[0] <= r1[0] and r1[2] <= H[2] and H[1] <= r1[1] and r1[3] <= H[3]):
                return "req"
        r2 = (max(rout[0], O[0]), max(rout[1], O[1]), min(rout[2], O[2]), min(rout[3], O[3]))
        if r2[0] > r2[2] or r2[1] > r2[3]:
            return "forb"
        if H is not None and H[0] < r2[0] and r2[2] < H[2] and H[1] < r2[1] and r2[3] < H[3]:
            return "forb"
        return "band"
    raise ValueError(kind)


def _gt_shapely(part, fwd):
    from shapely.geometry import LineString, Point  # pylint: disable=import-outside-toplevel

    if part[0] == "pt":
        return Point(fwd([part[1]])[0])
    if part[0] == "line":
        return LineString(fwd(part[1]))
    O, H = part[1], part[2]
    outer = fwd(rect_pts(*O))
    holes = [] if H is None else [fwd(rect_pts(*H))[::-1]]
    return Polygon(outer, holes)


def gt_build(gtype, parts, fwd):
    from shapely.geometry import GeometryCollection, MultiLineString, MultiPoint  # pylint: disable=import-outside-toplevel

    shp = [_gt_shapely(pt, fwd) for pt in parts]
    if gtype in ("Point", "LineString", "Polygon-with-hole"):
        assert len(shp) == 1
        return shp[0]
    if gtype == "MultiPoint":
        return MultiPoint(shp)
    if gtype == "MultiLineString":
        return MultiLineString(shp)
    if gtype == "GeometryCollection":
        return GeometryCollection(shp)
    raise ValueError(gtype)


def gt_judge(r, tiling, qc, geoms):
    """geoms: list of (geometry type, parts, description). One call of tiles() per entry."""
    base, layout = GT_CFGS[tiling]
    c = cfg(base, layout)
    gbt, A6, epsg = c["gbt"], c["A"], c["epsg"]
    qepsg = epsg if qc == "same" else 4326
    exact = qc == "same" and base in ("utm", "yup", "flipx")
    delta = _Fr(0) if exact else GT_DELTA
    rects = tile_rects(layout)

    def fwd(pts):
        return project_pts([aff_apply(A6, float(x), float(y)) for x, y in pts], epsg, qepsg)

    nreq = nband = ngot = 0
    for gtype, parts, desc in geoms:
        g = geom.Geometry(gt_build(gtype, parts, fwd), f"EPSG:{qepsg}")
        what = f"{tiling} ({base} {layout}) {gtype} {desc} [pixel coordinates] given in EPSG:{qepsg}"
        key = f"tiles:{gtype}:{tiling}:{qc}-crs"
        got = as_idx_set(gbt.tiles(g), r, key, what)
        ngot += len(got)
        bad = sorted(got - set(rects))
        if bad:
            r.fail(f"{key}:index-out-of-range", f"{what}: {bad}")
        for idx, rc in rects.items():
            cls = [part_cls(pt, rc, delta) for pt in parts]
            if "req" in cls:
                nreq += 1
                if idx not in got:
                    r.fail(f"{key}:missing", f"{what}: passes through the interior of tile {idx} {rc} but got {sorted(got)}")
            elif all(k == "forb" for k in cls):
                if idx in got:
                    r.fail(f"{key}:extra", f"{what}: does not meet tile {idx} {rc} but got {sorted(got)}")
            else:
                nband += 1
    return nreq, nband, ngot


def _fmt(pts):
    return "[" + ", ".join(f"({float(x):g},{float(y):g})" for x, y in pts) + "]"


def gen_gt_pairs():
    for tiling, (_, layout) in GT_CFGS.items():
        n = len(gt_points(layout))
        for qc in ("same", "other"):
            for i in range(n):
                for j in range(i, n):
                    yield (tiling, qc, i, j)


def run_gt_pairs(case):
    tiling, qc, i, j = case
    P = gt_points(GT_CFGS[tiling][1])
    a, b = P[i], P[j]
    r = R()
    if i == j:
        geoms = [("Point", [("pt", a)], _fmt([a])), ("MultiPoint", [("pt", a)], _fmt([a]))]
    else:
        geoms = [
            ("LineString", [("line", [a, b])], _fmt([a, b])),
            ("MultiPoint", [("pt", a), ("pt", b)], _fmt([a, b])),
        ]
    nreq, nband, ngot = gt_judge(r, tiling, qc, geoms)
    r.outcome = f"types:{'point' if i == j else 'segment+2points'}:req={bucket(nreq, -1)}:{'touch' if nband else 'clean'}:got={bucket(ngot, -1)}"
    return r


def gen_gt_multi():
    for tiling, (_, layout) in GT_CFGS.items():
        m = len(gt_menu(layout))
        for qc in ("same", "other"):
            for i, j, k in itertools.permutations(range(m), 3):
                if i < k:
                    yield (tiling, qc, "triple", i, j, k)
            ntile = len(tile_rects(layout))
            for t, mi, oi in itertools.product(range(ntile), range(5), range(2)):
                yield (tiling, qc, "hole", t, mi, oi)


HOLE_MARGINS = (_Fr(1, 2), _Fr(1, 4), _Fr(0), _Fr(-1, 4), None)  # hole = tile grown by m; None = no hole


def run_gt_multi(case):
    tiling, qc, what, i, j, k = case
    layout = GT_CFGS[tiling][1]
    r = R()
    if what == "triple":
        M = gt_menu(layout)
        a, b, c_ = M[i], M[j], M[k]
        node = M[4]
        geoms = [
            ("LineString", [("line", [a, b, c_])], _fmt([a, b, c_])),
            ("MultiPoint", [("pt", a), ("pt", b), ("pt", c_)], _fmt([a, b, c_])),
            ("MultiLineString", [("line", [a, b]), ("line", [c_, node])] if c_ != node else [("line", [a, b]), ("line", [b, c_])],
             _fmt([a, b]) + " + " + _fmt([c_, node])),
            ("GeometryCollection", [("pt", a), ("line", [b, c_])], "Point " + _fmt([a]) + " + LineString " + _fmt([b, c_])),
        ]
    else:
        rects = tile_rects(layout)
        rc = rects[sorted(rects)[i]]
        (ny, nx), _ = LAYOUTS[layout]
        m = HOLE_MARGINS[j]
        if k == 0:
            O = (_Fr(-3, 2), _Fr(-3, 2), nx + _Fr(3, 2), ny + _Fr(3, 2))
        else:  # outer ring hugging the raster: its boundary runs along the outer tile edges
            O = (_Fr(-1, 2), _Fr(-1, 2), nx + _Fr(1, 2), ny + _Fr(1, 2))
        H = None if m is None else tuple(_Fr(v) for v in _grow(rc, m))
        if H is not None and not (O[0] < H[0] and H[2] < O[2] and O[1] < H[1] and H[3] < O[3]):
            H = None  # hole would cut the outer ring: plain polygon
        geoms = [
            ("Polygon-with-hole", [("holed", O, H)], f"outer {tuple(map(float, O))} hole {None if H is None else tuple(map(float, H))}"),
            ("GeometryCollection", [("holed", O, H), ("pt", (rc[0] + _Fr(3, 4), rc[1] + _Fr(3, 4)))],
             f"holed polygon + Point inside tile {sorted(rects)[i]}"),
        ]
    nreq, nband, ngot = gt_judge(r, tiling, qc, geoms)
    r.outcome = f"types:{what}:req={bucket(nreq, -1)}:{'touch' if nband else 'clean'}:got={bucket(ngot, -1)}"
    return r


# =================================================================================================
# self-review additions (lessons of the seeding rounds)
# =================================================================================================
import copy as _copy  # noqa: E402

import numpy as np  # noqa: E402
import shapely.geometry as _sg  # noqa: E402

from odc.geo import shape_, wh_  # noqa: E402


def classify_any(F, Q, tol):
    """Query of any dimension: 'in' when it reaches more than tol into the tile, 'out' when farther than tol."""
    if F.distance(Q) > tol:
        return "out"
    if F.area > 0 and F.buffer(-tol).intersects(Q):
        return "in"
    return "band"


# ---- empty queries ----------------------------------------------------------------------------------
EMPTY_TYPES = ("Polygon", "Point", "LineString", "LinearRing", "MultiPolygon", "MultiPoint", "MultiLineString",
               "GeometryCollection")


def gen_empty():
    yield from itertools.product(("utm", "rot30", "geo"), ("8x8/4x4", "8x10/var"), EMPTY_TYPES, ("same", "other", "none"))


def run_empty(case):
    base, layout, gt, qc = case
    c = cfg(base, layout)
    crs = None if qc == "none" else f"EPSG:{c['epsg'] if qc == 'same' else OTHER_CRS[base]}"
    g = geom.Geometry(getattr(_sg, gt)(), crs)
    r = R(outcome=f"empty:{qc}:no-tiles")
    try:
        got = list(c["gbt"].tiles(g))
    except ValueError:
        if qc != "none":
            raise
        # a CRS-less geometry on a raster with CRS is outside the quantifier; refusing it is not a violation
        r.outcome, r.nontrivial = "empty:crs-less:ValueError", False
        return r
    if got:
        r.fail(f"tiles:empty-geometry:{gt}:{qc}-crs:tiles-returned", f"{base} {layout}: empty {gt} crs={crs} -> {got}")
    return r


# ---- disjoint rasters in different CRSs whose lon/lat bounding boxes overlap -----------------------------
LAYOUTS["200x200/100"] = ((200, 200), (100, 100))
LAYOUTS["88x88/44"] = ((88, 88), (44, 44))
CORNERS = ("SW", "SE", "NW", "NE", "centre")


CORNER_GAPS = ("in-corner", 1.0, 0.4)  # distance to the tilted raster edge in pixels of the coarser raster


def gen_corner():
    for rot, direction, corner in itertools.product((0, 30), ("big-dst", "big-src"), CORNERS):
        for gap in (CORNER_GAPS if corner != "centre" else ("in-corner",)):
            yield (rot, direction, corner, gap)


def run_corner(case):
    rot, direction, corner, gap = case
    Ab = (1000.0, 0.0, 1500000.0, 0.0, -1000.0, -3900000.0) if rot == 0 else _rot30(1500000.0, -3900000.0, 1000.0, -1000.0)
    bl, sl_ = "200x200/100", "88x88/44"
    ring = project_pts([aff_apply(Ab, x, y) for x, y in densify(rect_pts(*full_rect(bl)), 64)], 3577, 4326)
    lo_x, hi_x = min(p[0] for p in ring), max(p[0] for p in ring)
    lo_y, hi_y = min(p[1] for p in ring), max(p[1] for p in ring)
    res, n = 0.001, 88
    cen = ((lo_x + hi_x) / 2 - n * res / 2, (lo_y + hi_y) / 2 + n * res / 2)
    Bfoot = Polygon([aff_apply(Ab, x, y) for x, y in rect_pts(*full_rect(bl))])

    def small_affine(t):
        if corner == "centre":
            x0, y0 = cen
        else:
            cx = lo_x + 0.5 * res if corner[1] == "W" else hi_x - (n + 0.5) * res
            cy = hi_y - 0.5 * res if corner[0] == "N" else lo_y + (n + 0.5) * res
            x0, y0 = cx + t * (cen[0] - cx), cy + t * (cen[1] - cy)
        return (res, 0.0, round(x0, 7), 0.0, -res, round(y0, 7))

    def small_foot(A):
        return Polygon(project_pts([aff_apply(A, x, y) for x, y in densify(rect_pts(*full_rect(sl_)), 16)], 4326, 3577))

    t = 0.0
    if gap != "in-corner":
        # slide the small raster from the corner of the bounding box towards its centre until it is `gap`
        # coarse pixels away from the tilted edge of the big raster (bisection, deterministic)
        lo, hi = 0.0, 1.0
        for _ in range(40):
            t = (lo + hi) / 2
            if Bfoot.distance(small_foot(small_affine(t))) > gap * 1000.0:
                lo = t
            else:
                hi = t
        t = lo
    As = small_affine(t)
    big, small = mk_gbt(3577, Ab, bl), mk_gbt(4326, As, sl_)
    if direction == "big-dst":
        dst, src, Ad, de, se, dl, sl = big, small, Ab, 3577, 4326, bl, sl_
        Asrc = As
    else:
        dst, src, Ad, de, se, dl, sl = small, big, As, 4326, 3577, sl_, bl
        Asrc = Ab
    D = tile_polys(Ad, dl)
    S = tile_polys_in(Asrc, sl, se, de)
    pix = aff_pixarea(Ad)
    Dfoot = Polygon([aff_apply(Ad, x, y) for x, y in rect_pts(*full_rect(dl))])
    Sfoot = Polygon(project_pts([aff_apply(Asrc, x, y) for x, y in densify(rect_pts(*full_rect(sl)), 64)], se, de))
    d = Dfoot.distance(Sfoot)
    if d > 0.25 * aff_pixlen(Ad):
        relation = "disjoint"
    elif d == 0 and Dfoot.intersection(Sfoot).area > 0.5 * pix:
        relation = "overlap"
    else:
        relation = "touch"
    what = (f"EPSG:3577 raster {Ab} 200x200 (rot {rot}) and EPSG:4326 raster {As} 88x88 towards the {corner} corner of its "
            f"lon/lat bounding box (gap {gap}), {direction}")
    r = R()
    deps = dst.grid_intersect(src)
    nreq, nedges = judge_pairs(r, deps, D, S, pix, 0.01, relation, "cross-crs-bbox-corner", direction, what)
    r.outcome = (f"corner:{direction}:{'centre' if corner == 'centre' else 'corner'}:gap={gap}:{relation}:req={bucket(nreq, -1)}:"
                 f"{'empty-dict' if not deps else 'keys'}")
    return r


# ---- bounding boxes: degenerate, far away, other encodings of the same numbers ---------------------------
BB_ENC = ("float", "np.float32", "np.float64", "int", "neg-zero")
BB_LAYOUTS = ("8x8/4x4", "8x10/var", "10x7/var", "8x10/zero")
BB_FAR = 1e10  # exactly representable in binary32


def _enc(v, enc):
    if enc == "np.float32":
        return np.float32(v)
    if enc == "np.float64":
        return np.float64(v)
    if enc == "int" and float(v).is_integer():
        return int(v)
    if enc == "neg-zero" and v == 0:
        return -0.0
    return float(v)


def _bb_axis(off):
    n = off[-1]
    vals = {-BB_FAR, -2.5, 0.0, 1.0, float(n), BB_FAR}
    inner = [e for e in off[1:-1] if 0 < e < n]
    if inner:
        e = inner[0]
        vals.update((e - 0.5, float(e), e + 0.5))
    return sorted(vals)


def gen_bbenc():
    for layout in BB_LAYOUTS:
        yo, xo = layout_offsets(layout)
        xi = list(itertools.combinations_with_replacement(_bb_axis(xo), 2))
        yi = list(itertools.combinations_with_replacement(_bb_axis(yo), 2))
        for enc in BB_ENC:
            for (xa, xb), (ya, yb) in itertools.product(xi, yi):
                yield (layout, enc, xa, xb, ya, yb)


def _hits_open(a, b, lo, hi):
    """[a,b] (possibly a == b) has a point strictly inside (lo, hi)."""
    return (max(a, lo) < min(b, hi)) if a < b else (lo < a < hi)


def run_bbenc(case):
    layout, enc, xa, xb, ya, yb = case
    c = cfg("utm", layout)
    gbt, A6 = c["gbt"], c["A"]
    rects = tile_rects(layout)
    nty, ntx = (len(o) - 1 for o in layout_offsets(layout))
    degenerate = xa == xb or ya == yb
    far = max(abs(v) for v in (xa, xb, ya, yb)) >= BB_FAR
    cls = ("degenerate" if degenerate else "proper") + ("-far" if far else "")
    lk = layout_kind(layout)
    required = {i for i, (x0, y0, x1, y1) in rects.items() if _hits_open(xa, xb, x0, x1) and _hits_open(ya, yb, y0, y1)}
    r = R()
    # -- pixel plane
    B = BoundingBox(_enc(xa, enc), _enc(ya, enc), _enc(xb, enc), _enc(yb, enc), None)
    what = f"utm {layout} pixel-plane BoundingBox({xa},{ya},{xb},{yb}) given as {enc}"
    ry, rx = gbt.range_from_bbox(B)
    if not (_range_ok(ry, nty) and _range_ok(rx, ntx)):
        r.fail(f"range_from_bbox:pixel-plane:{cls}:out-of-range:{lk}", f"{what}: {ry}, {rx}")
    got_r = set(itertools.product(ry, rx))
    if required - got_r:
        r.fail(f"range_from_bbox:pixel-plane:{cls}:missing:{lk}", f"{what}: {ry},{rx} misses {sorted(required - got_r)}")
    got_t = as_idx_set(gbt.tiles(B), r, f"tiles:bbox:pixel-plane:{cls}:{lk}", what)
    if got_t != got_r:
        r.fail(f"tiles:bbox:pixel-plane:{cls}:differs-from-range_from_bbox:{lk}", f"{what}: {sorted(got_t)} vs {ry},{rx}")
    if enc != "float":
        ry0, rx0 = gbt.range_from_bbox(BoundingBox(float(xa), float(ya), float(xb), float(yb), None))
        if (ry0, rx0) != (ry, rx):
            r.fail(f"range_from_bbox:pixel-plane:encoding:{enc}:answer-differs", f"{what}: {ry},{rx}; as float {ry0},{rx0}")
    # -- same CRS, world coordinates (exact: 10 m pixels, integer origin); binary32 cannot hold them
    if enc in ("float", "np.float64", "int"):
        a, _, cx, _, e, cy = A6
        xs = sorted((a * xa + cx, a * xb + cx))
        ys = sorted((e * ya + cy, e * yb + cy))
        Bw = BoundingBox(_enc(xs[0], enc), _enc(ys[0], enc), _enc(xs[1], enc), _enc(ys[1], enc), f"EPSG:{c['epsg']}")
        whatw = f"utm {layout} BoundingBox{tuple(Bw.bbox)} in the raster's CRS (pixels x[{xa},{xb}] y[{ya},{yb}]) given as {enc}"
        ryw, rxw = gbt.range_from_bbox(Bw)
        if not (_range_ok(ryw, nty) and _range_ok(rxw, ntx)):
            r.fail(f"range_from_bbox:same-crs:{cls}:out-of-range:{lk}", f"{whatw}: {ryw}, {rxw}")
        got_rw = set(itertools.product(ryw, rxw))
        if required - got_rw:
            r.fail(f"range_from_bbox:same-crs:{cls}:missing:{lk}", f"{whatw}: {ryw},{rxw} misses {sorted(required - got_rw)}")
        tw = list(gbt.tiles(Bw))
        got_tw = as_idx_set(tw, r, f"tiles:bbox:same-crs:{cls}:{lk}", whatw)
        if required - got_tw:
            r.fail(f"tiles:bbox:same-crs:{cls}:missing:{lk}", f"{whatw}: {sorted(got_tw)} misses {sorted(required - got_tw)}")
        if got_tw - got_rw:
            r.fail(f"tiles:bbox:same-crs:{cls}:outside-range_from_bbox:{lk}", f"{whatw}: {sorted(got_tw)} vs {ryw},{rxw}")
        tp = list(gbt.tiles(Bw.polygon))
        if tp != tw:
            r.fail(f"tiles:bbox:same-crs:{cls}:differs-from-tiles-of-its-polygon:{lk}", f"{whatw}: {tw} vs {tp}")
    r.outcome = f"bbox:{cls}:{enc}:req={bucket(len(required), len(rects))}:got={bucket(len(got_r), len(rects))}"
    return r


# ---- huge rasters -----------------------------------------------------------------------------------------
HUGE_N = 1_000_000


def _huge_chunks(n):
    c = [512, 256, 512, 512]
    rest = n - sum(c)
    c += [2048] * (rest // 2048)
    if rest % 2048:
        c.append(rest % 2048)
    return tuple(c)


def _huge_offsets(n, how):
    if isinstance(how, tuple):
        return np.concatenate([[0], np.cumsum(how)]).astype("int64")
    return np.asarray(list(range(0, n, how)) + [n], dtype="int64")


HUGE_V = (-1e6, -3.0, 0.0, 2047.5, 2048.0, 500000.25, 999999.0, 1e6, 1e6 + 3, 2e6)
HUGE_REL = {"identical": (1.0, 0.0, 0.0), "shift": (1.0, 1000.5, -3.0), "scale2": (2.0, 0.0, 0.0),
            "far-shift": (1.0, -500000.0, 0.0)}
_HUGE = {}


def huge_gbt(ny, nx, tiling):
    """tiling: 'regular' | 'variable'; returns GeoboxTiles, row offsets, column offsets."""
    key = (ny, nx, tiling)
    v = _HUGE.get(key)
    if v is None:
        if tiling == "regular":
            how, hy, hx = (2048, 2048), 2048, 2048
        else:
            hy = _huge_chunks(ny) if ny > 5000 else (1024, ny - 1024)
            hx = _huge_chunks(nx)
            how = (hy, hx)
        v = (how, _huge_offsets(ny, hy), _huge_offsets(nx, hx))
        _HUGE[key] = v
    return v


def gen_huge():
    iv = list(itertools.combinations(range(len(HUGE_V)), 2))
    for tiling in ("regular", "variable"):
        for (ia, ib), (ja, jb) in itertools.product(iv, iv):
            yield ("query", tiling, ia, ib, ja, jb)
    for rel, dt, st in itertools.product(HUGE_REL, ("regular", "variable"), ("regular", "variable")):
        yield ("strip", rel, dt, st, 0, 0)


def _axis_flags(a, b, off):
    lo, hi = off[:-1], off[1:]
    w0, w1 = np.maximum(a, lo), np.minimum(b, hi)
    return (w1 > w0), (w1 >= w0)


def run_huge(case):
    r = R()
    epsg, A6, _ = BASES["utm"]
    crs = f"EPSG:{epsg}"
    if case[0] == "query":
        _, tiling, ia, ib, ja, jb = case
        xa, xb, ya, yb = HUGE_V[ia], HUGE_V[ib], HUGE_V[ja], HUGE_V[jb]
        how, yo, xo = huge_gbt(HUGE_N, HUGE_N, tiling)
        gbt = _HUGE.get(("gbt", tiling))
        if gbt is None:
            gbt = _HUGE[("gbt", tiling)] = GeoboxTiles(GeoBox((HUGE_N, HUGE_N), Affine(*A6), crs), how)
        reqx, tchx = _axis_flags(xa, xb, xo)
        reqy, tchy = _axis_flags(ya, yb, yo)
        what = f"1e6 x 1e6 px, {tiling} 2048-px tiles: pixels x[{xa},{xb}] y[{ya},{yb}]"
        ry, rx = gbt.range_from_bbox(BoundingBox(xa, ya, xb, yb, None))
        for rg, req, nm in ((ry, reqy, "rows"), (rx, reqx, "cols")):
            if not _range_ok(rg, len(req)):
                r.fail(f"range_from_bbox:pixel-plane:huge:out-of-range:{tiling}", f"{what}: {nm} {rg}")
            idx = np.nonzero(req)[0]
            if len(idx) and not (len(rg) and rg[0] <= idx[0] and idx[-1] <= rg[-1]):
                r.fail(f"range_from_bbox:pixel-plane:huge:missing:{tiling}",
                       f"{what}: {nm} {rg} but tiles {idx[0]}..{idx[-1]} overlap")
        nq = 0
        if tchx.sum() <= 5 and tchy.sum() <= 5:
            a, _, cx, _, e, cy = A6
            g = geom.box(a * xa + cx, e * yb + cy, a * xb + cx, e * ya + cy, crs)
            got = as_idx_set(gbt.tiles(g), r, f"tiles:geometry:huge:{tiling}", what)
            need = {(int(i), int(j)) for i in np.nonzero(reqy)[0] for j in np.nonzero(reqx)[0]}
            nq = len(need)
            if need - got:
                r.fail(f"tiles:geometry:huge:missing:{tiling}", f"{what}: missing {sorted(need - got)}, got {sorted(got)}")
            bad = sorted(i for i in got if not (0 <= i[0] < len(tchy) and 0 <= i[1] < len(tchx) and tchy[i[0]] and tchx[i[1]]))
            if bad:
                r.fail(f"tiles:geometry:huge:extra:{tiling}", f"{what}: {bad} do not meet the query")
            r.outcome = f"huge:query+geometry:req={bucket(nq, -1)}"
        else:
            r.outcome = f"huge:query:pixel-only:rows={bucket(int(reqy.sum()), len(reqy))}:cols={bucket(int(reqx.sum()), len(reqx))}"
        return r
    _, rel, dt, st, _, _ = case
    sc, ox, oy = HUGE_REL[rel]
    ny, nx = 4096, HUGE_N
    dhow, dyo, dxo = huge_gbt(ny, nx, dt)
    show, syo, sxo = huge_gbt(ny, nx, st)
    As = aff_mul(A6, aff_mul(aff_T(ox, oy), aff_S(sc, sc)))
    dst = GeoboxTiles(GeoBox((ny, nx), Affine(*A6), crs), dhow)
    src = GeoboxTiles(GeoBox((ny, nx), Affine(*As), crs), show)
    what = f"4096 x 1e6 px strips, dst {dt} / src {st} tiles, src pixel = {sc} dst px, shift ({ox},{oy})"
    deps = dst.grid_intersect(src)
    nreq = 0

    def per_axis(doff, soff, o):
        s0, s1 = o + sc * soff[:-1], o + sc * soff[1:]
        out = []
        for i in range(len(doff) - 1):
            w = np.minimum(doff[i + 1], s1) - np.maximum(doff[i], s0)
            js = np.nonzero(w > 0)[0]
            out.append([(int(j), float(w[j])) for j in js])
        return out

    ylist, xlist = per_axis(dyo, syo, oy), per_axis(dxo, sxo, ox)
    nsy, nsx = len(syo) - 1, len(sxo) - 1
    for iy, ix in itertools.product(range(len(dyo) - 1), range(len(dxo) - 1)):
        listed = deps.get((iy, ix))
        lset = set() if listed is None else {(int(j[0]), int(j[1])) for j in listed}
        if any(not (0 <= j[0] < nsy and 0 <= j[1] < nsx) for j in lset):
            r.fail(f"grid_intersect:src-index-out-of-range:linear:huge:{rel}", f"{what}: {(iy, ix)} -> {sorted(lset)}")
        for (jy, wy), (jx, wx) in itertools.product(ylist[iy], xlist[ix]):
            if wx * wy > 0.5:
                nreq += 1
                if (jy, jx) not in lset:
                    r.fail(f"grid_intersect:missing-edge:linear:huge:{rel}:{dt}-vs-{st}",
                           f"{what}: dst tile {(iy, ix)} overlaps src tile {(jy, jx)} by {wx * wy} px, listed {sorted(lset)}")
    r.outcome = f"huge:strip:{rel}:req={bucket(nreq, -1)}"
    return r


# ---- grids within / just outside the documented snapping tolerances -------------------------------------
SNAP_F = (0.9, 0.999, 1.001, 1.1, 10.0)
SNAP_W = 1e-2  # source pixels; snapping may move a mapped edge by 1e-3 + 1e-6 * 2000 on either side


def gen_snap():
    tier = _TIER[0]
    bases = ("1", "2", "1/2", "1/3") if tier == "quick" else ("1", "2", "3", "1/2", "1/3", "1/1024", "1024")
    ds = [sg * f * 1e-6 for f in SNAP_F + (900.0,) for sg in (1, -1)]
    dt = [sg * f * 1e-3 for f in SNAP_F + (500.0,) for sg in (1, -1)]
    for sl in (0, 1):
        for b, d in itertools.product(bases, ds):
            yield ("scale", b, d, 0, sl)
        for b, k, d in itertools.product(("1", "2"), (0, 3), dt):
            yield ("shift", b, d, k, sl)


def run_snap(case):
    from fractions import Fraction as Fr  # pylint: disable=import-outside-toplevel

    fam, b, d, k, sl = case
    n = float(b.split("/")[-1])
    if fam == "scale":
        a = (n + d) if "/" not in b else 1.0 / (n + d)
        cx = cy = 0.0
        inside = abs(d) < 1e-6
    else:
        a = n
        cx, cy = k + d, -(k + d)
        inside = abs(d) < 1e-3
    # A: destination pixel -> source pixel (what _check_linear computes and snaps); M is its inverse
    M = (1 / a, 0.0, -cx / a, 0.0, 1 / a, -cy / a)
    epsg, Ad, _ = BASES["utm"]
    As = aff_mul(Ad, M)
    dl, sly = "2000x2000/500", ("2000x2000/500", "2000x2000/var")[sl]
    dst, src = mk_gbt(epsg, Ad, dl), mk_gbt(epsg, As, sly)
    dyo, dxo = layout_offsets(dl)
    syo, sxo = layout_offsets(sly)
    fa, fx, fy = Fr(a), Fr(cx), Fr(cy)
    window = "inside-tolerance" if inside else "outside-tolerance"
    what = (f"dst 2000x2000/500 px, src {sly}: src_pixel = {a!r} * dst_pixel + ({cx!r},{cy!r}) "
            f"[{fam} {b} {'+' if d >= 0 else '-'} {abs(d):g}]")
    r = R()
    deps = dst.grid_intersect(src)
    dt_ = {(i, j) for i in range(len(dyo) - 1) for j in range(len(dxo) - 1)}
    st_ = {(i, j) for i in range(len(syo) - 1) for j in range(len(sxo) - 1)}
    norm = check_deps_structure(r, deps, dt_, st_, "linear:near-snap", what)
    nreq = 0
    if norm is not None:
        w_min = Fr(SNAP_W)
        for iy, ix in sorted(dt_):
            listed = norm.get((iy, ix), set())
            x0, x1 = fa * dxo[ix] + fx, fa * dxo[ix + 1] + fx
            y0, y1 = fa * dyo[iy] + fy, fa * dyo[iy + 1] + fy
            for jy, jx in sorted(st_):
                wx = min(x1, sxo[jx + 1]) - max(x0, sxo[jx])
                wy = min(y1, syo[jy + 1]) - max(y0, syo[jy])
                if wx > w_min and wy > w_min and wx * wy > Fr(1, 2) * fa * fa:
                    nreq += 1
                    if (jy, jx) not in listed:
                        r.fail(f"grid_intersect:missing-edge:linear:near-snap:{fam}:{window}",
                               f"{what}: dst tile {(iy, ix)} overlaps src tile {(jy, jx)} by {float(wx)} x {float(wy)} "
                               f"src px, listed {sorted(listed)}")
    r.outcome = f"snap:{fam}:{b}:{window}:req={bucket(nreq, -1)}"
    return r


# ---- one instance, several operations; lazily filled state read first ------------------------------------
HI_PRELUDES = ("none", "extent", "boundingbox", "geographic_extent", "footprint", "crs-epsg", "tile-extents")
HI_OPS = ("tiles-triangle-same-crs", "tiles-box-4326", "grid_intersect-linear", "grid_intersect-general",
          "grid_intersect-linear-other-chunks")
HI_LIN = ("8x10/var", ((4, 3, 1), (8, 2)))  # two chunkings of one source raster with equal tile counts


def gen_hinst():
    k = 0
    n = len(HI_OPS)
    if _TIER[0] == "quick":  # every op in every position, both directions; thorough: every order
        fw = [tuple((i + j) % n for j in range(n)) for i in range(n)]
        orders = fw + [o[::-1] for o in fw]
    else:
        orders = list(itertools.permutations(range(n)))
    for base, layout, pre, order in itertools.product(("utm", "rot30"), ("8x8/4x4", "8x10/var"), HI_PRELUDES, orders):
        k += 1
        yield (k, base, layout, pre, order)


def _prelude(pre, gboxes, crss):
    for g in gboxes:
        if pre == "extent":
            _ = g.extent
        elif pre == "boundingbox":
            _ = g.boundingbox
        elif pre == "geographic_extent":
            _ = g.geographic_extent
        elif pre == "footprint":
            _ = g.footprint(4326)
    if pre == "crs-epsg":
        for c in crss:
            _ = c.epsg


def run_hinst(case):
    from odc.geo.crs import CRS  # pylint: disable=import-outside-toplevel

    k, base, layout, pre, order = case
    epsg, A0, _ = BASES[base]
    Ad = aff_mul(aff_T(2000.0 * k, -700.0 * k), A0)  # a raster no other case uses
    crs = f"EPSG:{epsg}"
    shape, tiling = LAYOUTS[layout]
    A_lin = aff_mul(Ad, aff_T(2.5, -3.25))
    A_rot = aff_mul(Ad, aff_mul(aff_T(7.0, 5.0), aff_R(30)))
    tri = [aff_apply(Ad, x, y) for x, y in ((0.5, 0.5), (6.5, 0.5), (0.5, 6.5))]
    boxw = [aff_apply(Ad, x, y) for x, y in rect_pts(2.5, 1.25, 5.5, 2.75)]
    box4326 = project_pts(boxw, epsg, 4326)

    def operands():
        g0 = GeoBox(shape, Affine(*Ad), crs)
        gl = GeoBox(LAYOUTS[HI_LIN[0]][0], Affine(*A_lin), crs)
        gr = GeoBox(LAYOUTS["8x10/var"][0], Affine(*A_rot), crs)
        q1 = geom.polygon(tri + [tri[0]], crs)
        q2 = geom.polygon(box4326 + [box4326[0]], "EPSG:4326")
        return g0, gl, gr, q1, q2

    def run_op(G, op, ops):
        _, gl, gr, q1, q2 = ops
        if op == 0:
            return list(G.tiles(q1))
        if op == 1:
            return list(G.tiles(q2))
        if op == 2:
            return G.grid_intersect(GeoboxTiles(gl, LAYOUTS[HI_LIN[0]][1]))
        if op == 4:
            return G.grid_intersect(GeoboxTiles(gl, HI_LIN[1]))
        return G.grid_intersect(GeoboxTiles(gr, LAYOUTS["8x10/var"][1]))

    def norm(v):
        if isinstance(v, dict):
            return {(int(a), int(b)): [(int(c), int(d)) for c, d in w] for (a, b), w in v.items()}
        return [(int(a), int(b)) for a, b in v]

    r = R()
    ref = {}
    for op in range(len(HI_OPS)):
        ops = operands()
        ref[op] = norm(run_op(GeoboxTiles(ops[0], tiling), op, ops))
    ops = operands()
    _prelude(pre, ops[:3], [CRS(crs), ops[3].crs, ops[4].crs, ops[0].crs])
    G = GeoboxTiles(ops[0], tiling)
    if pre == "tile-extents":
        _ = G.base.extent
        for idx in tile_rects(layout):
            _ = G[idx].extent
    first = {}
    for pas in ("first-pass", "second-pass"):
        for op in order:
            ans = norm(run_op(G, op, ops))
            first.setdefault(op, ans)
            if ans != ref[op]:
                r.fail(f"history-instance:{HI_OPS[op]}:after-{pre}:differs-from-fresh-object:{pas}",
                       f"{base}+{k} {layout}, read first: {pre}, order {[HI_OPS[o] for o in order]} ({pas}): "
                       f"{ans} but a fresh GeoboxTiles answers {ref[op]}")
    # state-independent clauses on what the used instance answered
    F = {i: Polygon([aff_apply(Ad, x, y) for x, y in rect_pts(*rc)]) for i, rc in tile_rects(layout).items()}
    tol1 = TOL_PX * aff_pixlen(Ad)
    what = f"{base}+{k} {layout} after {pre}"
    _judge_sets(r, [(F, Polygon(tri), tol1)], list(F), set(first[0]), f"history-instance:{HI_OPS[0]}:after-{pre}:missing",
                f"history-instance:{HI_OPS[0]}:after-{pre}:extra", what + " triangle query", exact=True)
    F2 = {i: Polygon(project_pts([aff_apply(Ad, x, y) for x, y in densify(rect_pts(*rc), NSIDE)], epsg, 4326))
          for i, rc in tile_rects(layout).items()}
    tol2 = TOL_PX * math.sqrt(sum(p.area for p in F2.values()) / (shape[0] * shape[1]))
    _judge_sets(r, [(F, Polygon(boxw), tol1), (F2, Polygon(box4326), tol2)], list(F), set(first[1]),
                f"history-instance:{HI_OPS[1]}:after-{pre}:missing", f"history-instance:{HI_OPS[1]}:after-{pre}:extra",
                what + " box query in EPSG:4326", exact=True)
    pix = aff_pixarea(Ad)
    judge_pairs(r, first[2], F, tile_polys(A_lin, HI_LIN[0]), pix, 1e-9, "overlap",
                f"history-instance:after-{pre}", "linear", what)
    yo2, xo2 = offsets(8, HI_LIN[1][0]), offsets(10, HI_LIN[1][1])
    S2 = {(i, j): Polygon([aff_apply(A_lin, x, y) for x, y in rect_pts(xo2[j], yo2[i], xo2[j + 1], yo2[i + 1])])
          for i in range(len(yo2) - 1) for j in range(len(xo2) - 1)}
    judge_pairs(r, first[4], F, S2, pix, 1e-9, "overlap", f"history-instance:after-{pre}", "linear-other-chunks", what)
    judge_pairs(r, first[3], F, tile_polys(A_rot, "8x10/var"), pix, 1e-9, "overlap",
                f"history-instance:after-{pre}", "general", what)
    r.outcome = f"history-instance:{pre}:first-op={HI_OPS[order[0]]}"
    return r


# ---- the same CRS / the same tiling written differently; CRSs without EPSG code ------------------------------
_AEA = "+proj=aea +lat_0=0 +lon_0={lon} +lat_1=-18 +lat_2=-36 +x_0=0 +y_0=0 +ellps=GRS80 +units=m +no_defs"
_PP3577 = pyproj.CRS.from_epsg(3577)
_WKT3577 = _PP3577.to_wkt()
_STALE133 = _WKT3577.replace('"Longitude of false origin",132', '"Longitude of false origin",133')
assert _STALE133 != _WKT3577 and 'ID["EPSG",3577]' in _STALE133
CRS_DEFS = {
    # name -> (family, builder of what is handed to odc-geo, builder of the harness' own pyproj CRS)
    "EPSG:3577": ("3577", lambda: "EPSG:3577"),
    "epsg:3577": ("3577", lambda: "epsg:3577"),
    "int-3577": ("3577", lambda: 3577),
    "wkt-3577": ("3577", lambda: _WKT3577),
    "projjson-3577": ("3577", lambda: _copy.deepcopy(_PP3577.to_json_dict())),
    "pyproj-3577": ("3577", lambda: pyproj.CRS.from_epsg(3577)),
    "EPSG:4326": ("4326", lambda: "EPSG:4326"),
    "epsg:4326": ("4326", lambda: "epsg:4326"),
    "int-4326": ("4326", lambda: 4326),
    "wkt-4326": ("4326", lambda: pyproj.CRS.from_epsg(4326).to_wkt()),
    "noepsg-aea131": ("aea131", lambda: _AEA.format(lon=131)),
    "noepsg-aea133": ("aea133", lambda: _AEA.format(lon=133)),
    "stale-id-wkt-133": ("stale133", lambda: _STALE133),
}
CRS_RASTER = ("EPSG:3577", "epsg:3577", "int-3577", "wkt-3577", "projjson-3577", "pyproj-3577", "noepsg-aea133")
ENC_QUERIES = (("box", 1.5, 6.5, 0.5, 2.5), ("tri1", 0.5, 6.5, 0.5, 6.5), ("box", -2.5, 3.5, 5.0, 10.5))
ENC_A = (25000.0, 0.0, 1500000.0, 0.0, -25000.0, -3900000.0)
_PPX = {}


def _pp(name):
    v = _PPX.get(name)
    if v is None:
        v = _PPX[name] = pyproj.CRS.from_user_input(CRS_DEFS[name][1]())
    return v


def _tr_named(a, b):
    key = ("tr", a, b)
    v = _PPX.get(key)
    if v is None:
        v = _PPX[key] = pyproj.Transformer.from_crs(_pp(a), _pp(b), always_xy=True)
    return v


def _proj_named(pts, a, b):
    xs, ys = _tr_named(a, b).transform([p[0] for p in pts], [p[1] for p in pts])
    return [(float(x), float(y)) for x, y in zip(xs, ys)]


TILING_ENC = ("tuple", "list", "numpy-ints", "Shape2d", "wh_", "chunks-tuples", "chunks-lists", "chunks-numpy-ints")


def gen_enc():
    for rn, qn, qi, epsg_first in itertools.product(CRS_RASTER, CRS_DEFS, range(len(ENC_QUERIES)), (False, True)):
        yield ("crs", rn, qn, qi, epsg_first)
    for te in TILING_ENC:
        yield ("tiling", te, "", 0, False)


def run_enc(case):
    from odc.geo.crs import CRS  # pylint: disable=import-outside-toplevel

    r = R()
    if case[0] == "tiling":
        te = case[1]
        regular = not te.startswith("chunks")
        shape = (8, 8) if regular else (8, 10)
        canon = (4, 4) if regular else ((1, 3, 4), (2, 8))
        how = {"tuple": (4, 4), "list": [4, 4], "numpy-ints": (np.int64(4), np.int32(4)), "Shape2d": shape_((4, 4)),
               "wh_": wh_(4, 4), "chunks-tuples": ((1, 3, 4), (2, 8)), "chunks-lists": [[1, 3, 4], [2, 8]],
               "chunks-numpy-ints": (tuple(np.int64(v) for v in (1, 3, 4)), tuple(np.int32(v) for v in (2, 8)))}[te]
        before = _copy.deepcopy(how)
        epsg, Ad, _ = BASES["utm"]
        crs = f"EPSG:{epsg}"
        G = GeoboxTiles(GeoBox(shape, Affine(*Ad), crs), how)
        G0 = GeoboxTiles(GeoBox(shape, Affine(*Ad), crs), canon)
        rot = GeoboxTiles(GeoBox((8, 10), Affine(*aff_mul(Ad, aff_mul(aff_T(3.0, 2.0), aff_R(30)))), crs), (3, 4))
        checks = []
        for kind, xa, xb, ya, yb in (("box", 0.5, 3.5, 0.5, 3.5), ("box", 1.5, 6.5, 0.75, 1.25), ("tri1", 0.5, 6.5, 0.5, 6.5),
                                     ("box", -2.5, 12.5, 3.5, 4.5)):
            W = [aff_apply(Ad, x, y) for x, y in query_pts(kind, xa, xb, ya, yb)]
            q = geom.polygon(W + [W[0]], crs)
            checks.append((f"tiles {kind} x[{xa},{xb}] y[{ya},{yb}]", list(G.tiles(q)), list(G0.tiles(q))))
            B = BoundingBox(xa, ya, xb, yb, None)
            checks.append((f"range_from_bbox pixel x[{xa},{xb}] y[{ya},{yb}]", G.range_from_bbox(B), G0.range_from_bbox(B)))
        checks.append(("grid_intersect(rotated)", G.grid_intersect(rot), G0.grid_intersect(rot)))
        checks.append(("rotated.grid_intersect", rot.grid_intersect(G), rot.grid_intersect(G0)))
        checks.append(("shape", tuple(G.shape), tuple(G0.shape)))
        for nm, a, b in checks:
            if a != b:
                r.fail(f"tiling-encoding:{te}:answer-differs", f"tiles given as {before!r}: {nm} -> {a}, as {canon!r} -> {b}")
        if repr(how) != repr(before):
            r.fail(f"tiling-encoding:{te}:argument-modified", f"{before!r} became {how!r}")
        r.outcome = f"tiling-encoding:{te}"
        return r
    _, rn, qn, qi, epsg_first = case
    rfam, qfam = CRS_DEFS[rn][0], CRS_DEFS[qn][0]
    rcrs, qcrs = CRS_DEFS[rn][1](), CRS_DEFS[qn][1]()
    if epsg_first:
        _ = CRS(CRS_DEFS[rn][1]()).epsg
        _ = CRS(CRS_DEFS[qn][1]()).epsg
    layout = "8x8/4x4"
    gbt = GeoboxTiles(GeoBox(LAYOUTS[layout][0], Affine(*ENC_A), rcrs), LAYOUTS[layout][1])
    if epsg_first:
        _ = gbt.base.crs.epsg
    kind, xa, xb, ya, yb = ENC_QUERIES[qi]
    W = [aff_apply(ENC_A, x, y) for x, y in query_pts(kind, xa, xb, ya, yb)]
    rects = tile_rects(layout)
    F = {i: Polygon([aff_apply(ENC_A, x, y) for x, y in rect_pts(*rc)]) for i, rc in rects.items()}
    tol1 = TOL_PX * aff_pixlen(ENC_A)
    same = rfam == qfam
    if same:
        Qpts = W
        readings = [(F, Polygon(W), tol1)]
    else:
        Qpts = _proj_named(W, rn, qn)
        F2 = {i: Polygon(_proj_named([aff_apply(ENC_A, x, y) for x, y in densify(rect_pts(*rc), NSIDE)], rn, qn))
              for i, rc in rects.items()}
        tol2 = TOL_PX * math.sqrt(sum(p.area for p in F2.values()) / 64)
        readings = [(F, Polygon(_proj_named(Qpts, qn, rn)), tol1), (F2, Polygon(Qpts), tol2)]
    q = geom.polygon(Qpts + [Qpts[0]], qcrs)
    if epsg_first:
        _ = q.crs.epsg
    what = (f"raster CRS given as {rn}, query {kind} px x[{xa},{xb}] y[{ya},{yb}] given in {qn}"
            f"{' (.epsg of both read first)' if epsg_first else ''}")
    key = f"{rfam}-raster:{qn}-query" if not same else f"same-crs:{rn}-raster:{qn}-query"
    got = as_idx_set(gbt.tiles(q), r, f"tiles:crs-encoding:{key}", what)
    nreq, nband = _judge_sets(r, readings, list(F), got, f"tiles:crs-encoding:{key}:missing",
                              f"tiles:crs-encoding:{key}:extra", what, exact=True)
    r.outcome = f"crs-encoding:{rfam}<-{qfam}:{'epsg-read-first' if epsg_first else 'plain'}:req={bucket(nreq, -1)}"
    return r


# ---- the same region spelled as an unusual geometry -------------------------------------------------------
ODD_REPS = ("repeated-vertices", "single-part-MultiPolygon", "single-part-GeometryCollection", "LinearRing-from-exterior",
            "single-part-MultiLineString", "interior-ring")


def gen_odd():
    for base, layout, qc, rep, kind in itertools.product(
        ("utm", "rot30"), ("8x8/4x4", "8x10/var"), ("same", "other"), ODD_REPS, ("box", "tri1")
    ):
        yo, xo = layout_offsets(layout)
        xv = (-2.5, 1.5, xo[1] + 0.5, xo[-1] - 0.75)
        yv = (-2.5, 0.75, yo[1] + 0.5, yo[-1] - 0.75)
        for (xa, xb), (ya, yb) in itertools.product(intervals(xv), intervals(yv)):
            yield (base, layout, qc, rep, kind, xa, xb, ya, yb)


def run_odd(case):
    base, layout, qc, rep, kind, xa, xb, ya, yb = case
    c = cfg(base, layout)
    gbt, A6, epsg, F = c["gbt"], c["A"], c["epsg"], c["F"]
    qepsg = epsg if qc == "same" else OTHER_CRS[base]
    crs = f"EPSG:{qepsg}"
    W = [aff_apply(A6, x, y) for x, y in query_pts(kind, xa, xb, ya, yb)]
    Qpts = project_pts(W, epsg, qepsg)
    back = project_pts(Qpts, qepsg, epsg)
    outer_w = [aff_apply(A6, x, y) for x, y in rect_pts(-4.0, -4.0, 14.0, 14.0)]

    def shapes(pts, outer):
        ring = pts + [pts[0]]
        if rep == "repeated-vertices":
            dbl = [p for p in pts for _ in (0, 1)]
            return _sg.Polygon(dbl + [dbl[0], dbl[0]]), _sg.Polygon(pts)
        if rep == "single-part-MultiPolygon":
            return _sg.MultiPolygon([_sg.Polygon(pts)]), _sg.Polygon(pts)
        if rep == "single-part-GeometryCollection":
            return _sg.GeometryCollection([_sg.Polygon(pts)]), _sg.Polygon(pts)
        if rep == "LinearRing-from-exterior":
            return None, _sg.LineString(ring)
        if rep == "single-part-MultiLineString":
            return _sg.MultiLineString([ring]), _sg.LineString(ring)
        return None, _sg.LineString(ring)  # interior-ring: the ring of a hole, taken from .interiors

    given, model = shapes(Qpts, None)
    if rep == "LinearRing-from-exterior":
        g = geom.polygon(Qpts + [Qpts[0]], crs).exterior
    elif rep == "interior-ring":
        outer = project_pts(outer_w, epsg, qepsg)
        g = geom.polygon(outer + [outer[0]], crs, (Qpts + [Qpts[0]])[::-1]).interiors[0]
    else:
        g = geom.Geometry(given, crs)
    r = R()
    what = f"{base} {layout} {rep} of {kind} px x[{xa},{xb}] y[{ya},{yb}] in EPSG:{qepsg} ({g.geom_type})"
    got = as_idx_set(gbt.tiles(g), r, f"tiles:odd:{rep}:{qc}-crs", what)
    tol1 = TOL_PX * aff_pixlen(A6)
    if qepsg == epsg:
        readings = [(F, model, tol1)]
    else:
        F2 = cfg_F2(c, layout, qepsg)
        (ny_, nx_), _ = LAYOUTS[layout]
        tol2 = TOL_PX * math.sqrt(sum(p.area for p in F2.values()) / (ny_ * nx_))
        readings = [(F, shapes(back, None)[1], tol1), (F2, model, tol2)]
    nreq, nband = _judge_sets(r, readings, list(F), got, f"tiles:odd:{rep}:{qc}-crs:missing", f"tiles:odd:{rep}:{qc}-crs:extra",
                              what, exact=True, clf=classify_any)
    r.outcome = f"odd:{rep}:req={bucket(nreq, len(F))}:{'touch' if nband else 'clean'}"
    return r


# =================================================================================================
# different CRS, tile ASPECT RATIO: thin strips (1, 2, 4 rows or columns), mixtures, squares
# =================================================================================================
# Rasters of 1000-4500 km in lon/lat against an azimuthal (LAEA Europe), a conic (Albers Australia) and a
# transverse cylindrical (UTM 55S, +-5 degrees about the central meridian) CRS, both directions.  A tile that is
# one to four pixels wide and as long as the raster has a long side that is visibly curved in the other CRS (the
# bulge between the end points of a side is tens of pixels) while its short side is not; whatever is done "per
# tile" (points per side, bounding boxes, buffers) scales with the wrong side for such tiles.
# Oracle: brute force over ALL (destination tile, source tile) pairs.  Destination tiles are exact rectangles in
# their own CRS; each source tile's outline is projected by the harness with pieces no longer than 1/4 (1/8, ..)
# destination pixel; the residual curvature of a piece is MEASURED (image of the piece's midpoint against the
# midpoint of its chord) and added to the half-pixel threshold, so nothing is demanded that the approximation
# cannot decide.
XASP = {
    # id -> (lon/lat raster: epsg, affine, shape; projected raster: epsg, affine, shape)
    "laea-europe": (4326, (0.5, 0.0, -12.0, 0.0, -0.5, 70.0), (64, 96),
                    3035, (40e3, 0.0, 1.8e6, 0.0, -40e3, 5.3e6), (95, 110)),
    "albers-australia": (4326, (0.5, 0.0, 112.0, 0.0, -0.5, -10.0), (68, 84),
                         3577, (40e3, 0.0, -2.1e6, 0.0, -40e3, -1.0e6), (100, 108)),
    "utm55s": (4326, (0.2, 0.0, 142.0, 0.0, -0.2, -30.0), (60, 50),
               32755, (20e3, 0.0, 0.0, 0.0, -20e3, 6.75e6), (75, 50)),
}
ASP_DIRECTIONS = ("lonlat<-projected", "projected<-lonlat")
ASP_DST_TILES = ("rows1", "rows2", "rows4", "cols1", "cols2", "cols4", "square", "mixed-rows", "mixed-cols",
                 "rows2-quarter", "cols2-quarter")
ASP_SRC_TILES = ("square", "rows4", "cols4")
ASP_SRC_TILES_THOROUGH = ("rows1", "rows2", "cols1", "cols2", "mixed-rows")
# where the source raster lies: covering the destination / moved by half its size (+ a quarter pixel), so that
# its own (curved) outline cuts across the destination strips
ASP_PLACE = {"cover": (0.0, 0.0), "NE": (0.5, -0.5), "SW": (-0.5, 0.5)}
ASP_H = (0.25, 0.125, 0.0625, 0.03125)  # longest piece of a projected source-tile outline, in destination pixels
ASP_MARGIN_MAX = 0.05
ASP_MIXED = (1, 17, 2, 16, 4)  # thin strips between thick ones; the rest of the axis is the last chunk


def asp_tiling(kind, shape):
    """Tile-shape class -> argument for GeoboxTiles."""
    ny, nx = shape
    if kind in ("rows1", "rows2", "rows4"):
        return (int(kind[4:]), nx)
    if kind in ("cols1", "cols2", "cols4"):
        return (ny, int(kind[4:]))
    if kind == "rows2-quarter":
        return (2, nx // 4)
    if kind == "cols2-quarter":
        return (ny // 4, 2)
    if kind == "square":
        return (16, 16)
    if kind == "mixed-rows":
        return (ASP_MIXED + (ny - sum(ASP_MIXED),), (nx,))
    if kind == "mixed-cols":
        return ((ny,), ASP_MIXED + (nx - sum(ASP_MIXED),))
    raise ValueError(kind)


def asp_rects(shape, tl):
    yo, xo = offsets(shape[0], tl[0]), offsets(shape[1], tl[1])
    return {(iy, ix): (xo[ix], yo[iy], xo[ix + 1], yo[iy + 1])
            for iy in range(len(yo) - 1) for ix in range(len(xo) - 1)}


def asp_project_rect(rc, A6, se, de, hlen):
    """Outline of a pixel rectangle in the other CRS, every side cut into equal pieces no longer than hlen there.

    Returns (points, sag): sag = the largest distance between the image of a piece's midpoint and the midpoint of
    its chord, i.e. how far the true outline can be from the polygon through the points.
    """
    a, b, c, d, e, f = A6
    tr = transformer(se, de)
    x0, y0, x1, y1 = rc
    out, sag = [], 0.0
    for (xa, ya), (xb, yb) in (((x0, y0), (x1, y0)), ((x1, y0), (x1, y1)), ((x1, y1), (x0, y1)), ((x0, y1), (x0, y0))):
        n = max(1, math.ceil(max(abs(xb - xa), abs(yb - ya))))
        for _ in range(8):
            t = np.arange(2 * n + 1) / (2 * n)
            px, py = xa + (xb - xa) * t, ya + (yb - ya) * t
            X, Y = tr.transform(a * px + b * py + c, d * px + e * py + f)
            X, Y = np.asarray(X, dtype="float64"), np.asarray(Y, dtype="float64")
            if not (np.isfinite(X).all() and np.isfinite(Y).all()):
                raise RuntimeError(f"harness: projection {se}->{de} produced a non-finite point")
            L = float(np.hypot(X[2::2] - X[:-2:2], Y[2::2] - Y[:-2:2]).max())
            if L <= hlen:
                break
            n = math.ceil(n * L / hlen * 1.05)
        else:
            raise RuntimeError("harness: outline densification did not converge")
        sag = max(sag, float(np.hypot(X[1::2] - (X[:-2:2] + X[2::2]) / 2, Y[1::2] - (Y[:-2:2] + Y[2::2]) / 2).max()))
        out.extend(zip(X[:-1:2].tolist(), Y[:-1:2].tolist()))
    return out, sag


def gen_pair_aspect():
    tier = _TIER[0]
    cfgs = tuple(itertools.product(XASP, ASP_DIRECTIONS))
    # a union of complete products
    for (cid, dr), dk, sk in itertools.product(cfgs, ASP_DST_TILES, ASP_SRC_TILES):
        yield (cid, dr, 0, dk, sk, "cover")
    for (cid, dr), dk in itertools.product(cfgs, ASP_DST_TILES):
        yield (cid, dr, 0, dk, "square", "NE")
    if tier != "quick":
        for (cid, dr), dk, sk in itertools.product(cfgs, ASP_DST_TILES, ASP_SRC_TILES_THOROUGH):
            yield (cid, dr, 0, dk, sk, "cover")
        for (cid, dr), dk, sk in itertools.product(cfgs, ASP_DST_TILES, ("rows4", "cols4")):
            yield (cid, dr, 0, dk, sk, "NE")
        for (cid, dr), dk, sk in itertools.product(cfgs, ASP_DST_TILES, ASP_SRC_TILES):
            yield (cid, dr, 0, dk, sk, "SW")
        for (cid, dr), dk, sk in itertools.product(cfgs, ASP_DST_TILES, ASP_SRC_TILES):
            yield (cid, dr, 30, dk, sk, "cover")  # destination turned by 30 degrees about its centre


def run_pair_aspect(case):
    cid, dr, rot, dk, sk, place = case
    de, Ad, dshape, se, As, sshape = XASP[cid]
    if dr == "projected<-lonlat":
        de, Ad, dshape, se, As, sshape = se, As, sshape, de, Ad, dshape
    if rot:
        cy, cx = dshape[0] / 2, dshape[1] / 2
        Ad = aff_mul(Ad, aff_mul(aff_T(cx, cy), aff_mul(aff_R(rot), aff_T(-cx, -cy))))
    fx, fy = ASP_PLACE[place]
    if (fx, fy) != (0.0, 0.0):
        As = aff_mul(As, aff_T(round(fx * sshape[1]) + 0.25, round(fy * sshape[0]) - 0.25))
    dt, st = asp_tiling(dk, dshape), asp_tiling(sk, sshape)
    dst = GeoboxTiles(GeoBox(dshape, Affine(*Ad), f"EPSG:{de}"), dt)
    src = GeoboxTiles(GeoBox(sshape, Affine(*As), f"EPSG:{se}"), st)
    drects = asp_rects(dshape, dt)
    D = {i: Polygon([aff_apply(Ad, x, y) for x, y in rect_pts(*rc)]) for i, rc in drects.items()}
    plen, pix = aff_pixlen(Ad), aff_pixarea(Ad)
    # the true outline of a source tile is within `sag` of its polygon; the part of it inside a destination tile is
    # not longer than that tile's perimeter (4 nearly straight sides, each crossing it once): the overlap area is
    # known to 2 * sag * perimeter (lens areas are 2/3 * chord * height; 2 is head-room), on top of 1%.  Pieces are
    # halved until that is below 5% of the half-pixel threshold.
    perim = max(2 * ((rc[2] - rc[0]) + (rc[3] - rc[1])) for rc in drects.values())
    srects = asp_rects(sshape, st)
    for h in ASP_H:
        S, sag = {}, 0.0
        for j, rc in srects.items():
            pts, sg = asp_project_rect(rc, As, se, de, h * plen)
            S[j] = Polygon(pts)
            sag = max(sag, sg)
        margin = 0.01 + 2 * (sag / plen) * perim / 0.5
        if margin <= ASP_MARGIN_MAX:
            break
    else:
        raise RuntimeError(f"harness: source outlines not known well enough ({margin})")
    what = (f"dst EPSG:{de} {dshape} affine {Ad} tiles {dt} [{dk}] / src EPSG:{se} {sshape} affine {As} tiles {st} "
            f"[{sk}] ({cid}, source {place})")
    r = R()
    deps = dst.grid_intersect(src)
    nreq, nedges = judge_pairs(r, deps, D, S, pix, margin, "overlap", "cross-crs-tile-aspect",
                               f"{dr}:dst-{dk}:src-{sk}", what)
    r.outcome = (f"aspect:{dr}:dst-{dk}:src-{'square' if sk == 'square' else 'strips'}:{place}:rot{rot}:"
                 f"req={'0' if nreq == 0 else 'n'}:edges={'=' if nedges == nreq else '+'}")
    r.counts = {"edges_required": nreq, "edges_listed": nedges}
    return r


# =================================================================================================
def slices(tier):
    _TIER[0] = tier
    return [
        e1.Slice("query-geom", gen_query, run_query,
                 "bases x layouts x {same CRS, other CRS} x {box, 2 triangles, diamond} x all x-intervals x all "
                 "y-intervals over {outside, raster edges, each internal tile edge -1/4, +0, +1/2}; geometry query "
                 "exact, BoundingBox / range_from_bbox superset"),
        e1.Slice("query-pixel-bbox", gen_pix, run_pix,
                 "CRS-less (pixel plane) BoundingBox: all x-intervals x y-intervals over the half-pixel lattice + quarter "
                 "pixels around tile edges; superset, ranges inside the tile grid"),
        e1.Slice("query-nocrs", gen_nocrs, run_nocrs,
                 "CRS-less geometry: on CRS-less rasters (judged as same-CRS query) and on a raster with CRS (outcome only)"),
        e1.Slice("pairs-same-crs", gen_pair_same, run_pair_same,
                 "dst base x dst layout x src layout x {aligned, scale 2, 1/2, 1.5, mirrored x/y, rotated 30/90} x "
                 "x-placement x y-placement {far, touching, sub-pixel, whole pixel, aligned}; all tile pairs"),
        e1.Slice("pairs-cross-crs", gen_pair_cross, run_pair_cross,
                 "3857<->4326, 3577<->32755 x {fine, coarse} x layouts x x-placement x y-placement; all tile pairs, "
                 "source tiles densified and projected by the harness"),
        e1.Slice("pairs-cross-crs-bigtiles", gen_pair_big, run_pair_big,
                 "2x2 tiles of 2048 px, 7 CRS configurations (tile column symmetric about the central meridian / "
                 "generic) x pinned source node (inner / outer corners) x 9 destination grid nodes x sub-pixel offsets"),
        e1.Slice("query-dense-cross-crs", gen_dense, run_dense,
                 "rasters of 80-120 tiles (Albers, UTM, two lon/lat) x {densified box, apex triangle, densified apex "
                 "triangle} in the other CRS x half-width x asymmetry about the central meridian x pinned N/S side x "
                 "tile boundary x overshoot in pixels; geometry query exact"),
        e1.Slice("query-types-pairs", gen_gt_pairs, run_gt_pairs,
                 "{regular, variable, rotated, south-up} x {same CRS, EPSG:4326} x every unordered pair of lattice points "
                 "{outside, every tile edge, tile interiors}: Point / MultiPoint / LineString; exact rational oracle"),
        e1.Slice("query-types-multi", gen_gt_multi, run_gt_multi,
                 "same tilings x CRS x every ordered triple from a 9-point menu: 3-vertex LineString, MultiPoint, "
                 "MultiLineString, GeometryCollection; polygon with a hole = each tile grown by {1/2, 1/4, 0, -1/4} / none"),
        e1.Slice("pairs-layout-menu", gen_layouts, run_layouts,
                 "30x24 px, every ordered pair of 48 layouts (8 row chunkings x 6 column chunkings, regular and "
                 "irregular, equal and unequal tile counts) x {identical grid, whole-pixel shift, scale 2, scale 1/2}; "
                 "all tile pairs in exact arithmetic"),
        e1.Slice("history", gen_history, run_history,
                 "equal rasters tiled two ways (ordered pairs of 4 layouts) used one after the other (first, second, "
                 "first again) x {geometry queries same CRS / EPSG:4326, general-path grid_intersect both ways against "
                 "a rotated raster} x {one GeoBox object, two equal objects} x {north-up, rotated}; a fresh raster per case"),
        e1.Slice("query-empty", gen_empty, run_empty,
                 "3 rasters x 2 layouts x 8 empty geometry types x {same CRS, other CRS, no CRS}: no tiles, no exception"),
        e1.Slice("pairs-cross-crs-corner", gen_corner, run_corner,
                 "EPSG:3577 raster (north-up / rotated) vs a small EPSG:4326 raster inside each corner of its lon/lat "
                 "bounding box (disjoint footprints, overlapping boxes) and at its centre, both directions"),
        e1.Slice("bbox-encodings", gen_bbenc, run_bbenc,
                 "4 layouts x {float, float32, float64, int, -0.0} x all x-intervals x y-intervals INCLUDING zero-width "
                 "ones over {+-1e10, outside, edges, interior}: pixel-plane and same-CRS BoundingBox; superset, "
                 "entry points agree, encodings agree"),
        e1.Slice("huge-rasters", gen_huge, run_huge,
                 "1e6 x 1e6 px in 2048-px tiles (regular / irregular start 512,256,512,512): all intervals over a 10-value "
                 "axis alphabet, pixel-plane ranges and (small spans) geometry queries; 4096 x 1e6 strips: grid_intersect "
                 "{identical, shifted, scaled, far shift} x layouts, exact integer oracle"),
        e1.Slice("pairs-same-crs-snap", gen_snap, run_snap,
                 "2000-px rasters: destination->source scale n+d / 1/(n+d) and whole-pixel shifts k+d with d on both "
                 "sides (x0.9, 0.999, 1.001, 1.1, 10, 500..900) of the documented snapping tolerances; exact rationals"),
        e1.Slice("history-instance", gen_hinst, run_hinst,
                 "one GeoboxTiles: every order of {triangle query, EPSG:4326 box query, linear grid_intersect, general "
                 "grid_intersect}, twice, after reading {nothing, extent, boundingbox, geographic_extent, footprint, "
                 "crs.epsg, every tile's extent}; differential against fresh objects + oracle; a raster per case"),
        e1.Slice("query-encodings", gen_enc, run_enc,
                 "raster CRS spelling (7) x query CRS spelling (13: EPSG str/int/WKT/PROJJSON/pyproj, 4326, no-EPSG Albers, "
                 "WKT with stale EPSG id) x 3 queries x {.epsg read first or not}; tile shapes / chunks in 8 spellings"),
        e1.Slice("query-odd-geometries", gen_odd, run_odd,
                 "repeated vertices, single-part Multi*/GeometryCollection, LinearRing from .exterior / .interiors x "
                 "2 rasters x 2 layouts x 2 CRS x {box, triangle} x 6x6 placements; dimension-aware oracle"),
        e1.Slice("pairs-cross-crs-tile-aspect", gen_pair_aspect, run_pair_aspect,
                 "lon/lat <-> {LAEA Europe, Albers Australia, UTM 55S}, 1000-4500 km, both directions x destination "
                 "tiles {1, 2, 4 full-width rows, 1, 2, 4 full-height columns, 2-row / 2-column quarter strips, thin "
                 "strips between thick ones (variable chunks), squares} x source tiles {squares, 4-row, 4-column strips; "
                 "thorough: 1, 2 rows / columns, mixed} x source placement {covering; moved half its size NE; thorough: "
                 "SW, destination turned 30 deg}; all tile pairs, outlines projected by the harness in 1/4-pixel pieces"),
        e1.Slice("pairs-same-crs-drift", gen_drift, run_drift,
                 "2048x40000 / 40000x2048 px rasters (4x20 tiles) x src layout x {rotation, shear-x, shear-y} x terms "
                 "+-{1e-6..5e-3} x pivot {centre, corner}; all tile pairs, exact footprints"),
    ]


def main(ctx):
    ctx.rule = (
        "complete Cartesian products (unions of products per layout) of construction parameters; every case is "
        "judged against all tiles / all tile pairs; distinct by (slice, case) hash"
    )
    ctx.bounds = {
        "layouts": {k: repr(v) for k, v in LAYOUTS.items()},
        "bases": {k: (v[0], [round(x, 6) for x in v[1]]) for k, v in BASES.items()},
        "query_axis_alphabet": "{-2.5, 0, N, N+2.5} + {e-1/4, e, e+1/2 : internal tile edges e} (thorough: + e+1, 1/2, N-3/4)",
        "placements_same_crs": list(PLACE if ctx.tier == "quick" else PLACE_THOROUGH),
        "placements_cross_crs": list(XPLACE),
        "cross_crs_resolutions": {k: {str(e): r for e, r in v.items()} for k, v in XRES.items()},
        "densification_points_per_side": NSIDE,
        "dense_queries": {"rasters": {k: [v[0], list(v[1]), v[2], v[3]] for k, v in DENSE.items()},
                          "kinds": list(DENSE_KINDS), "points_per_side": DENSE_NSIDE,
                          "overshoot_px": list(DENSE_OVERSHOOT), "asymmetry": list(DENSE_ASYM)},
        "layout_menu": {"shape": list(MENU_SHAPE), "rows": [repr(m) for m in MENU_Y], "cols": [repr(m) for m in MENU_X],
                        "relations": {k: list(v) for k, v in MENU_REL.items()}},
        "history_layouts": [repr((MENU_Y[a], MENU_X[b])) for a, b in HIST_LAYOUTS],
        "tile_aspect": {"rasters": {k: [v[0], list(v[1]), list(v[2]), v[3], list(v[4]), list(v[5])] for k, v in XASP.items()},
                        "dst_tiles": list(ASP_DST_TILES), "src_tiles": list(ASP_SRC_TILES),
                        "src_tiles_thorough": list(ASP_SRC_TILES_THOROUGH), "mixed_chunks": list(ASP_MIXED),
                        "placements": {k: list(v) for k, v in ASP_PLACE.items()}, "outline_piece_px": list(ASP_H),
                        "largest_threshold_margin": ASP_MARGIN_MAX},
        "drift_terms": list(DRIFT_TERMS), "drift_kinds": list(DRIFT_KINDS),
        "drift_layouts": {k: list(v[1]) for k, v in DRIFT_ORIENT.items()},
    }
    ctx.assumptions = [
        "a contact within 1e-6 pixel of merely touching is neither required nor forbidden",
        "query in another CRS: a tile is required (forbidden) only when it clearly intersects (is clearly disjoint) "
        "under both readings of the query's edges (straight in the query CRS / straight between projected vertices)",
        "BoundingBox queries and range_from_bbox are held to 'superset' only; a CRS-less BoundingBox is in pixel "
        "coordinates (comment in GeoboxTiles.tiles)",
        "a CRS-less Geometry against a raster that has a CRS is outside the quantifier (observed: ValueError); a "
        "CRS-less Geometry against a CRS-less raster is judged as a same-CRS query in the raster's world plane",
        "dependency edges: required when overlap > half a destination pixel (1% head-room across CRSs for the "
        "32-point densification); 'no edge' is demanded when the footprints are disjoint (gap > 1e-6 pixel same "
        "CRS, > 1/4 destination pixel across CRSs); extra edges are allowed otherwise",
        "tile-aspect slice: the half-pixel threshold is raised by 1% plus the measured uncertainty of the projected "
        "source outlines (2 x largest chord-to-curve distance x destination tile perimeter; pieces of 1/4 pixel "
        "halved until that is at most 5%)",
        "tiled GCP rasters are not enumerated (the property's quantifier lists affine rasters)",
        "nearly aligned grids (drift / snap slices): an overlap thinner than the library's documented snapping "
        "tolerances can move an edge (translation 1e-3 px, scale 1e-6, rotation 1e-8, times the raster length) is a "
        "sliver and not required even when its area exceeds half a pixel",
        "zero-length chunks: an empty tile's footprint has no interior, it is neither required nor forbidden when "
        "touched and forbidden when clearly apart",
        "empty query geometries: no tiles; a CRS-less empty geometry on a raster with CRS may also be refused (ValueError)",
        "a fully degenerate (single point) BoundingBox given in ANOTHER CRS is not enumerated (observed: GEOSException "
        "after check_and_fix collapses the polygon); zero-width / zero-area boxes in the raster's CRS and in the "
        "pixel plane are, and must return every tile that has a box point strictly inside",
        "tile shapes / chunks are enumerated in the spellings the signature admits (tuple, list, numpy ints, Shape2d, "
        "wh_, nested tuples / lists); numpy arrays are refused by the library (ValueError / TypeError) and not judged",
        "history slices: a raster of its own per case, so that remembered state comes from this case; the differential "
        "clause compares with fresh objects, the oracle clauses are state-independent",
    ]
    sl = slices(ctx.tier)
    if ctx.only:
        sl = [s for s in sl if any(s.name.startswith(o) for o in ctx.only)]
    e1.run_slices(ctx, sl)


def replay(slice_name, case, tier):
    return e1.replay(slices(tier), slice_name, case).fails
