"""setup_cmd: engine self-tests on toy systems with seeded bugs + schema validation.

A harness that has never failed has not been shown to work: every engine must (a) stay silent on a
correct toy system and (b) report the seeded bug in the broken variant, deterministically.
Nothing is installed or fetched.
"""
from __future__ import annotations

import json
import os
import shutil
import subprocess
import sys
import tempfile
from pathlib import Path

from . import core, e1
from .core import R


# -- E1 toy: integer ceil-division with an off-by-one that only shows for exact multiples ---------
def _ceil_ok(a, b):
    return -((-a) // b)


def _ceil_bad(a, b):
    return a // b + 1


def _gen():
    for a in range(0, 12):
        for b in range(1, 6):
            yield (a, b)


def _mk_run(fn):
    def run(case):
        a, b = case
        r = R(outcome=f"rem{a % b != 0}")
        q = fn(a, b)
        if not (q * b >= a and (q - 1) * b < a):
            r.fail(f"ceil:rem{a % b}", f"{a}/{b} -> {q}")
        return r

    return run


def test_e1():
    for fn, expect in ((_ceil_ok, 0), (_ceil_bad, 1)):
        ctx = core.Ctx("SELFTEST", "quick", "exploration")
        e1.run_slices(ctx, [e1.Slice("toy", _gen, _mk_run(fn))], pool_jobs=2)
        assert ctx.evaluations == 60, ctx.evaluations
        got = 1 if ctx.violations else 0
        assert got == expect, (fn.__name__, ctx.violations)
        if expect:
            assert set(ctx.violations) == {"ceil:rem0"}, ctx.violations
    print("selftest E1: ok (seeded off-by-one found on exact multiples only)")


def test_e2():
    from . import statespace

    statespace.selftest()
    print("selftest E2: ok")


def test_e3a():
    from . import sched

    sched.selftest()
    print("selftest E3a: ok")


def test_e3b():
    from . import taskgraph

    taskgraph.selftest()
    print("selftest E3b: ok")


def validate_evidence(paths=None) -> int:
    """Validate evidence files against the schema with the tooling venv's jsonschema (if present)."""
    schema = Path("/root/.vp/EVIDENCE.schema.json")
    vt = shutil.which("python3-vt") or "/opt/veriftools/pyvenv/bin/python"
    if not schema.exists() or not Path(vt).exists():
        print("selftest schema: skipped (schema or python3-vt not present)")
        return 0
    paths = paths or sorted(str(p) for p in core.EVIDENCE_DIR.glob("C*.json"))
    code = (
        "import json,sys,jsonschema\n"
        "s=json.load(open(sys.argv[1]))\n"
        "bad=0\n"
        "for p in sys.argv[2:]:\n"
        "    try:\n"
        "        jsonschema.validate(json.load(open(p)), s)\n"
        "    except Exception as e:\n"
        "        bad+=1; print('INVALID', p, str(e)[:300])\n"
        "print('schema-valid evidence files:', len(sys.argv)-2-bad, 'invalid:', bad)\n"
        "sys.exit(1 if bad else 0)\n"
    )
    return subprocess.run([vt, "-c", code, str(schema), *paths], check=False).returncode


def main() -> int:
    os.environ["VERIF_EVIDENCE_DIR"] = tempfile.mkdtemp(prefix="vf-selftest-")
    try:
        core.assert_tree()
        test_e1()
        for t in (test_e2, test_e3a, test_e3b):
            try:
                t()
            except ImportError as e:  # engine not built yet
                print(f"selftest {t.__name__}: skipped ({e})")
        # sample evidence file through the real writer, validated against the schema
        ctx = core.Ctx("C00", "quick", "exploration")
        core.EVIDENCE_DIR = Path(os.environ["VERIF_EVIDENCE_DIR"])
        e1.run_slices(ctx, [e1.Slice("toy", _gen, _mk_run(_ceil_ok))], pool_jobs=2)
        ctx.rule = "toy"
        ctx.write_evidence(0)
        rc = validate_evidence([str(core.EVIDENCE_DIR / "C00.json")])
        if rc:
            return rc
        print("selftest: all ok")
        return 0
    finally:
        shutil.rmtree(os.environ["VERIF_EVIDENCE_DIR"], ignore_errors=True)


if __name__ == "__main__":
    if len(sys.argv) > 1 and sys.argv[1] == "--validate":
        sys.exit(validate_evidence(sys.argv[2:] or None))
    sys.exit(main())
