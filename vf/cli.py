"""./check <ID> [--tier quick|thorough] [--replay file] [--jobs N]

exit 0: everything explored held (KNOWN-FINDING lines allowed)
exit 1: at least one `VIOLATION property=<id> replay=<path>` line
exit 2: the harness itself failed (never reported as a violation)
"""
from __future__ import annotations

import argparse
import importlib
import os
import sys
import traceback
import warnings


def main(argv=None) -> int:
    ap = argparse.ArgumentParser(prog="check")
    ap.add_argument("prop")
    ap.add_argument("--tier", default=os.environ.get("VERIF_TIER", "quick"),
                    choices=["quick", "thorough"])
    ap.add_argument("--replay")
    ap.add_argument("--jobs", type=int)
    ap.add_argument("--only", help="comma separated slice-name prefixes (debugging; evidence is "
                    "marked non-exhaustive)")
    args = ap.parse_args(argv)
    if args.jobs:
        os.environ["VERIF_JOBS"] = str(args.jobs)
    warnings.filterwarnings("ignore")
    os.environ.setdefault("PYTHONWARNINGS", "ignore")

    from . import core  # pylint: disable=import-outside-toplevel

    prop = args.prop.upper()
    try:
        core.assert_tree()
        mod = importlib.import_module(f"checks.{prop.lower()}")
        if args.replay:
            d = core.load_replay(args.replay)
            fails = mod.replay(d["slice"], d["case"], args.tier)
            if fails:
                for f in fails:
                    print(f"REPRODUCED key={f.key}\n  {f.msg}")
                print(f"VIOLATION property={prop} replay={args.replay}")
                return 1
            print(f"replay of {args.replay}: no violation")
            return 0
        ctx = core.Ctx(prop, args.tier, mod.LEVEL)
        ctx.only = [s for s in (args.only or "").split(",") if s]
        if ctx.only:
            ctx.capped.append(f"--only {args.only}")
        mod.main(ctx)
        return ctx.finish()
    except Exception:  # pylint: disable=broad-except
        traceback.print_exc()
        print(f"HARNESS-ERROR property={prop}", file=sys.stderr)
        return 2


if __name__ == "__main__":
    sys.exit(main())
