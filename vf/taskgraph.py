"""E3b: harness-driven execution of dask task graphs in every topological order within a
deviation bound.

The graph of a collection is converted with dask._task_spec.convert_legacy_graph, culled to the
output keys, and executed task by task by this module, so the harness owns the execution order.
Default order = always run the ready task with the smallest dask.order priority.  A deviation is
choosing any other ready task.  All executions with <= bound deviations are run, each to completion
and each on a fresh deep copy of (graph, context) because tasks mutate their inputs in place.
"""
from __future__ import annotations

import copy
from dataclasses import dataclass, field
from typing import Any, Callable, Dict, List, Optional, Sequence, Tuple


def converted(coll_or_graph, keys: Sequence[Any]):
    from dask._task_spec import convert_legacy_graph  # pylint: disable=import-outside-toplevel

    g = coll_or_graph
    if hasattr(g, "__dask_graph__"):
        g = g.__dask_graph__()
    g2 = convert_legacy_graph(dict(g))
    need, stack = set(), list(keys)
    while stack:
        k = stack.pop()
        if k in need:
            continue
        need.add(k)
        stack.extend(g2[k].dependencies)
    return {k: g2[k] for k in need}


def static_priority(g) -> Dict[Any, int]:
    from dask.order import order  # pylint: disable=import-outside-toplevel

    return order(g)


@dataclass
class Exec:
    choices: List[int]
    nready: List[int]
    order: List[Any]
    results: Dict[Any, Any]
    ctx: Any
    error: Optional[BaseException] = None
    failed_key: Any = None


class ReplayDivergence(Exception):
    pass


def run_order(graph, prio, ctxobj, prefix: Sequence[int]) -> Exec:
    """Execute a fresh copy of the graph; choices beyond `prefix` are 0 (default order)."""
    g, cx = copy.deepcopy((graph, ctxobj))
    deps = {k: set(n.dependencies) for k, n in g.items()}
    dependents: Dict[Any, List[Any]] = {k: [] for k in g}
    for k, ds in deps.items():
        for d in ds:
            dependents[d].append(k)
    waiting = {k: len(ds) for k, ds in deps.items()}
    ready = sorted((k for k, n in waiting.items() if n == 0), key=prio.__getitem__)
    done: Dict[Any, Any] = {}
    x = Exec([], [], [], done, cx)
    step = 0
    while ready:
        c = prefix[step] if step < len(prefix) else 0
        if c >= len(ready):
            raise ReplayDivergence(f"step {step}: choice {c} but only {len(ready)} ready tasks")
        k = ready.pop(c)
        x.choices.append(c)
        x.nready.append(len(ready) + 1)
        x.order.append(k)
        node = g[k]
        try:
            done[k] = node({d: done[d] for d in node.dependencies})
        except Exception as e:  # pylint: disable=broad-except
            x.error, x.failed_key = e, k
            return x
        newly = []
        for dn in dependents[k]:
            waiting[dn] -= 1
            if waiting[dn] == 0:
                newly.append(dn)
        if newly:
            ready = sorted(ready + newly, key=prio.__getitem__)
        step += 1
    if len(done) != len(g):
        raise RuntimeError("graph has a cycle or unreachable tasks")
    return x


@dataclass
class Stats:
    executions: int = 0
    tasks_run: int = 0
    max_ready: int = 0
    by_deviations: Dict[int, int] = field(default_factory=dict)
    distinct_orders: int = 0


def explore(
    graph,
    ctxobj,
    check: Callable[[Exec], None],
    bound: int,
    max_exec: Optional[int] = None,
    part: Tuple[int, int] = (0, 1),
) -> Stats:
    """Run every order with <= bound deviations; `check` judges each completed execution.

    part=(k, n): the subtrees below the first deviation are numbered in enumeration order and only
    those with number % n == k are explored (the deviation-free execution belongs to part 0), so n
    calls with k = 0..n-1 cover the space exactly once and can run in different processes."""
    prio = static_priority(graph)
    st = Stats()
    seen_orders = set()

    k, n = part
    counter = [0]

    def rec(prefix: List[int], ndev: int):
        if max_exec is not None and st.executions >= max_exec:
            return
        x = run_order(graph, prio, ctxobj, prefix)
        if x.choices[: len(prefix)] != list(prefix):
            raise ReplayDivergence("prefix not reproduced")
        mine = ndev > 0 or k == 0
        if mine:
            st.executions += 1
            st.tasks_run += len(x.order)
            st.max_ready = max([st.max_ready] + x.nready)
            st.by_deviations[ndev] = st.by_deviations.get(ndev, 0) + 1
            seen_orders.add(tuple(map(str, x.order)))
            check(x)
        if ndev >= bound:
            return
        for i in range(len(prefix), len(x.choices)):
            for alt in range(1, x.nready[i]):
                if ndev == 0:
                    q = counter[0]
                    counter[0] += 1
                    if q % n != k:
                        continue
                rec(x.choices[:i] + [alt], ndev + 1)

    rec([], 0)
    st.distinct_orders = len(seen_orders)
    return st


# -------------------------------------------------------------------------------------------------
def selftest():
    from dask._task_spec import Task, TaskRef  # pylint: disable=import-outside-toplevel

    # two tasks append to a shared list held by the context; a third reads it.  Shared state is
    # reached through callable *objects* (deep-copied together with the graph), never through
    # closures, which deepcopy treats as atoms.
    class Cx:
        def __init__(self):
            self.log = []

    class Put:
        def __init__(self, cx):
            self.cx = cx

        def __call__(self, v):
            self.cx.log.append(v)
            return v

    class Total:
        def __init__(self, cx, bug):
            self.cx, self.bug = cx, bug

        def __call__(self, a, b):
            return self.cx.log[0] * 10 + self.cx.log[1] if self.bug else a * 10 + b

    def mk(bug):
        cx = Cx()
        g = {
            "a": Task("a", Put(cx), 1),
            "b": Task("b", Put(cx), 2),
            "c": Task("c", Total(cx, bug), TaskRef("a"), TaskRef("b")),
        }
        return g, cx

    for bug, bound, expect in ((False, 1, 1), (True, 0, 1), (True, 1, 2)):
        g, cx = mk(bug)
        outs = set()
        st = explore(g, cx, lambda x, outs=outs: outs.add(x.results["c"]), bound)
        assert len(outs) == expect and outs <= {12, 21}, (bug, bound, outs)
        assert cx.log == [], "original context must stay untouched"
    assert st.executions == 2 and st.distinct_orders == 2, st
