"""E2: explicit-state search over real transition functions.

* ``interval_dp``: reachable states of *every* binary merge tree over n adjacent leaves, by dynamic
  programming over intervals: reach[i,j] = { merge(l, r) : i<k<j, l in reach[i,k], r in reach[k,j] }.
  States are immutable canonical values; the caller's ``merge`` rebuilds live objects from them, calls
  the real transition and canonicalises the result, so every transition is an implementation step.
  Back-pointers give, for any state, one concrete merge tree that reaches it (the replay artefact).
* ``bfs``: breadth-first search over event sequences with deduplication on a canonical key.
"""
from __future__ import annotations

import collections
from dataclasses import dataclass, field
from typing import Any, Callable, Dict, Hashable, Iterable, List, Optional, Tuple


class StepError(Exception):
    """Raised by a transition wrapper to report that the real code failed in this step."""

    def __init__(self, key: str, msg: str):
        super().__init__(msg)
        self.key = key
        self.msg = msg


@dataclass
class DPResult:
    roots: List[Hashable]
    states: int = 0
    transitions: int = 0
    errors: List[Tuple[str, str, Any]] = field(default_factory=list)  # (key, msg, tree)
    deriv: Dict[Tuple[int, int, Hashable], Any] = field(default_factory=dict)
    reach: Dict[Tuple[int, int], List[Hashable]] = field(default_factory=dict)  # reachable states per interval

    def tree(self, i: int, j: int, state: Hashable):
        """One merge tree reaching `state` on [i,j): leaf index or (left_tree, right_tree)."""
        d = self.deriv[(i, j, state)]
        if d is None:
            return i
        k, l, r = d
        return (self.tree(i, k, l), self.tree(k, j, r))


def interval_dp(
    n: int,
    leaf: Callable[[int], Hashable],
    merge: Callable[[Hashable, Hashable], Hashable],
) -> DPResult:
    res = DPResult(roots=[])
    reach: Dict[Tuple[int, int], List[Hashable]] = {}
    for i in range(n):
        try:
            s = leaf(i)
        except StepError as e:
            res.errors.append((e.key, e.msg, i))
            reach[(i, i + 1)] = []
            continue
        res.transitions += 1
        reach[(i, i + 1)] = [s]
        res.deriv[(i, i + 1, s)] = None
    for span in range(2, n + 1):
        for i in range(0, n - span + 1):
            j = i + span
            seen: Dict[Hashable, None] = {}
            for k in range(i + 1, j):
                for l in reach[(i, k)]:
                    for r in reach[(k, j)]:
                        res.transitions += 1
                        try:
                            s = merge(l, r)
                        except StepError as e:
                            res.errors.append((e.key, e.msg, (res.tree(i, k, l), res.tree(k, j, r))))
                            continue
                        if s not in seen:
                            seen[s] = None
                            res.deriv[(i, j, s)] = (k, l, r)
            reach[(i, j)] = list(seen)
    res.states = sum(len(v) for v in reach.values())
    res.roots = reach[(0, n)] if n > 0 else []
    res.reach = reach
    return res


def count_trees(n: int) -> int:
    """Catalan(n-1): number of binary merge trees over n leaves (for reporting)."""
    c = [1, 1]
    for m in range(2, n + 1):
        c.append(sum(c[k] * c[m - k] for k in range(1, m)))
    return c[n] if n >= 1 else 0


# -------------------------------------------------------------------------------------------------
@dataclass
class BFSResult:
    states: int = 0
    transitions: int = 0
    max_depth: int = 0
    errors: List[Tuple[str, str, Any]] = field(default_factory=list)  # (key, msg, history)
    outcomes: collections.Counter = field(default_factory=collections.Counter)


def bfs(
    init: Iterable[Tuple[Any, Any]],  # (history-label, live state)
    events: Callable[[Any], Iterable[Any]],  # enabled events in a state
    step: Callable[[Any, Any], Any],  # (state, event) -> new live state (must not mutate input)
    canon: Callable[[Any], Hashable],
    invariant: Callable[[Any, Tuple[Any, ...]], Optional[Tuple[str, str]]],
    max_depth: int,
    max_states: Optional[int] = None,
) -> BFSResult:
    """Generic breadth-first search. Live states are kept (values) — for objects that cannot be
    kept the caller makes `state` the event history and rebuilds inside step/canon."""
    res = BFSResult()
    seen = set()
    frontier = collections.deque()
    for label, st in init:
        k = canon(st)
        if k in seen:
            continue
        seen.add(k)
        hist = (label,)
        bad = invariant(st, hist)
        if bad:
            res.errors.append((bad[0], bad[1], hist))
        frontier.append((st, hist, 0))
    while frontier:
        st, hist, d = frontier.popleft()
        res.max_depth = max(res.max_depth, d)
        if d >= max_depth:
            continue
        for ev in events(st):
            res.transitions += 1
            try:
                nxt = step(st, ev)
            except StepError as e:
                res.errors.append((e.key, e.msg, hist + (ev,)))
                continue
            h2 = hist + (ev,)
            bad = invariant(nxt, h2)
            if bad:
                res.errors.append((bad[0], bad[1], h2))
            k = canon(nxt)
            if k in seen:
                continue
            seen.add(k)
            if max_states is not None and len(seen) > max_states:
                res.outcomes["cap-hit"] += 1
                res.states = len(seen)
                return res
            frontier.append((nxt, h2, d + 1))
    res.states = len(seen)
    return res


# -------------------------------------------------------------------------------------------------
def selftest():
    # toy merge system: state = (sum, credits). Correct merge adds; the seeded bug drops the right
    # credit when the *left* operand is itself a merge result with an odd sum - visible only for
    # some bracketings.
    vals = [1, 2, 3, 4]

    def leaf(i):
        return (vals[i], 1, False)

    def mk(bug):
        def merge(l, r):
            s = l[0] + r[0]
            c = l[1] + r[1]
            if bug and l[2] and l[0] % 2 == 1 and r[2]:
                c -= 1
            return (s, c, True)

        return merge

    ok = interval_dp(4, leaf, mk(False))
    assert ok.roots == [(10, 4, True)], ok.roots
    assert ok.transitions == 4 + 3 + 4 + 3, ok.transitions  # leaves + spans 2,3,4 (deduplicated)
    bad = interval_dp(4, leaf, mk(True))
    assert set(bad.roots) == {(10, 4, True), (10, 3, True)}, bad.roots
    t = bad.tree(0, 4, (10, 3, True))
    assert t == ((0, 1), (2, 3)), t  # only the balanced tree exposes it
    assert count_trees(4) == 5

    # bfs toy: counter mod 6 with events +1,+2; invariant "never 5 after exactly two +2 steps"
    r = bfs(
        [("init", 0)],
        lambda s: ("+1", "+2"),
        lambda s, e: (s + int(e)) % 6,
        lambda s: s,
        lambda s, h: ("hit5", str(h)) if s == 5 and h.count("+2") == 2 else None,
        max_depth=4,
    )
    assert r.states == 6 and r.errors and r.errors[0][2] == ("init", "+1", "+2", "+2"), r
