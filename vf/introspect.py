"""Finding module-level caches of the tree under verification by introspection rather than by name, so that a rename or
a change of the cache's data structure (cachetools wrapper -> hand-written dict, flat -> nested) does not break a harness
that needs to reset them between cases."""
from __future__ import annotations

from collections.abc import MutableMapping
from typing import Dict


def cache_containers(mod) -> Dict[str, MutableMapping]:
    out: Dict[str, MutableMapping] = {}
    for name, obj in vars(mod).items():
        if isinstance(obj, MutableMapping) and name.startswith("_") and not name.startswith("__"):
            out[name] = obj
        elif callable(obj) and getattr(obj, "__module__", None) == mod.__name__:
            c = getattr(obj, "cache", None)
            if isinstance(c, MutableMapping):
                out[f"{name}.cache"] = c
    return out


def clear_caches(mod) -> int:
    """Empty every module-level private mapping and every `.cache` mapping of the module's functions, and call
    `cache_clear()` on functools-style wrappers. Returns the number of containers cleared."""
    n = 0
    for c in cache_containers(mod).values():
        c.clear()
        n += 1
    for obj in list(vars(mod).values()):
        cc = getattr(obj, "cache_clear", None)
        if callable(cc) and getattr(obj, "__module__", None) == mod.__name__:
            try:
                cc()
                n += 1
            except Exception:  # pylint: disable=broad-except
                pass
    return n
