"""Finding module-level caches of the tree under verification by introspection rather than by name, so that a rename or
a change of the cache's data structure (cachetools wrapper -> hand-written dict, flat -> nested) does not break a harness
that needs to reset them between cases."""
from __future__ import annotations

from collections.abc import MutableMapping
from typing import Dict


def cache_containers(mod) -> Dict[str, MutableMapping]:
    out: Dict[str, MutableMapping] = {}
    for name, obj in vars(mod).items():
        if isinstance(obj, MutableMapping) and name.startswith("_") and not name.startswith("__"):
            out[name] = obj
        elif callable(obj) and getattr(obj, "__module__", None) == mod.__name__:
            c = getattr(obj, "cache", None)
            if isinstance(c, MutableMapping):
                out[f"{name}.cache"] = c
    return out


def clear_caches(mod) -> int:
    """Empty every module-level private mapping and every `.cache` mapping of the module's functions, and call
    `cache_clear()` on functools-style wrappers. Returns the number of containers cleared."""
    n = 0
    for c in cache_containers(mod).values():
        c.clear()
        n += 1
    for obj in list(vars(mod).values()):
        cc = getattr(obj, "cache_clear", None)
        if callable(cc) and getattr(obj, "__module__", None) == mod.__name__:
            try:
                cc()
                n += 1
            except Exception:  # pylint: disable=broad-except
                pass
    return n


class ModuleState:
    """Snapshot of the mutable module-level state of a module of the tree under verification, taken when the harness
    imports it (before any case has run), and a way to put it back. Covers (a) private module-level mappings and `.cache`
    mappings of the module's functions - restored to their snapshot CONTENT rather than emptied, so that a constant lookup
    table that merely looks like a cache is left intact; (b) private module-level instances of classes defined in the
    module itself (a "most recent result" holder, a registry object): their attributes are restored; (c) private
    module-level lists and sets. Anything else (closures, class attributes) is out of reach and documented as such."""

    def __init__(self, mod):
        self.mod = mod
        self.maps = {k: dict(v) for k, v in cache_containers(mod).items()}
        self.objs = {}
        self.seqs = {}
        for name, obj in vars(mod).items():
            if not name.startswith("_") or name.startswith("__"):
                continue
            if isinstance(obj, (list, set)):
                self.seqs[name] = type(obj)(obj)
            elif (type(obj).__module__ == mod.__name__ and not isinstance(obj, type) and not callable(obj)
                  and not isinstance(obj, MutableMapping)):
                self.objs[name] = self._attrs(obj)

    @staticmethod
    def _attrs(obj):
        out = {}
        for klass in type(obj).__mro__:
            for s in getattr(klass, "__slots__", ()) or ():
                if isinstance(s, str) and hasattr(obj, s):
                    out[s] = getattr(obj, s)
        out.update(getattr(obj, "__dict__", {}))
        return out

    def restore(self) -> None:
        live = cache_containers(self.mod)
        for k, snap in self.maps.items():
            c = live.get(k)
            if c is None:
                continue
            c.clear()
            try:
                c.update(snap)
            except Exception:  # pylint: disable=broad-except
                pass
        for name, attrs in self.objs.items():
            obj = getattr(self.mod, name, None)
            if obj is None:
                continue
            for a, v in attrs.items():
                try:
                    setattr(obj, a, v)
                except Exception:  # pylint: disable=broad-except
                    pass
        for name, snap in self.seqs.items():
            obj = getattr(self.mod, name, None)
            if isinstance(obj, list):
                obj[:] = list(snap)
            elif isinstance(obj, set):
                obj.clear()
                obj.update(snap)
        for obj in list(vars(self.mod).values()):
            cc = getattr(obj, "cache_clear", None)
            if callable(cc) and getattr(obj, "__module__", None) == self.mod.__name__:
                try:
                    cc()
                except Exception:  # pylint: disable=broad-except
                    pass
