"""Shared infrastructure: context, violations, evidence, known findings, replay files."""
from __future__ import annotations

import base64
import fnmatch
import hashlib
import json
import os
import pickle
import sys
import time
import traceback
from collections import Counter
from dataclasses import dataclass, field
from pathlib import Path
from typing import Any, Callable, Dict, Iterable, List, Optional, Tuple

VERIF = Path(__file__).resolve().parent.parent
REPO = Path(os.environ.get("VERIF_REPO", "/repo")).resolve()
EVIDENCE_DIR = Path(os.environ.get("VERIF_EVIDENCE_DIR", VERIF / "evidence"))
REPLAY_DIR = Path(os.environ.get("VERIF_REPLAY_DIR", VERIF / "replays"))
FINDINGS_FILE = VERIF / "known_findings.json"

MAX_VIOLATION_LINES = 25


def seed() -> int:
    try:
        return int(os.environ.get("VERIF_SEED", "0"))
    except ValueError:
        return 0


def jobs() -> int:
    try:
        return max(1, int(os.environ.get("VERIF_JOBS", "16")))
    except ValueError:
        return 16


def h64(obj: Any) -> int:
    """Deterministic 63-bit hash of repr(obj) (independent of PYTHONHASHSEED)."""
    d = hashlib.blake2b(repr(obj).encode(), digest_size=8).digest()
    return int.from_bytes(d, "little") >> 1


def source_hash() -> str:
    h = hashlib.sha256()
    root = REPO / "odc" / "geo"
    for p in sorted(root.rglob("*.py")):
        h.update(str(p.relative_to(root)).encode())
        h.update(p.read_bytes())
    return h.hexdigest()[:16]


def assert_tree() -> str:
    import odc.geo  # pylint: disable=import-outside-toplevel

    f = Path(odc.geo.__file__).resolve()
    if REPO not in f.parents:
        raise RuntimeError(f"odc.geo imported from {f}, expected under {REPO}")
    return str(f)


def in_repo_tb(exc: BaseException) -> bool:
    """True when the exception passed through code of the tree under verification."""
    tb = exc.__traceback__
    root = str(REPO / "odc")
    while tb is not None:
        if tb.tb_frame.f_code.co_filename.startswith(root):
            return True
        tb = tb.tb_next
    return False


def raise_site(exc: BaseException) -> str:
    """file:function of the innermost frame inside the tree under verification."""
    tb = exc.__traceback__
    root = str(REPO / "odc")
    site = "?"
    while tb is not None:
        co = tb.tb_frame.f_code
        if co.co_filename.startswith(root):
            site = f"{Path(co.co_filename).name}:{co.co_name}"
        tb = tb.tb_next
    return site


@dataclass
class Fail:
    """One violated oracle clause for one case."""

    key: str  # finding key: names the failing input class
    msg: str


@dataclass
class R:
    """Result of judging one case."""

    outcome: str = "ok"  # coarse label of what was observed (vacuity detector)
    nontrivial: bool = True
    fails: List[Fail] = field(default_factory=list)
    counts: Dict[str, int] = field(default_factory=dict)  # summed over all cases into ctx.counters

    def fail(self, key: str, msg: str) -> "R":
        self.fails.append(Fail(key, msg))
        return self


@dataclass
class Violation:
    key: str
    msg: str
    slice: str
    case: Any
    count: int = 1


class Findings:
    def __init__(self) -> None:
        self.entries: List[dict] = []
        if FINDINGS_FILE.exists():
            self.entries = json.loads(FINDINGS_FILE.read_text()).get("findings", [])

    def match(self, prop: str, key: str) -> Optional[dict]:
        for e in self.entries:
            if e.get("property") != prop or e.get("status") != "known":
                continue
            for pat in e.get("keys", []):
                if fnmatch.fnmatchcase(key, pat):
                    return e
        return None


def to_jsonable(x: Any, depth: int = 0) -> Any:
    if depth > 6:
        return repr(x)
    if isinstance(x, (str, int, bool)) or x is None:
        return x
    if isinstance(x, float):
        return x if x == x and abs(x) != float("inf") else repr(x)
    if isinstance(x, (list, tuple)):
        return [to_jsonable(v, depth + 1) for v in x]
    if isinstance(x, dict):
        return {str(k): to_jsonable(v, depth + 1) for k, v in x.items()}
    return repr(x)


class Ctx:
    """Per-run accumulator. Checks call its methods; cli writes evidence from it."""

    def __init__(self, prop: str, tier: str, level: str) -> None:
        self.prop = prop
        self.tier = tier
        self.level = level
        self.seed = seed()
        self.jobs = jobs()
        self.t0 = time.time()
        self.evaluations = 0
        self.nontrivial_hashes: List[Any] = []  # numpy arrays or python sets
        self.nontrivial_extra = 0  # counted by construction (documented in rule)
        self.outcomes: Counter = Counter()
        self.counters: Counter = Counter()
        self.only: List[str] = []
        self.slices: List[dict] = []
        self.samples: List[Any] = []
        self.violations: Dict[str, Violation] = {}
        self.rule = ""
        self.bounds: Dict[str, Any] = {}
        self.assumptions: List[str] = []
        self.extra: Dict[str, Any] = {}
        self.exhaustive = True
        self.capped: List[str] = []
        self.findings = Findings()
        self.known_hits: Dict[str, Tuple[dict, Violation]] = {}

    # -- recording ---------------------------------------------------------------------------
    def add_violation(self, key: str, msg: str, slice_name: str, case: Any, count: int = 1):
        v = self.violations.get(key)
        if v is None:
            self.violations[key] = Violation(key, msg, slice_name, case, count)
        else:
            v.count += count

    def add_sample(self, s: Any, limit: int = 12):
        if len(self.samples) < limit:
            self.samples.append(to_jsonable(s))

    def distinct_nontrivial(self) -> int:
        import numpy as np  # pylint: disable=import-outside-toplevel

        arrs = [np.asarray(list(a) if isinstance(a, (set, frozenset)) else a, dtype="uint64")
                for a in self.nontrivial_hashes]
        arrs = [a for a in arrs if a.size]
        n = int(np.unique(np.concatenate(arrs)).size) if arrs else 0
        return n + self.nontrivial_extra

    # -- output ------------------------------------------------------------------------------
    def finish(self) -> int:
        """Print verdict lines, write evidence, return exit code."""
        unknown: List[Violation] = []
        for key in sorted(self.violations):
            v = self.violations[key]
            e = self.findings.match(self.prop, key)
            if e is not None:
                self.known_hits.setdefault(e["id"], (e, v))
            else:
                unknown.append(v)
        for fid in sorted(self.known_hits):
            e, v = self.known_hits[fid]
            print(f"KNOWN-FINDING: property={self.prop} {e['what']} [{fid}; e.g. key={v.key}]")
        replays = []
        for v in unknown[:MAX_VIOLATION_LINES]:
            path = write_replay(self.prop, v)
            replays.append(str(path))
            print(f"VIOLATION property={self.prop} replay={path}")
            print(f"  key={v.key} count={v.count} slice={v.slice}\n  {v.msg[:600]}")
        if len(unknown) > MAX_VIOLATION_LINES:
            print(f"  ... {len(unknown) - MAX_VIOLATION_LINES} more distinct finding keys without replay files:")
            for v in unknown[MAX_VIOLATION_LINES:MAX_VIOLATION_LINES + 400]:
                print(f"    key={v.key} count={v.count}")
        self.write_evidence(len(unknown))
        wall = time.time() - self.t0
        print(
            f"[{self.prop}] tier={self.tier} evaluations={self.evaluations} "
            f"distinct_nontrivial={self._dn} outcomes={len(self.outcomes)} "
            f"violations={len(unknown)} known={len(self.known_hits)} wall={wall:.1f}s"
        )
        return 1 if unknown else 0

    def write_evidence(self, n_viol: int) -> None:
        self._dn = self.distinct_nontrivial()
        cov: Dict[str, Any] = {
            "evaluations": int(self.evaluations),
            "distinct_nontrivial": int(self._dn),
            "rule": self.rule,
            "samples": self.samples[:12] or ["<none>"],
            "exhaustive": bool(self.exhaustive and not self.capped),
            "bounds": to_jsonable(self.bounds),
            "slices": self.slices,
            "distinct_outcomes": len(self.outcomes),
            "outcomes": {k: int(v) for k, v in self.outcomes.most_common(40)},
            "source_hash": source_hash(),
            "tree": str(REPO),
            "known_findings_hit": sorted(self.known_hits),
        }
        if self.capped:
            cov["caps_hit"] = self.capped
        cov.update(to_jsonable(self.extra))
        ev = {
            "property_id": self.prop,
            "tier": self.tier,
            "seed": self.seed,
            "level": self.level,
            "coverage": cov,
            "assumptions": self.assumptions,
            "wall_s": round(time.time() - self.t0, 3),
            "violations": int(n_viol),
        }
        # partial (--only) debugging runs never overwrite the evidence of a complete run
        edir = EVIDENCE_DIR / "partial" if self.only else EVIDENCE_DIR
        edir.mkdir(parents=True, exist_ok=True)
        tmp = edir / f".{self.prop}.json.tmp"
        tmp.write_text(json.dumps(ev, indent=1, sort_keys=False) + "\n")
        tmp.replace(edir / f"{self.prop}.json")


def write_replay(prop: str, v: Violation) -> Path:
    REPLAY_DIR.mkdir(parents=True, exist_ok=True)
    blob = pickle.dumps(v.case, protocol=4)
    name = f"{prop}-{hashlib.sha1(v.key.encode() + blob).hexdigest()[:12]}.json"
    path = REPLAY_DIR / name
    path.write_text(
        json.dumps(
            {
                "property": prop,
                "slice": v.slice,
                "key": v.key,
                "message": v.msg,
                "count": v.count,
                "case_repr": repr(v.case),
                "case_pickle_b64": base64.b64encode(blob).decode(),
                "how": f"./check {prop} --replay {path}",
            },
            indent=1,
        )
        + "\n"
    )
    return path


def load_replay(path: str) -> dict:
    d = json.loads(Path(path).read_text())
    d["case"] = pickle.loads(base64.b64decode(d["case_pickle_b64"]))
    return d
