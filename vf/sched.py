"""E3a: stateless exploration of thread interleavings with iterative preemption bounding (CHESS).

Worker bodies run in real Python threads but only the thread holding the baton runs.  Scheduling
points are (a) every `line` trace event inside the files under test (sys.settrace) and (b) every
operation of the cooperative fakes (locks, shared variables, storage client) which call
``Sched.point`` themselves.  A real ``threading.Lock`` inside the code under test would hang the
baton scheme, so the harness replaces them with ``FakeLock``.

Canonical order of enabled threads at a point: the running thread first (if still enabled), then
ascending ids; choice 0 is "keep running".  Choosing another thread while the running one is still
enabled costs one preemption; switches forced by blocking or termination are free.  ``explore``
runs every schedule whose cost is <= bound, each from scratch, replaying the chosen prefix (a
divergence while replaying is a hard error) and taking choice 0 afterwards.
"""
from __future__ import annotations

import sys
import threading
from dataclasses import dataclass, field
from typing import Any, Callable, Dict, List, Optional, Sequence, Tuple


class Abort(BaseException):
    """Raised inside worker threads to unwind them when an execution is abandoned (deadlock)."""


class ReplayDivergence(Exception):
    pass


class _T:
    def __init__(self, idx: int, fn: Callable[[], Any], name: str):
        self.idx, self.fn, self.name = idx, fn, name
        self.sem = threading.Semaphore(0)
        self.state = "ready"  # ready | blocked | done
        self.blocked_on: Any = None
        self.result: Any = None
        self.error: Optional[BaseException] = None
        self.thread: Optional[threading.Thread] = None


class Sched:
    def __init__(self, prefix: Sequence[int], trace_files: Sequence[str], max_points: int = 20000,
                 exclude_funcs: Sequence[str] = ()):
        self.prefix = list(prefix)
        self.trace_files = set(trace_files)
        # functions that run while a *real* lock of a third-party library is held must not contain
        # scheduling points (e.g. __dask_tokenize__ runs under dask's global tokenize lock)
        self.exclude_funcs = set(exclude_funcs)
        self.choices: List[int] = []
        self.points: List[Tuple[int, bool]] = []  # (number enabled, running thread still enabled)
        self.labels: List[Any] = []
        self.threads: List[_T] = []
        self.current: Optional[_T] = None
        self.aborting = False
        self.deadlock = False
        self.livelock = False
        self.max_points = max_points
        self.npoints = 0
        self._main = threading.Semaphore(0)
        self.trace: List[Tuple[int, Any]] = []  # (thread, label) of every executed point

    # -- set-up ------------------------------------------------------------------------------
    def spawn(self, fn: Callable[[], Any], name: str = "") -> _T:
        t = _T(len(self.threads), fn, name or f"t{len(self.threads)}")
        self.threads.append(t)
        return t

    def me(self) -> _T:
        return self.current  # type: ignore

    # -- execution ---------------------------------------------------------------------------
    def run(self) -> "Sched":
        for t in self.threads:
            t.thread = threading.Thread(target=self._body, args=(t,), daemon=True)
            t.thread.start()
        self._decide(None, "start")
        if not self._main.acquire(timeout=60):
            raise RuntimeError(
                "execution did not finish within 60 s: a worker is blocked on a real lock outside the "
                "scheduler's control (harness bug, never reported as a violation)")
        for t in self.threads:
            t.thread.join(timeout=30)
            if t.thread.is_alive():
                raise RuntimeError("scheduler lost a thread (harness bug)")
        return self

    def _body(self, t: _T) -> None:
        t.sem.acquire()
        if not self.aborting:
            sys.settrace(self._tracer)
            try:
                t.result = t.fn()
            except Abort:
                pass
            except BaseException as e:  # pylint: disable=broad-except
                t.error = e
            finally:
                sys.settrace(None)
        t.state = "done"
        self._decide(t, "exit")

    def _tracer(self, frame, event, arg):
        co = frame.f_code
        if event == "call" and co.co_filename in self.trace_files and co.co_name not in self.exclude_funcs:
            return self._local
        return None

    def _local(self, frame, event, arg):
        if event == "line":
            self.point(("line", frame.f_lineno))
        return self._local

    # -- scheduling --------------------------------------------------------------------------
    def point(self, label: Any = None) -> None:
        """A scheduling point reached by the running thread."""
        t = self.current
        if t is None or threading.current_thread() is not t.thread:
            return  # called from outside a managed thread (set-up code): not a scheduling point
        if self.aborting:
            raise Abort()
        self.npoints += 1
        if self.npoints > self.max_points:
            self.livelock = True
            self.aborting = True
            raise Abort()
        self.trace.append((t.idx, label))
        self._decide(t, label)

    def block(self, on: Any) -> None:
        """Running thread cannot proceed until `on` wakes it (see wake)."""
        t = self.me()
        t.state, t.blocked_on = "blocked", on
        self._decide(t, ("blocked", getattr(on, "name", None)))

    def wake(self, on: Any) -> None:
        for u in self.threads:
            if u.state == "blocked" and u.blocked_on is on:
                u.state, u.blocked_on = "ready", None

    def _decide(self, t: Optional[_T], label: Any) -> None:
        running_enabled = t is not None and t.state == "ready"
        enabled = ([t] if running_enabled else []) + [
            u for u in self.threads if u is not t and u.state == "ready"
        ]
        if self.aborting:
            # unwind: wake every thread that is not done, one at a time
            rest = [u for u in self.threads if u.state != "done" and u is not t]
            if rest:
                nxt = rest[0]
                nxt.state = "ready"
                self.current = nxt
                nxt.sem.release()
            else:
                self._main.release()
            if t is not None and t.state != "done":
                raise Abort()
            return
        if not enabled:
            if all(u.state == "done" for u in self.threads):
                self._main.release()
                return
            self.deadlock = True
            self.aborting = True
            self._decide(t, label)
            return
        if len(enabled) > 1:
            i = len(self.choices)
            c = self.prefix[i] if i < len(self.prefix) else 0
            if c >= len(enabled):
                self.aborting = True
                self.diverged = f"choice {c} at point {i} but {len(enabled)} enabled"
                self._decide(t, label)
                return
            self.choices.append(c)
            self.points.append((len(enabled), running_enabled))
            self.labels.append((t.idx if t else None, label))
            nxt = enabled[c]
        else:
            nxt = enabled[0]
        if nxt is t:
            return
        self.current = nxt
        nxt.sem.release()
        if t is not None and t.state != "done":
            t.sem.acquire()
            if self.aborting:
                raise Abort()

    diverged: Optional[str] = None

    # -- observations ------------------------------------------------------------------------
    def errors(self) -> List[Tuple[str, BaseException]]:
        return [(t.name, t.error) for t in self.threads if t.error is not None]


class FakeLock:
    """Cooperative, non-reentrant lock: acquire/release are scheduling points; blocking is visible."""

    def __init__(self, sched: Sched, name: str = "lock"):
        self.sched, self.name = sched, name
        self.owner: Optional[_T] = None
        self.acquisitions = 0

    def acquire(self, blocking: bool = True, timeout: float = -1) -> bool:
        s = self.sched
        s.point(("lock.acquire", self.name))
        while self.owner is not None:
            if not blocking:
                return False
            s.block(self)
        self.owner = s.me()
        self.acquisitions += 1
        return True

    def release(self) -> None:
        assert self.owner is not None, "release of an unlocked lock"
        self.owner = None
        self.sched.wake(self)
        self.sched.point(("lock.release", self.name))

    def locked(self) -> bool:
        return self.owner is not None

    def __enter__(self):
        self.acquire()
        return self

    def __exit__(self, *a):
        self.release()
        return False


@dataclass
class ExploreStats:
    schedules: int = 0
    points: int = 0
    max_choice_points: int = 0
    by_cost: Dict[int, int] = field(default_factory=dict)
    deadlocks: int = 0
    distinct_traces: int = 0


def explore(
    make: Callable[[Sequence[int]], Sched],
    check: Callable[[Sched], None],
    bound: int,
    max_schedules: Optional[int] = None,
    part: Tuple[int, int] = (0, 1),
) -> ExploreStats:
    """`make(prefix)` builds a fresh system + scheduler and runs it to completion.

    part=(k, n): the subtrees below the first deviation from the default schedule are numbered in enumeration
    order and only those with number % n == k are explored (the default schedule itself belongs to part 0), so n
    calls with k = 0..n-1 cover the space exactly once and can run in different processes."""
    st = ExploreStats()
    traces = set()
    k, n = part
    counter = [0]

    def rec(prefix: List[int], cost: int, depth: int) -> None:
        if max_schedules is not None and st.schedules >= max_schedules:
            return
        x = make(prefix)
        if x.diverged or x.choices[: len(prefix)] != list(prefix):
            raise ReplayDivergence(f"prefix {prefix} not reproduced: {x.diverged or x.choices}")
        if depth > 0 or k == 0:
            st.schedules += 1
            st.points += x.npoints
            st.max_choice_points = max(st.max_choice_points, len(x.choices))
            st.by_cost[cost] = st.by_cost.get(cost, 0) + 1
            st.deadlocks += 1 if x.deadlock else 0
            traces.add(hash(tuple(i for i, _ in x.trace)))
            check(x)
        for i in range(len(prefix), len(x.choices)):
            n_en, running_enabled = x.points[i]
            c2 = cost + (1 if running_enabled else 0)
            if c2 > bound:
                continue
            for alt in range(1, n_en):
                if depth == 0:
                    q = counter[0]
                    counter[0] += 1
                    if q % n != k:
                        continue
                rec(x.choices[:i] + [alt], c2, depth + 1)

    rec([], 0, 0)
    st.distinct_traces = len(traces)
    return st


# -------------------------------------------------------------------------------------------------
def selftest():
    # classic check-then-act: two threads increment a counter through read / yield / write.
    # Correct variant holds a FakeLock around the read-modify-write.
    class Box:
        def __init__(self):
            self.v = 0

    def mk(locked):
        def make(prefix):
            s = Sched(prefix, [])
            box = Box()
            lk = FakeLock(s)

            def body():
                if locked:
                    lk.acquire()
                tmp = box.v
                s.point("between read and write")
                box.v = tmp + 1
                if locked:
                    lk.release()

            s.spawn(body)
            s.spawn(body)
            s.box = box
            return s.run()

        return make

    for locked, bound, expect in ((True, 2, {2}), (False, 0, {2}), (False, 1, {1, 2})):
        seen = set()
        st = explore(mk(locked), lambda x, seen=seen: seen.add(x.box.v), bound)
        assert seen == expect, (locked, bound, seen, st)
        assert st.deadlocks == 0
    # deadlock detection: two locks taken in opposite order
    def make_dl(prefix):
        s = Sched(prefix, [])
        a, b = FakeLock(s, "a"), FakeLock(s, "b")

        def t1():
            with a:
                with b:
                    pass

        def t2():
            with b:
                with a:
                    pass

        s.spawn(t1)
        s.spawn(t2)
        return s.run()

    st = explore(make_dl, lambda x: None, 1)
    assert st.deadlocks > 0 and st.by_cost[0] == 2, st  # free choice of the first thread
    # determinism: same prefix twice -> same trace
    x1, x2 = mk(False)([0, 1]), mk(False)([0, 1])
    assert x1.trace == x2.trace and x1.choices == x2.choices
