"""E1: bounded-exhaustive case enumeration, sharded over long-lived worker processes.

A Slice is a named finite space: ``gen()`` yields every case of a complete Cartesian product (or
a union of such), ``run(case)`` executes the real code and judges it with an independent oracle,
returning ``core.R``.  Every slice is enumerated completely; nothing is sampled.  VERIF_SEED only
rotates the shard order and chooses which explored cases are shown as samples.
"""
from __future__ import annotations

import multiprocessing as mp
import os
import signal
import sys
import time
import traceback
from concurrent.futures import ProcessPoolExecutor, as_completed
from concurrent.futures.process import BrokenProcessPool
from collections import Counter
from dataclasses import dataclass
from typing import Any, Callable, Iterable, List, Optional

import numpy as np

from . import core
from .core import R, Ctx

MAX_FAILS_PER_SHARD = 400


@dataclass
class Slice:
    name: str
    gen: Callable[[], Iterable[Any]]
    run: Callable[[Any], R]
    note: str = ""
    shards: Optional[int] = None  # default: 64, independent of the number of jobs (determinism)
    setup: Optional[Callable[[], None]] = None  # per-shard reset (e.g. caches)


class HarnessError(Exception):
    pass


class CaseTimeout(BaseException):
    """Raised (from a SIGPROF handler) inside a case that has used more CPU time than CASE_CPU_LIMIT.
    BaseException so that an `except Exception` in the code under test cannot swallow it."""


# CPU seconds (user + system of the worker process, NOT wall time: independent of machine load) one case may use.
# The slowest legitimate cases use a few tens of CPU seconds; a case beyond this is a non-terminating computation.
CASE_CPU_LIMIT = float(os.environ.get("VERIF_CASE_CPU_LIMIT", "900"))

_SLICES: List[Slice] = []
_ABORT = None  # shared flags, one per slice: set once a case of that slice did not terminate (other shards stop early)


def _on_sigprof(signum, frame):  # pylint: disable=unused-argument
    raise CaseTimeout()


def _judge(sl: Slice, case: Any) -> R:
    try:
        r = sl.run(case)
        if r is None:
            r = R()
        return r
    except CaseTimeout as e:
        if core.in_repo_tb(e):
            site = core.raise_site(e)
            return R(outcome="did-not-terminate").fail(
                f"non-termination:cpu>{int(CASE_CPU_LIMIT)}s@{site}",
                f"case {case!r} used more than {int(CASE_CPU_LIMIT)} CPU seconds and was interrupted inside the tree under "
                f"verification at {site}",
            )
        raise HarnessError(
            f"case {case!r} of slice {sl.name} exceeded {int(CASE_CPU_LIMIT)} CPU seconds in harness code:\n{traceback.format_exc()}"
        ) from None
    except Exception as e:  # pylint: disable=broad-except
        if core.in_repo_tb(e):
            site = core.raise_site(e)
            return R(outcome=f"raised:{type(e).__name__}").fail(
                f"unexpected-exception:{type(e).__name__}@{site}",
                f"{type(e).__name__}: {e} (raised inside the tree under verification at {site})",
            )
        # `from None`: the original exception object may not survive pickling back to the parent (e.g. rasterio's
        # CPLE_* errors have a read-only `args`), which would hang the pool; its text is in the message
        raise HarnessError(
            f"harness error in slice {sl.name} case {case!r}:\n{traceback.format_exc()}"
        ) from None


def _run_shard(args):
    si, shard, nshards, seed = args
    sl = _SLICES[si]
    if sl.setup is not None:
        sl.setup()
    evals = 0
    nt: List[int] = []
    outcomes: Counter = Counter()
    counters: Counter = Counter()
    fails = []
    nfail_keys: Counter = Counter()
    samples = []
    t0 = time.time()
    max_cpu = 0.0
    timed = hasattr(signal, "SIGPROF") and CASE_CPU_LIMIT > 0
    if timed:
        signal.signal(signal.SIGPROF, _on_sigprof)
    for i, case in enumerate(sl.gen()):
        if i % nshards != shard:
            continue
        if _ABORT is not None and _ABORT[si]:
            outcomes["skipped:slice-aborted-after-non-termination"] += 1
            continue
        if timed:
            signal.setitimer(signal.ITIMER_PROF, CASE_CPU_LIMIT)
        c0 = time.process_time()
        try:
            r = _judge(sl, case)
        finally:
            if timed:
                signal.setitimer(signal.ITIMER_PROF, 0)
        max_cpu = max(max_cpu, time.process_time() - c0)
        if _ABORT is not None and r.outcome == "did-not-terminate":
            _ABORT[si] = 1
        evals += 1
        outcomes[r.outcome] += 1
        if r.counts:
            counters.update(r.counts)
        if r.nontrivial:
            h = core.h64((sl.name, case))
            nt.append(h)
            if len(samples) < 2 and (h ^ (seed * 0x9E3779B97F4A7C15)) % 997 < 40:
                samples.append((sl.name, case, r.outcome))
        for f in r.fails:
            nfail_keys[f.key] += 1
            if nfail_keys[f.key] <= 1 and len(fails) < MAX_FAILS_PER_SHARD:
                fails.append((f.key, f.msg, case))
    if not samples and evals:
        # deterministic fallback so that samples is never empty
        for i, case in enumerate(sl.gen()):
            if i % nshards == shard:
                samples.append((sl.name, case, "first-of-shard"))
                break
    return dict(
        si=si,
        evals=evals,
        nt=np.asarray(nt, dtype="uint64"),
        outcomes=outcomes,
        counters=counters,
        fails=fails,
        fail_counts=nfail_keys,
        samples=samples,
        wall=time.time() - t0,
        max_cpu=max_cpu,
    )


def run_slices(ctx: Ctx, slices: List[Slice], pool_jobs: Optional[int] = None) -> None:
    """Enumerate every slice completely on `jobs` worker processes and fold results into ctx."""
    global _SLICES, _ABORT, CASE_CPU_LIMIT  # pylint: disable=global-statement
    if "VERIF_CASE_CPU_LIMIT" not in os.environ:
        # the largest case of the quick tier uses ~45 CPU-s (evidence: max_case_cpu_s); thorough cases are several times larger
        CASE_CPU_LIMIT = 900.0 if getattr(ctx, "tier", "quick") == "quick" else 3600.0
    _SLICES = slices
    _ABORT = mp.get_context("fork").Array("b", max(1, len(slices)), lock=False)
    jobs = pool_jobs or ctx.jobs
    tasks = []
    for si, sl in enumerate(slices):
        n = sl.shards or 64
        tasks.extend((si, sh, n, ctx.seed) for sh in range(n))
    # VERIF_SEED rotates the order in which shards are handed out (verdict-invariant)
    if tasks:
        k = ctx.seed % len(tasks)
        tasks = tasks[k:] + tasks[:k]

    per = [dict(name=sl.name, evaluations=0, nontrivial=0, outcomes=Counter(), wall_cpu_s=0.0,
                note=sl.note) for sl in slices]
    results = []
    if jobs == 1:
        results = [_run_shard(t) for t in tasks]
    else:
        mpctx = mp.get_context("fork")
        # ProcessPoolExecutor, not mp.Pool: a worker that dies (a crash inside a native library) breaks the pool with an
        # exception instead of leaving the parent waiting for ever
        ex = ProcessPoolExecutor(max_workers=jobs, mp_context=mpctx)
        try:
            futs = [ex.submit(_run_shard, t) for t in tasks]
            for f in as_completed(futs):
                results.append(f.result())
        except BrokenProcessPool as e:
            raise HarnessError(
                f"a worker process died while running slices {[sl.name for sl in slices]} (crash in a native library or "
                f"out of memory): {e}") from None
        finally:
            ex.shutdown(wait=True, cancel_futures=True)
    # fold deterministically (by slice, then by content) so output does not depend on timing
    results.sort(key=lambda r: (r["si"], r["evals"], sorted(r["fail_counts"].items())))
    for res in results:
        p = per[res["si"]]
        p["evaluations"] += res["evals"]
        p["nontrivial"] += int(res["nt"].size)
        p["outcomes"].update(res["outcomes"])
        p["wall_cpu_s"] += res["wall"]
        p["max_case_cpu_s"] = round(max(p.get("max_case_cpu_s", 0.0), res.get("max_cpu", 0.0)), 2)
        ctx.evaluations += res["evals"]
        ctx.nontrivial_hashes.append(res["nt"])
        ctx.outcomes.update(res["outcomes"])
        ctx.counters.update(res["counters"])
        for key, msg, case in res["fails"]:
            ctx.add_violation(key, msg, slices[res["si"]].name, case, count=0)
        for key, cnt in res["fail_counts"].items():
            if key in ctx.violations:
                ctx.violations[key].count += cnt
    samples = sorted((s for res in results for s in res["samples"]), key=core.h64)
    k = ctx.seed % len(samples) if samples else 0
    for s in (samples[k:] + samples[:k])[:8]:
        ctx.add_sample({"slice": s[0], "case": s[1], "outcome": s[2]})
    for p in per:
        p["outcomes"] = {k: int(v) for k, v in p["outcomes"].most_common(12)}
        p["wall_cpu_s"] = round(p["wall_cpu_s"], 2)
        ctx.slices.append(p)


def replay(slices: List[Slice], slice_name: str, case: Any) -> R:
    for sl in slices:
        if sl.name == slice_name:
            if sl.setup is not None:
                sl.setup()
            return _judge(sl, case)
    raise HarnessError(f"no slice named {slice_name}")
